"""
C24 hunt 1 - a TunnellingAck that does not belong to the pending request confirms it.

Property clause: "A send succeeds only after an acknowledgement with the same
channel id, the same sequence counter and no error status has arrived."

The real UDPTunnel / Tunnelling / RequestResponse / UDPTransport (incl. frame
parsing) are driven by a simulated gateway; only the socket (UDPTransport.connect /
send / stop / getsockname) and the loop clock are replaced.

Run: /venv/bin/python -m pytest -q -p no:cacheprovider hunt1.py
"""

from __future__ import annotations

import asyncio
from collections.abc import Callable
from unittest.mock import Mock, patch

import pytest

from xknx import XKNX
from xknx.cemi import CEMIFrame, CEMILData, CEMIMessageCode
from xknx.dpt import DPTArray
from xknx.io import UDPTunnel
from xknx.io.transport.udp_transport import UDPTransport
from xknx.knxip import (
    HPAI,
    ConnectRequest,
    ConnectResponse,
    ConnectResponseData,
    DisconnectRequest,
    DisconnectResponse,
    KNXIPFrame,
    TunnellingAck,
    TunnellingRequest,
)
from xknx.telegram import GroupAddress, IndividualAddress, Telegram
from xknx.telegram.apci import GroupValueWrite

GATEWAY = ("192.168.1.2", 3671)
LOCAL = ("192.168.1.1", 12345)


class Clock:
    """Virtual loop clock (same technique as test/conftest.py::EventLoopClockAdvancer)."""

    def __init__(self) -> None:
        self.loop = asyncio.get_running_loop()
        self.offset = 0.0
        self._base = self.loop.time
        self.loop.time = self.time  # type: ignore[method-assign]

    def time(self) -> float:
        return self._base() + self.offset

    async def _drain(self) -> None:
        while self.loop._ready:  # type: ignore[attr-defined]
            await asyncio.sleep(0)

    async def advance(self, seconds: float) -> None:
        await self._drain()
        if seconds > 0:
            self.offset += seconds
            await asyncio.sleep(0)
            await self._drain()


class SimGateway:
    """
    A KNXnet/IP tunnelling server at the network boundary.

    `on_tunnelling_request(n, request)` is called for the n-th (0-based)
    TunnellingRequest datagram the client puts on the wire and returns a list
    of `(delay_seconds, TunnellingAck)` to deliver - [] means the datagram
    (or its ACK) is lost.
    """

    def __init__(self, tunnel: UDPTunnel) -> None:
        self.tunnel = tunnel
        self.next_channel = 1
        self.wire: list[KNXIPFrame] = []  # everything the client sent
        self.tunnelling_requests: list[TunnellingRequest] = []
        self.on_tunnelling_request: Callable[
            [int, TunnellingRequest], list[tuple[float, TunnellingAck]]
        ] = lambda n, req: [
            (0.0, TunnellingAck(req.communication_channel_id, req.sequence_counter))
        ]

    # -- socket replacements -------------------------------------------------
    async def connect(self) -> None:
        self.tunnel.transport.transport = Mock()

    def stop(self) -> None:
        self.tunnel.transport.transport = None

    def send(self, knxipframe: KNXIPFrame, addr: tuple[str, int] | None = None) -> None:
        if self.tunnel.transport.transport is None:
            from xknx.exceptions import CommunicationError

            raise CommunicationError("Transport not connected")
        # through the real serializer and parser, like a datagram
        frame, _ = KNXIPFrame.from_knx(knxipframe.to_knx())
        self.wire.append(frame)
        body = frame.body
        if isinstance(body, ConnectRequest):
            channel = self.next_channel
            self.next_channel += 1
            self.deliver(
                0.0,
                ConnectResponse(
                    communication_channel=channel,
                    data_endpoint=HPAI(*GATEWAY),
                    crd=ConnectResponseData(
                        individual_address=IndividualAddress("1.1.250")
                    ),
                ),
            )
        elif isinstance(body, DisconnectRequest):
            self.deliver(
                0.0,
                DisconnectResponse(communication_channel_id=body.communication_channel_id),
            )
        elif isinstance(body, TunnellingRequest):
            n = len(self.tunnelling_requests)
            self.tunnelling_requests.append(body)
            for delay, ack in self.on_tunnelling_request(n, body):
                self.deliver(delay, ack)

    # -- gateway -> client -----------------------------------------------------
    def deliver(self, delay: float, body: object) -> None:
        raw = KNXIPFrame.init_from_body(body).to_knx()  # type: ignore[arg-type]
        asyncio.get_running_loop().call_later(
            delay, self.tunnel.transport.data_received_callback, raw, GATEWAY
        )


def make_cemi(value: int) -> CEMIFrame:
    return CEMIFrame(
        code=CEMIMessageCode.L_DATA_REQ,
        data=CEMILData.init_from_telegram(
            Telegram(
                destination_address=GroupAddress(value + 1),
                payload=GroupValueWrite(DPTArray((value,))),
            ),
            src_addr=IndividualAddress("1.1.250"),
        ),
    )


@pytest.fixture
async def env():
    clock = Clock()
    xknx = XKNX()
    tunnel = UDPTunnel(
        xknx,
        gateway_ip=GATEWAY[0],
        gateway_port=GATEWAY[1],
        local_ip=LOCAL[0],
        local_port=0,
        cemi_received_callback=Mock(),
        auto_reconnect=True,
        auto_reconnect_wait=3,
        route_back=False,
    )
    gateway = SimGateway(tunnel)
    with (
        patch.object(UDPTransport, "connect", lambda self: gateway.connect()),
        patch.object(UDPTransport, "stop", lambda self: gateway.stop()),
        patch.object(
            UDPTransport, "send", lambda self, frame, addr=None: gateway.send(frame, addr)
        ),
        patch.object(UDPTransport, "getsockname", lambda self: LOCAL),
    ):
        connect = asyncio.create_task(tunnel.connect())
        await clock.advance(0)
        await connect
        assert tunnel.communication_channel == 1
        assert tunnel.sequence_number == 0
        yield tunnel, gateway, clock
        tunnel.stop_heartbeat()
        tunnel._stop_reconnect()
        await clock.advance(0)


async def test_stale_ack_of_repeated_frame_confirms_the_next_frame(env) -> None:
    """
    Delay beyond timeout + the (spec conforming) ACK for the repetition.

    t=0.0  A (seq 0) sent;   its ACK is delayed by 1.2 s (> 1 s timeout)
    t=1.0  A repeated (seq 0); the gateway ACKs the repetition as well, 0.3 s later
    t=1.2  ACK(seq 0) #1 arrives -> A confirmed (correct)
    t=1.2  B (seq 1) sent;   the datagram is LOST - the gateway never sees B
    t=1.3  ACK(seq 0) #2 arrives while B awaits its ACK
    """
    tunnel, gateway, clock = env

    def script(n: int, req: TunnellingRequest) -> list[tuple[float, TunnellingAck]]:
        ack = TunnellingAck(req.communication_channel_id, req.sequence_counter)
        if n == 0:
            return [(1.2, ack)]  # delayed beyond the timeout
        if n == 1:
            return [(0.3, ack)]  # ACK of the repetition - a duplicate for the client
        return []  # every later datagram is lost

    gateway.on_tunnelling_request = script

    send_a = asyncio.create_task(tunnel.send_cemi(make_cemi(1)))
    await clock.advance(0)
    await clock.advance(1.0)  # timeout -> repetition
    await clock.advance(0.2)  # ACK #1
    assert send_a.done() and send_a.exception() is None
    assert [r.sequence_counter for r in gateway.tunnelling_requests] == [0, 0]

    send_b = asyncio.create_task(tunnel.send_cemi(make_cemi(2)))
    await clock.advance(0)
    assert [r.sequence_counter for r in gateway.tunnelling_requests] == [0, 0, 1]
    await clock.advance(0.1)  # ACK #2 - sequence counter 0 - arrives

    assert not send_b.done(), (
        "send_cemi() of frame B (channel 1, sequence counter 1) returned successfully "
        f"(exception={send_b.exception()!r}) although the only acknowledgement that arrived "
        "while it was pending was the stale TunnellingAck(channel 1, sequence counter 0) of "
        "the repeated frame A - no ACK with sequence counter 1 was ever delivered. "
        "The property requires a send to succeed only after an acknowledgement with the "
        "same sequence counter - B was lost on the wire and must be repeated."
    )


async def test_ack_of_foreign_channel_confirms_the_frame(env) -> None:
    """An ACK carrying another communication channel id confirms the pending request."""
    tunnel, gateway, clock = env
    gateway.on_tunnelling_request = lambda n, req: [
        (0.1, TunnellingAck(req.communication_channel_id + 7, req.sequence_counter))
    ]
    send = asyncio.create_task(tunnel.send_cemi(make_cemi(1)))
    await clock.advance(0)
    await clock.advance(0.1)
    assert not send.done(), (
        "send_cemi() of the frame (channel 1, sequence counter 0) returned successfully "
        f"(exception={send.exception()!r}) after TunnellingAck(channel 8, sequence counter 0) "
        "arrived. The property requires an acknowledgement with the same channel id."
    )


async def test_lost_frame_goes_unnoticed_after_a_single_delayed_ack(env) -> None:
    """
    After one delayed ACK every following back-to-back frame is confirmed by its predecessor's ACK.

    (The shift persists until a frame is lost - and exactly that loss is then not detected.)

    The gateway ACKs every datagram it receives (0.05 s later); only the very first
    ACK is delayed beyond the timeout. Frame number 3 (sequence counter 3) is lost.
    The client must detect the loss (repeat the frame); it does not.
    """
    tunnel, gateway, clock = env
    lost_sequence_counter = 3

    def script(n: int, req: TunnellingRequest) -> list[tuple[float, TunnellingAck]]:
        ack = TunnellingAck(req.communication_channel_id, req.sequence_counter)
        if n == 0:
            return [(1.01, ack)]
        if req.sequence_counter == lost_sequence_counter:
            return []
        return [(0.05, ack)]

    gateway.on_tunnelling_request = script

    async def sender() -> None:
        for i in range(6):
            await tunnel.send_cemi(make_cemi(i))

    task = asyncio.create_task(sender())
    await clock.advance(0)
    await clock.advance(1.0)
    for _ in range(40):
        await clock.advance(0.01)
    on_wire = [r.sequence_counter for r in gateway.tunnelling_requests]
    assert on_wire.count(lost_sequence_counter) >= 2 or not task.done(), (
        f"TunnellingRequests on the wire: {on_wire}. The datagram with sequence counter "
        f"{lost_sequence_counter} was lost and never acknowledged, yet send_cemi() reported "
        "success for it without repeating it (each frame was 'confirmed' by the stale ACK of "
        "its predecessor). The property requires an ACK with the same sequence counter."
    )
    if not task.done():
        task.cancel()
