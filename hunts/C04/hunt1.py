"""
C04 hunt 1 - APCI.from_knx() leaks a bare TypeError for the two group value services
when the APDU is offered as a bytearray (which is what every APCI.to_knx() returns).

Property C04: for every byte string offered as an application-layer PDU, decoding
returns a service object or fails with ConversionError / UnsupportedAPCIService; it
never raises any other exception.

Run: /venv/bin/python -m pytest -q -p no:cacheprovider hunt1.py
"""

from __future__ import annotations

import pytest

from xknx.dpt import DPTArray
from xknx.exceptions import ConversionError
from xknx.telegram.apci import (
    APCI,
    GroupValueResponse,
    GroupValueWrite,
    MemoryWrite,
    PropertyValueResponse,
)


def _decode(raw: bytes | bytearray) -> tuple[str, object]:
    """Classify the outcome of APCI.from_knx()."""
    try:
        return "object", APCI.from_knx(raw)  # type: ignore[arg-type]
    except ConversionError as err:  # includes UnsupportedAPCIService
        return "declared-error", err
    except Exception as err:  # pylint: disable=broad-exception-caught
        return "UNDECLARED", err


def test_control_other_services_decode_their_own_serialisation() -> None:
    """Control: the decoder does accept the bytearray the serialiser hands out."""
    for payload in (
        MemoryWrite(address=0x1234, data=b"\xaa\xbb"),
        PropertyValueResponse(object_index=1, property_id=2, data=b"\x01\x02\x03"),
    ):
        raw = payload.to_knx()
        assert isinstance(raw, bytearray)
        kind, result = _decode(raw)
        assert kind == "object", (kind, result)
        assert result == payload


@pytest.mark.parametrize(
    "payload",
    [
        GroupValueWrite(DPTArray((0x01,))),
        GroupValueWrite(DPTArray((0x0C, 0x1A))),
        GroupValueResponse(DPTArray((0x01,))),
    ],
)
def test_group_value_apdu_from_own_serialiser(payload: APCI) -> None:
    """APCI.from_knx(x.to_knx()) for the two most common services."""
    raw = payload.to_knx()  # bytearray - by design of APCI.to_knx()
    assert isinstance(raw, bytearray)
    # the same octets as `bytes` decode fine
    assert APCI.from_knx(bytes(raw)) == payload

    kind, result = _decode(raw)
    assert kind != "UNDECLARED", (
        f"APCI.from_knx({raw!r}) raised {result!r} ({type(result).__name__}); "
        "C04 requires a service object, a ConversionError or an "
        "UnsupportedAPCIService for every byte string offered as APDU - never any "
        "other exception. The same octets as bytes decode to "
        f"{APCI.from_knx(bytes(raw))}."
    )
    assert kind == "object" and result == payload


def test_exhaustive_3_octet_bytearray_apdus_of_group_services() -> None:
    """All 3-octet APDUs with APCI 0x040..0x0BF (GroupValueResponse/Write)."""
    undeclared = []
    for apci in range(0x040, 0x0C0):
        for data in (0x00, 0x01, 0x7F, 0xFF):
            raw = bytearray([apci >> 8, apci & 0xFF, data])
            kind, result = _decode(raw)
            if kind == "UNDECLARED":
                undeclared.append((raw.hex(), repr(result)))
    assert not undeclared, (
        f"{len(undeclared)} of 512 three-octet APDUs raised an exception that is "
        f"neither ConversionError nor UnsupportedAPCIService, e.g. {undeclared[:3]}; "
        "C04 allows only those two."
    )
