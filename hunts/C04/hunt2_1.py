"""
C04 hunt 1 (LOW / borderline): a `bytearray` APDU for A_GroupValue_Write / A_GroupValue_Response
with an appended value makes `APCI.from_knx` raise a bare `TypeError`.

Property C04: "For every byte string offered as an application-layer PDU, decoding returns a
service object or fails with a conversion error or an unsupported-service error; it never raises
any other exception".

`APCI.to_knx()` of every service returns a `bytearray` by design, so the natural round trip
`APCI.from_knx(apci.to_knx())` feeds a bytearray into the decoder. Every other service decodes a
bytearray fine; only the two group value services with a DPTArray value blow up.

CAVEAT: `from_knx` is annotated `raw: bytes`; the cEMI receive path always hands over `bytes`.
"""

from __future__ import annotations

import pytest

from xknx.dpt import DPTArray
from xknx.exceptions import ConversionError
from xknx.telegram.apci import (
    APCI,
    GroupValueResponse,
    GroupValueWrite,
    MemoryWrite,
    PropertyValueResponse,
)


def _decode(raw: bytes | bytearray) -> object:
    """Decode and classify - anything but a service object / ConversionError is a violation."""
    try:
        return APCI.from_knx(raw)  # type: ignore[arg-type]
    except ConversionError as err:  # includes UnsupportedAPCIService
        return err


def test_other_services_accept_bytearray() -> None:
    """Control: a bytearray APDU is decoded like the same bytes for other services."""
    for raw in (
        bytes.fromhex("028312340a0b0c"),  # A_Memory_Write
        bytes.fromhex("03d6000110010203"),  # A_PropertyValue_Response
        bytes.fromhex("0000"),  # A_GroupValue_Read
        bytes.fromhex("0081"),  # A_GroupValue_Write, 6 bit value
    ):
        assert _decode(bytearray(raw)) == _decode(raw)
    assert isinstance(_decode(bytearray.fromhex("028312340a0b0c")), MemoryWrite)
    assert isinstance(
        _decode(bytearray.fromhex("03d6000110010203")), PropertyValueResponse
    )


@pytest.mark.parametrize(
    ("raw", "expected"),
    [
        (bytearray.fromhex("00800102"), GroupValueWrite(DPTArray((1, 2)))),
        (bytearray.fromhex("00400102"), GroupValueResponse(DPTArray((1, 2)))),
        (bytearray.fromhex("0080ff"), GroupValueWrite(DPTArray((0xFF,)))),
    ],
)
def test_group_value_bytearray_apdu(raw: bytearray, expected: APCI) -> None:
    """A bytearray A_GroupValue_Write/Response APDU with appended data."""
    try:
        result = APCI.from_knx(raw)  # type: ignore[arg-type]
    except ConversionError:
        return  # a declared error would satisfy the property
    except Exception as err:  # pylint: disable=broad-exception-caught
        pytest.fail(
            f"APCI.from_knx({raw!r}) raised {err!r}; property C04 requires a service object, "
            "a ConversionError or an UnsupportedAPCIService - never any other exception"
        )
    assert result == expected


def test_round_trip_of_own_encoder_output() -> None:
    """`to_knx()` returns a bytearray - decoding what the library just encoded must not crash."""
    payload = GroupValueWrite(DPTArray((0x0C, 0x1A)))
    encoded = payload.to_knx()
    assert isinstance(encoded, bytearray)
    try:
        decoded = APCI.from_knx(encoded)  # type: ignore[arg-type]
    except ConversionError:
        return
    except Exception as err:  # pylint: disable=broad-exception-caught
        pytest.fail(
            f"APCI.from_knx(GroupValueWrite(...).to_knx()) raised {err!r} for APDU "
            f"{encoded.hex()}; property C04 allows only ConversionError / "
            "UnsupportedAPCIService besides a decoded service object"
        )
    assert decoded == payload
