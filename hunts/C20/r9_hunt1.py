"""C20 hunt 1: 'incomplete frame' is reported for service types the parser can never return.

KNXIPServiceType knows ROUTING_SYSTEM_BROADCAST and REMOTE_* but KNXIPFrame.from_knx has no body
class for them.  A truncated frame of such a type raises IncompleteKNXIPFrame although every
completion ends in CouldNotParseKNXIP("KNXIPServiceType not implemented").
"""

import random

import pytest

import xknx
from xknx.exceptions import CouldNotParseKNXIP, IncompleteKNXIPFrame
from xknx.knxip import KNXIPFrame
from xknx.knxip.knxip_enum import KNXIPServiceType

assert xknx.__file__.startswith("/tmp/hunt_C20"), xknx.__file__

UNIMPLEMENTED = [
    KNXIPServiceType.ROUTING_SYSTEM_BROADCAST,
    KNXIPServiceType.REMOTE_DIAG_REQUEST,
    KNXIPServiceType.REMOTE_DIAG_RESPONSE,
    KNXIPServiceType.REMOTE_CONFIG_REQUEST,
    KNXIPServiceType.REMOTE_RESET_REQUEST,
]


def outcome(data: bytes) -> str:
    try:
        KNXIPFrame.from_knx(data)
    except IncompleteKNXIPFrame:
        return "incomplete"
    except CouldNotParseKNXIP as err:
        return f"error: {err.description}"
    return "frame"


@pytest.mark.parametrize("service_type", UNIMPLEMENTED)
@pytest.mark.parametrize("cut", [4, 5, 6, 7, 19])
def test_incomplete_only_if_completable(service_type: KNXIPServiceType, cut: int) -> None:
    total_length = 20
    rnd = random.Random(cut)
    full_frames = [
        bytes((0x06, 0x10))
        + service_type.value.to_bytes(2, "big")
        + total_length.to_bytes(2, "big")
        + body
        for body in [bytes(14), *(rnd.randbytes(14) for _ in range(200))]
    ]
    # whatever is appended, the parser can not return a frame of this service type
    completions = {outcome(frame) for frame in full_frames}
    assert completions == {
        f"error: KNXIPServiceType not implemented: {service_type.name}"
    }
    prefix = full_frames[0][:cut]
    observed = outcome(prefix)
    assert observed != "incomplete", (
        f"KNXIPFrame.from_knx({prefix.hex()}) reported 'incomplete frame' for service type "
        f"{service_type.name}, but no appended bytes can complete it: all {len(full_frames)} "
        f"completions to the announced length fail with {completions}. The property requires "
        "'incomplete frame' only when appending bytes could complete the frame "
        "(expected CouldNotParseKNXIP 'not implemented' right away)."
    )
