"""C20 hunt 2: 'incomplete frame' for frames that are already doomed by what has arrived.

(a) the announced total length is impossible for the (fixed size) service type,
(b) the body bytes that already arrived are invalid.
In both cases the missing part is only 1 (or 2) bytes, so ALL completions are enumerated.
"""

import itertools

import pytest

import xknx
from xknx.exceptions import CouldNotParseKNXIP, IncompleteKNXIPFrame
from xknx.knxip import KNXIPFrame

assert xknx.__file__.startswith("/tmp/hunt_C20"), xknx.__file__


def outcome(data: bytes) -> str:
    try:
        KNXIPFrame.from_knx(data)
    except IncompleteKNXIPFrame:
        return "incomplete"
    except CouldNotParseKNXIP as err:
        return f"error: {err.description}"
    return "frame"


CASES = {
    # (a) announced total length impossible for the service type
    "TUNNELLING_ACK total_length=7 (body is always 4)": ("0610 0421 0007", 1),
    "TUNNELLING_ACK total_length=8 (body is always 4)": ("0610 0421 0008", 2),
    "SESSION_STATUS total_length=7 (body is always 2)": ("0610 0954 0007", 1),
    "TIMER_NOTIFY total_length=7 (body is always 30)": ("0610 0955 0007", 1),
    "ROUTING_BUSY total_length=7 (body is always 6)": ("0610 0532 0007", 1),
    "CONNECTIONSTATE_RESPONSE total_length=7 (body needs 2)": ("0610 0208 0007", 1),
    "DESCRIPTION_REQUEST total_length=7 (HPAI needs 8)": ("0610 0203 0007", 1),
    # (b) the part of the body that already arrived is invalid
    "DESCRIPTION_REQUEST HPAI structure length 7": (
        "0610 0203 000e 07 01 c0a80001 0e",
        1,
    ),
    "TUNNELLING_REQUEST connection header length 5": ("0610 0420 000b 05 01 00 00", 1),
    "CONNECT_REQUEST unknown host protocol 0x07": (
        "0610 0205 001a 0807c0a800010e57 0801c0a800010e57 040402",
        1,
    ),
}


@pytest.mark.parametrize("name", CASES)
def test_incomplete_only_if_completable(name: str) -> None:
    prefix_hex, missing = CASES[name]
    prefix = bytes.fromhex(prefix_hex)
    assert int.from_bytes(prefix[4:6], "big") == len(prefix) + missing
    # exhaustive: every possible completion to the announced total length
    completions = {
        outcome(prefix + bytes(tail))
        for tail in itertools.product(range(256), repeat=missing)
    }
    assert "frame" not in completions and "incomplete" not in completions, completions
    # appending even more can not help either: the frame is cut at total_length
    observed = outcome(prefix)
    assert observed != "incomplete", (
        f"[{name}] KNXIPFrame.from_knx({prefix.hex()}) reported 'incomplete frame', but ALL "
        f"{256**missing} possible completions to the announced total length fail with "
        f"{sorted(completions)}. The property requires 'incomplete frame' only when appending "
        "bytes could complete the frame."
    )
