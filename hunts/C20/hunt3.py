"""
C20 hunt 3: fixed-size bodies followed by unannounced extra octets are accepted although the
body parser consumed LESS than the length the header announces.

KNXIPFrame.from_knx cuts `raw_body = data[6:total_length]`, calls `body.from_knx(raw_body)`
and throws the returned position away.  Half of the body classes verify
`len(raw) == BODY_LENGTH` themselves (TunnellingAck, DeviceConfigurationAck, RoutingBusy,
RoutingLostMessage, Session*, TimerNotify) - the other half do not, so for them a header
whose total length is inconsistent with the body structure yields a "successfully parsed"
frame: octets the header announces as part of the frame are neither parsed nor rejected.
"""

from __future__ import annotations

import pytest

from xknx.exceptions import CouldNotParseKNXIP
from xknx.knxip import KNXIPFrame

HPAI = "0801c0a800010e57"

# (name, service type, well-formed body)
WELL_FORMED = [
    ("SearchRequest", "0201", HPAI),
    ("DescriptionRequest", "0203", HPAI),
    ("ConnectRequest", "0205", HPAI + HPAI + "04040200"),
    ("ConnectResponse", "0206", "0100" + HPAI + "04041101"),
    ("ConnectionStateRequest", "0207", "0100" + HPAI),
    ("ConnectionStateResponse", "0208", "0100"),
    ("DisconnectRequest", "0209", "0100" + HPAI),
    ("DisconnectResponse", "020a", "0100"),
]

EXTRA = bytes.fromhex("deadbeef")


def _frame(service_type: str, body: bytes) -> bytes:
    return (
        bytes.fromhex("0610" + service_type)
        + (6 + len(body)).to_bytes(2, "big")
        + body
    )


@pytest.mark.parametrize(
    ("name", "service_type", "body_hex"), WELL_FORMED, ids=[w[0] for w in WELL_FORMED]
)
def test_body_consumes_announced_length_or_fails(
    name: str, service_type: str, body_hex: str
) -> None:
    """A frame announcing 4 octets more than its body structure holds must not pass."""
    good_body = bytes.fromhex(body_hex)
    # sanity: the well-formed frame parses and the body parser consumes all of it
    good_frame, rest = KNXIPFrame.from_knx(_frame(service_type, good_body))
    assert rest == b""
    assert type(good_frame.body)().from_knx(good_body) == len(good_body)

    bad_body = good_body + EXTRA
    raw = _frame(service_type, bad_body)  # header announces the 4 extra octets
    try:
        frame, rest = KNXIPFrame.from_knx(raw)
    except CouldNotParseKNXIP:
        return  # declared error: fine
    consumed = type(frame.body)().from_knx(bad_body)
    assert consumed == len(bad_body), (
        f"{name} frame {raw.hex()} announces total length {frame.header.total_length} "
        f"(body {len(bad_body)} octets) but the body parser consumed only {consumed} octets "
        f"and the frame was returned as valid ({frame.body!r}); the octets "
        f"{bad_body[consumed:].hex()} that the header declares part of the frame were "
        "silently dropped. The property requires: return a frame having consumed exactly "
        "the announced length, or fail with CouldNotParseKNXIP (as TunnellingAck, "
        "RoutingBusy, SessionStatus ... already do for the same inconsistency)."
    )
