"""
C20 hunt 2: SEARCH_REQUEST_EXTENDED - the SRP structure length on the wire is not the
length the parser advances by.

SRP.from_knx(data) slices the payload by the announced structure length (data[0]) but then
SRP.__init__ *recomputes* `payload_size` from the SRP type (and even pads the payload of an
odd REQUEST_DIBS SRP with an extra 0x00).  SearchRequestExtended.from_knx advances by
`len(srp)` (== the recomputed payload_size), not by the announced length.  Inconsistent SRP
lengths are therefore neither rejected nor consumed as announced:

* over-read: an SRP announcing 3 bytes is consumed as 4 bytes - the body parser reports
  having consumed MORE bytes than the frame (and its header) contains;
* under-read: an SRP announcing 4 bytes is consumed as 2 bytes - its own payload is then
  parsed as a further SRP;
* an SRP announcing a structure length of 0 (smaller than its own 2 byte header) is accepted.
"""

from __future__ import annotations

from xknx.exceptions import CouldNotParseKNXIP
from xknx.knxip import KNXIPFrame, SearchRequestExtended

HPAI = bytes.fromhex("0801c0a800010e57")


def _frame(body: bytes) -> bytes:
    return bytes.fromhex("0610020b") + (6 + len(body)).to_bytes(2, "big") + body


def _parse_or_none(raw: bytes) -> KNXIPFrame | None:
    try:
        frame, rest = KNXIPFrame.from_knx(raw)
    except CouldNotParseKNXIP:
        return None  # a declared parse error is fine for inconsistent SRP lengths
    assert rest == b""
    return frame


def test_srp_over_read_beyond_announced_frame_length() -> None:
    """SRP announcing 3 octets (REQUEST_DIBS, one DIB type) is consumed as 4 octets."""
    srp = bytes((0x03, 0x04, 0x01))  # structure length 3, REQUEST_DIBS, DEVICE_INFO
    body = HPAI + srp
    raw = _frame(body)
    frame = _parse_or_none(raw)
    if frame is None:
        return
    consumed = SearchRequestExtended().from_knx(body)
    assert consumed == len(body) and len(frame.to_knx()) == frame.header.total_length, (
        f"SEARCH_REQUEST_EXTENDED {raw.hex()} was accepted, but the body parser consumed "
        f"{consumed} octets of a {len(body)} octet body (header announces total length "
        f"{frame.header.total_length}); the returned frame serialises to "
        f"{len(frame.to_knx())} octets ({frame.to_knx().hex()}) under a header that still "
        f"says {frame.header.total_length}. The property requires the parser to either "
        "consume exactly the announced length or fail with CouldNotParseKNXIP."
    )


def test_srp_under_read_reinterprets_payload_as_next_srp() -> None:
    """SRP announcing 4 octets (programming mode + 2 payload octets) is consumed as 2."""
    srp = bytes((0x04, 0x81, 0x02, 0x81))  # ONE structure of 4 octets
    raw = _frame(HPAI + srp)
    frame = _parse_or_none(raw)
    if frame is None:
        return
    assert isinstance(frame.body, SearchRequestExtended)
    assert len(frame.body.srps) == 1, (
        f"SEARCH_REQUEST_EXTENDED {raw.hex()} carries exactly one SRP whose structure length "
        f"is 4, but the parser advanced by 2 and returned {len(frame.body.srps)} SRPs "
        f"(it parsed the SRP's own payload 0281 as a second SRP); re-serialised: "
        f"{frame.to_knx().hex()}. Inconsistent SRP lengths must be rejected with "
        "CouldNotParseKNXIP or consumed exactly as announced."
    )


def test_srp_structure_length_zero_accepted() -> None:
    """SRP announcing structure length 0 (< its 2 octet header) is accepted."""
    raw = _frame(HPAI + bytes((0x00, 0x81)))
    frame = _parse_or_none(raw)
    assert frame is None, (
        f"SEARCH_REQUEST_EXTENDED {raw.hex()} contains an SRP with structure length 0 "
        f"(smaller than the SRP header itself) and was accepted as {frame!r}; 2 octets were "
        "consumed for a structure that announces 0. A zero-length structure must be a "
        "CouldNotParseKNXIP (as it now is for DIBs)."
    )
