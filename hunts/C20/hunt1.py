"""
C20 hunt 1: 'incomplete frame' is reported for byte strings that no suffix can complete.

KNXIPHeader.from_knx tests `len(data) < 6` BEFORE it validates the bytes it already has.
A 1..5 byte input whose first byte is not 0x06 (or whose 2nd byte is not 0x10, or whose
service type bytes are unknown) is reported as IncompleteKNXIPFrame, although every
possible extension of it is rejected with CouldNotParseKNXIP.

Consequence in the stream parser (TCPTransport.data_received_callback): the hopeless bytes
are kept in the reassembly buffer "waiting for the rest" and destroy the next, perfectly
valid frame that arrives in a later segment.
"""

from __future__ import annotations

import itertools

import pytest

from xknx.exceptions import CouldNotParseKNXIP, IncompleteKNXIPFrame
from xknx.io.transport.tcp_transport import TCPTransport
from xknx.knxip import KNXIPFrame, KNXIPHeader, TunnellingAck

HOPELESS_PREFIXES = [
    b"\x00",  # header length byte is not 0x06
    b"\xff\xff\xff",
    b"\x05\x10\x04\x21\x00",  # wrong header length, 5 bytes
    b"\x06\x11",  # wrong protocol version
    b"\x06\x10\x00\x00",  # service type 0x0000 does not exist
    b"\x06\x10\xff\xff\x00",  # service type 0xFFFF does not exist
]


def _can_be_completed(prefix: bytes) -> bool:
    """Return True if some suffix lets the bytes start a parseable KNX/IP frame."""
    # A frame can only ever be returned if the first 6 bytes form a valid header.
    # Enumerate every completion of the header: header length / version / total length
    # have only one (resp. any sane) acceptable value, the service type is brute forced.
    candidates = [
        (0x06,),
        (0x10,),
        tuple(range(256)),  # service type high byte
        tuple(range(256)),  # service type low byte
        (0x00,),  # total length high byte
        (0x10,),  # total length low byte (>= 6)
    ][len(prefix) :]
    for tail in itertools.product(*candidates):
        try:
            KNXIPHeader().from_knx(prefix + bytes(tail))
        except CouldNotParseKNXIP:
            continue
        return True
    return False


@pytest.mark.parametrize("prefix", HOPELESS_PREFIXES, ids=lambda b: b.hex())
def test_incomplete_only_if_completable(prefix: bytes) -> None:
    """IncompleteKNXIPFrame must only be raised if appended bytes could complete the frame."""
    assert not _can_be_completed(prefix), "test precondition: prefix is hopeless"
    with pytest.raises(CouldNotParseKNXIP) as exc_info:
        KNXIPFrame.from_knx(prefix)
    assert not isinstance(exc_info.value, IncompleteKNXIPFrame), (
        f"KNXIPFrame.from_knx({prefix.hex()!r}) raised IncompleteKNXIPFrame, but no suffix "
        "can ever turn these bytes into a KNX/IP frame (every extension is rejected with "
        "CouldNotParseKNXIP). The property requires 'incomplete frame' to be reported only "
        "when appending bytes could complete the frame; a plain CouldNotParseKNXIP is required."
    )


def test_tcp_stream_keeps_hopeless_bytes_and_loses_next_frame() -> None:
    """Stream-level consequence: hopeless bytes are buffered and eat the next valid frame."""
    transport = TCPTransport(("127.0.0.1", 3671))
    received: list[KNXIPFrame] = []
    transport.register_callback(lambda frame, _source, _tr: received.append(frame))

    ack = KNXIPFrame.init_from_body(
        TunnellingAck(communication_channel_id=1, sequence_counter=7)
    ).to_knx()

    # segment 1: two stray bytes (e.g. padding a device appended after its last frame)
    transport.data_received_callback(b"\x00\x00")
    # segment 2: a complete, valid frame
    transport.data_received_callback(ack)

    assert transport._buffer == b"" and len(received) == 1, (
        "After the stray bytes 0000 (which can never start a KNX/IP frame) the transport "
        f"kept them as an 'incomplete frame', then lost the following valid TunnellingAck: "
        f"received={received!r}, buffer={transport._buffer.hex()!r}. "
        "Had the same garbage been 6 bytes long it would have been dropped and the ack "
        "delivered. 'Incomplete' may only be reported for completable input."
    )
