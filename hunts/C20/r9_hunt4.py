"""C20 hunt 4: bodies of fixed structure ignore the bytes the header announces beyond them.

KNXIPFrame.from_knx discards the 'consumed' count every KNXIPBody.from_knx returns.  For the
core services the body parser stops after its last structure, so a header announcing more
bytes than the body consumes is returned as a valid frame (tunnelling/routing/secure bodies
reject exactly the same inconsistency).
"""

import pytest

import xknx
from xknx.exceptions import CouldNotParseKNXIP
from xknx.knxip import KNXIPFrame

assert xknx.__file__.startswith("/tmp/hunt_C20"), xknx.__file__

HPAI = "0801c0a800010e57"
VALID = {
    "SEARCH_REQUEST": "0201" + HPAI,
    "DESCRIPTION_REQUEST": "0203" + HPAI,
    "CONNECT_REQUEST": "0205" + HPAI + HPAI + "04040200",
    "CONNECT_RESPONSE": "0206" + "0100" + HPAI + "04041101",
    "CONNECTIONSTATE_REQUEST": "0207" + "1500" + HPAI,
    "CONNECTIONSTATE_RESPONSE": "0208" + "1500",
    "DISCONNECT_REQUEST": "0209" + "1500" + HPAI,
    "DISCONNECT_RESPONSE": "020a" + "1500",
}
GARBAGE = bytes.fromhex("deadbeef")


def build(spec: str, extra: bytes) -> bytes:
    service, body = bytes.fromhex(spec[:4]), bytes.fromhex(spec[4:]) + extra
    return b"\x06\x10" + service + (6 + len(body)).to_bytes(2, "big") + body


@pytest.mark.parametrize("name", VALID)
def test_announced_length_is_consumed(name: str) -> None:
    good, _ = KNXIPFrame.from_knx(build(VALID[name], b""))
    assert 6 + good.body.calculated_length() == good.header.total_length
    raw = build(VALID[name], GARBAGE)
    try:
        frame, rest = KNXIPFrame.from_knx(raw)
    except CouldNotParseKNXIP:
        return  # declared error: fine
    consumed = type(frame.body)().from_knx(raw[6:])
    assert 6 + consumed == frame.header.total_length, (
        f"{name}: header announces total_length={frame.header.total_length}, the body parser "
        f"({type(frame.body).__name__}.from_knx) consumed only {consumed} of {len(raw) - 6} body "
        f"bytes, yet KNXIPFrame.from_knx returned a frame (re-serialised {frame.to_knx().hex()} "
        f"is {len(frame.to_knx())} bytes under a header claiming {frame.header.total_length}); "
        f"the trailing {GARBAGE.hex()} was silently dropped. The property requires a returned "
        "frame to have consumed exactly the length announced in its header, or a parse error."
    )
