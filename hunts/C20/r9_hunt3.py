"""C20 hunt 3: SearchRequestExtended advances by a length the SRP did not announce.

SRP.from_knx reads the SRP structure length from data[0] but SearchRequestExtended.from_knx
advances by len(srp) == SRP.payload_size, which SRP.__init__ recomputes from the type
(and, for REQUEST_DIBS, from padded data).  The parse position then runs past the end of the
body (over-read) or into the payload of the SRP (under-read).
"""

import xknx
from xknx.exceptions import CouldNotParseKNXIP
from xknx.knxip import KNXIPFrame
from xknx.knxip.search_request_extended import SearchRequestExtended

assert xknx.__file__.startswith("/tmp/hunt_C20"), xknx.__file__

HPAI = "0801 c0a80001 0e57"


def test_request_dibs_with_odd_length_is_over_read() -> None:
    """SRP 03 04 02: announced length 3, parser consumes 4 of the 3 available bytes."""
    raw = bytes.fromhex("0610 020b 0011" + HPAI + "03 04 02")
    try:
        frame, rest = KNXIPFrame.from_knx(raw)  # on the unchanged tree a frame IS returned
    except CouldNotParseKNXIP:
        return  # declared error: fine
    assert rest == b""
    body_raw = raw[6:]
    consumed = SearchRequestExtended().from_knx(body_raw)
    assert (
        6 + consumed == frame.header.total_length
        and 6 + frame.body.calculated_length() == frame.header.total_length
    ), (
        f"header announces total_length={frame.header.total_length} (body {len(body_raw)} bytes) "
        f"but SearchRequestExtended.from_knx reports {consumed} body bytes consumed and the "
        f"returned body has calculated_length()={frame.body.calculated_length()} "
        f"(re-serialised: {frame.to_knx().hex()}, {len(frame.to_knx())} bytes with a header "
        f"still saying {frame.header.total_length}). The property requires a returned frame to "
        "have consumed exactly the length announced in its header, else a KNX/IP parse error."
    )


def test_srp_longer_than_its_type_is_under_read() -> None:
    """SRP 08 81 + 6 payload bytes: ONE SRP of length 8 is announced."""
    raw = bytes.fromhex("0610 020b 0016" + HPAI + "08 81 0281 0281 0281")
    try:
        frame, _ = KNXIPFrame.from_knx(raw)
    except CouldNotParseKNXIP:
        return  # declared error: fine
    srps = frame.body.srps
    assert len(srps) == 1 and len(bytes(srps[0])) == 8, (
        f"the body holds exactly one SRP structure of announced length 8 (08 81 ..), but the "
        f"parser advanced by {len(srps[0])} and returned {len(srps)} SRPs "
        f"{[bytes(s).hex() for s in srps]} - the 6 payload bytes of the first SRP were "
        "re-interpreted as three further SRPs. The property requires structures to be consumed "
        "by their announced length or a KNX/IP parse error."
    )


def test_srp_structure_length_below_header_size() -> None:
    """SRP 00 81 / 01 81: announced structure length 0 or 1 is smaller than the SRP header."""
    for srp in ("00 81", "01 81"):
        raw = bytes.fromhex("0610 020b 0010" + HPAI + srp)
        try:
            frame, _ = KNXIPFrame.from_knx(raw)
        except CouldNotParseKNXIP:  # expected
            continue
        raise AssertionError(
            f"SRP '{srp}' announces a structure length smaller than its own 2 byte header; "
            f"the parser consumed 2 bytes anyway and returned {bytes(frame.body.srps[0]).hex()}. "
            "The property requires a KNX/IP parse error for inconsistent SRP lengths."
        )
