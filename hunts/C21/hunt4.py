"""C21 hunt 4 (minor, same family as the known padded-feature-value finding).

A generic DIB whose information block has an odd number of octets is padded with
00h on the wire (the KNX spec demands an even structure length). The padding octet
is counted in the structure length, from_knx() hands it back as data, so the body
parsed from the frame is not the body that was serialized.
"""

import pytest

from xknx.knxip import (
    HPAI,
    DIBGeneric,
    DIBTypeCode,
    KNXIPFrame,
    SearchResponseExtended,
)


@pytest.mark.parametrize(
    "dtc", [DIBTypeCode.MFR_DATA, DIBTypeCode.ADDITIONAL_DEVICE_INFO]
)
def test_generic_dib_with_odd_information_block(dtc) -> None:
    dib = DIBGeneric()
    dib.dtc = dtc
    dib.data = bytes.fromhex("00c5 01")  # manufacturer id + one octet
    body = SearchResponseExtended(control_endpoint=HPAI("192.168.42.10", 3671))
    body.dibs.append(dib)
    frame = KNXIPFrame.init_from_body(body)
    raw = frame.to_knx()
    assert len(raw) == frame.header.total_length
    parsed, rest = KNXIPFrame.from_knx(raw)
    assert rest == b""
    parsed_dib = parsed.body.dibs[0]
    assert isinstance(parsed_dib, DIBGeneric) and parsed_dib.dtc == dib.dtc
    assert parsed_dib.data == dib.data, (
        f"observed: DIBGeneric data {dib.data.hex()} comes back as "
        f"{parsed_dib.data.hex()} (padding octet returned as data); "
        "C21 requires the parsed body to equal the serialized one"
    )
