"""C21 hunt 3: from_knx() of list-carrying bodies accumulates instead of replacing.

Property C21: parsing the frame a body serialized to yields an EQUAL body.
All other bodies overwrite every field in from_knx(); SearchResponse(Extended),
DescriptionResponse, SearchRequestExtended and the service-family DIBs append to
their list, so parsing into an instance that already holds data (e.g. the one
that produced the frame, or an instance reused for a second datagram) duplicates it.
"""

import pytest

from xknx.knxip import (
    HPAI,
    DescriptionResponse,
    KNXIPFrame,
    SearchRequestExtended,
    SearchResponse,
    SearchResponseExtended,
)
from xknx.knxip.dib import DIBSuppSVCFamilies
from xknx.knxip.knxip_enum import DIBServiceFamily
from xknx.knxip.srp import SRP


def _families() -> DIBSuppSVCFamilies:
    dib = DIBSuppSVCFamilies()
    dib.families.append(DIBSuppSVCFamilies.Family(DIBServiceFamily.CORE, 2))
    dib.families.append(DIBSuppSVCFamilies.Family(DIBServiceFamily.TUNNELING, 2))
    return dib


def _search_response(cls):  # type: ignore[no-untyped-def]
    body = cls(control_endpoint=HPAI("192.168.1.2", 3671))
    body.dibs.append(_families())
    return body


def _description_response() -> DescriptionResponse:
    body = DescriptionResponse()
    body.dibs.append(_families())
    return body


@pytest.mark.parametrize(
    "make_body",
    [
        lambda: _search_response(SearchResponse),
        lambda: _search_response(SearchResponseExtended),
        _description_response,
        lambda: SearchRequestExtended(
            discovery_endpoint=HPAI("192.168.1.2", 3671),
            srps=[SRP.with_programming_mode()],
        ),
        _families,
    ],
    ids=[
        "SearchResponse",
        "SearchResponseExtended",
        "DescriptionResponse",
        "SearchRequestExtended",
        "DIBSuppSVCFamilies",
    ],
)
def test_parse_twice_into_same_instance(make_body) -> None:  # type: ignore[no-untyped-def]
    """Parsing the same bytes a second time must yield the same body, not a longer one."""
    reference = make_body()
    raw_body = reference.to_knx()
    assert len(raw_body) == reference.calculated_length()

    target = type(reference)()
    assert target.from_knx(raw_body) == len(raw_body)
    assert target == reference
    # second datagram parsed with the same body object (repeat-use history)
    assert target.from_knx(raw_body) == len(raw_body)
    assert target == reference, (
        f"{type(reference).__name__}.from_knx() called twice with the same "
        f"{len(raw_body)} octets yields a body that now serializes to "
        f"{len(target.to_knx())} octets (calculated_length()={target.calculated_length()}); "
        "C21 requires parsing a frame to yield a body equal to the one serialized"
    )
