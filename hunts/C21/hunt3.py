"""C21 hunt 3: DIBDeviceInformation announces 54 octets but may write fewer.

Property: every body serializes to exactly its announced length inside a frame
whose header length is correct; parsing that frame yields an equal body.

DIBDeviceInformation.calculated_length() is the constant 54 and to_knx() writes 54
into the structure-length octet, but the serial number and MAC address are emitted
with whatever length their hex strings have. The class' own defaults ("" and "")
give a 42 octet structure - every frame built from a default DIBDeviceInformation
has a wrong header length and can not be parsed.
"""

import pytest

from xknx.knxip import (
    HPAI,
    DescriptionResponse,
    DIBDeviceInformation,
    KNXIPFrame,
    SearchResponse,
    SearchResponseExtended,
)


def test_default_device_information_has_its_announced_length() -> None:
    dib = DIBDeviceInformation()
    raw = dib.to_knx()
    assert len(raw) == dib.calculated_length() == raw[0], (
        f"observed: DIBDeviceInformation() announces {dib.calculated_length()} octets "
        f"(structure length octet {raw[0]}) but to_knx() wrote {len(raw)}; "
        "C21 requires the serialization to have exactly the announced length"
    )


@pytest.mark.parametrize(
    "body_cls", [SearchResponse, SearchResponseExtended, DescriptionResponse]
)
def test_frame_with_default_device_information_round_trips(body_cls) -> None:
    body = (
        body_cls()
        if body_cls is DescriptionResponse
        else body_cls(control_endpoint=HPAI("192.168.42.10", 3671))
    )
    dib = DIBDeviceInformation()
    dib.name = "router"  # serial_number / mac_address left at the class defaults
    body.dibs.append(dib)
    frame = KNXIPFrame.init_from_body(body)
    raw = frame.to_knx()
    assert len(raw) == frame.header.total_length, (
        f"observed: header of the {body_cls.__name__} frame announces "
        f"{frame.header.total_length} octets, the frame has {len(raw)}; "
        "C21 requires a correct header length"
    )
    parsed, rest = KNXIPFrame.from_knx(raw)
    assert rest == b""
    assert parsed.body.dibs[0].__dict__ == dib.__dict__
