"""C21 hunt 1: a ConnectResponse with an error status does not round-trip.

Property: every KNX/IP body with spec-legal field values serializes to its
announced length, and parsing that frame yields an EQUAL body.

ConnectResponse.from_knx() throws HPAI and CRD away whenever status != E_NO_ERROR,
while ConnectResponse.to_knx()/calculated_length() always write them.
"""

import pytest

from xknx.knxip import (
    HPAI,
    ConnectRequestType,
    ConnectResponse,
    ConnectResponseData,
    ErrorCode,
    KNXIPFrame,
)
from xknx.telegram import IndividualAddress

ERRORS = [code for code in ErrorCode if code is not ErrorCode.E_NO_ERROR]

# complete, well-formed CONNECT_RESPONSE as sent by a Gira device
# (taken from test/knxip_tests/connect_response_test.py)
GIRA_RAW = bytes.fromhex("06 10 02 06 00 14 C0 24 08 01 0A 01 00 29 0E 57 04 04 00 00")


@pytest.mark.parametrize("status", ERRORS, ids=lambda c: c.name)
def test_error_connect_response_body_round_trips(status: ErrorCode) -> None:
    body = ConnectResponse(
        communication_channel=192,
        status_code=status,
        data_endpoint=HPAI(ip_addr="10.1.0.41", port=3671),
        crd=ConnectResponseData(
            request_type=ConnectRequestType.TUNNEL_CONNECTION,
            individual_address=IndividualAddress("1.1.5"),
        ),
    )
    frame = KNXIPFrame.init_from_body(body)
    raw = frame.to_knx()
    assert len(raw) == frame.header.total_length
    parsed, rest = KNXIPFrame.from_knx(raw)
    assert rest == b""
    assert parsed.body == body, (
        f"observed: parsing the {len(raw)}-byte frame of {body} yields {parsed.body} "
        "(data endpoint and CRD that are on the wire were dropped); "
        "C21 requires the parsed body to equal the serialized one"
    )


def test_wire_frame_with_error_status_can_be_serialized_again() -> None:
    parsed, rest = KNXIPFrame.from_knx(GIRA_RAW)
    assert rest == b""
    try:
        again = KNXIPFrame.init_from_body(parsed.body).to_knx()
    except AssertionError as err:  # raised by ConnectResponseData.to_knx()
        pytest.fail(
            "observed: the body parsed from a well-formed CONNECT_RESPONSE "
            f"(status {parsed.body.status_code.name}) can not be serialized: "
            f"AssertionError {err!r} in ConnectResponseData.to_knx(); "
            "C21 requires body <-> frame to round-trip exactly"
        )
    assert again == GIRA_RAW, (
        f"observed: re-serialized frame {again.hex()} differs from the parsed one "
        f"{GIRA_RAW.hex()}; C21 requires an exact round trip"
    )


@pytest.mark.parametrize("status", ERRORS, ids=lambda c: c.name)
def test_plain_error_connect_response_serializes(status: ErrorCode) -> None:
    """ConnectResponse(status_code=<error>) - the very body from_knx() produces."""
    body = ConnectResponse(communication_channel=0, status_code=status)
    frame = KNXIPFrame.init_from_body(body)
    try:
        raw = frame.to_knx()
    except AssertionError as err:
        pytest.fail(
            f"observed: {body} announces {frame.header.total_length} bytes but "
            f"to_knx() raises AssertionError {err!r}; C21 requires it to serialize "
            "to exactly its announced length"
        )
    assert len(raw) == frame.header.total_length
    parsed, rest = KNXIPFrame.from_knx(raw)
    assert rest == b"" and parsed.body == body
