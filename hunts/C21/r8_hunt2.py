"""C21 hunt 2: odd-length payloads are padded on to_knx() but the padding is never removed / canonicalised.

Property C21: parsing the frame a body serialized to yields an EQUAL body.
Three of the eight tunnelling interface features carry a 1 octet value
(BUS_CONNECTION_STATUS, ACTIVE_EMI_TYPE, INTERFACE_FEATURE_INFO_ENABLE).
"""

import pytest

from xknx.knxip import (
    DescriptionResponse,
    KNXIPFrame,
    TunnellingFeatureInfo,
    TunnellingFeatureResponse,
    TunnellingFeatureSet,
)
from xknx.knxip.dib import DIBGeneric
from xknx.knxip.knxip_enum import DIBTypeCode, TunnellingFeatureType


@pytest.mark.parametrize(
    "body",
    [
        TunnellingFeatureSet(
            communication_channel_id=1,
            sequence_counter=23,
            feature_type=TunnellingFeatureType.INTERFACE_FEATURE_INFO_ENABLE,
            data=b"\x01",
        ),
        TunnellingFeatureInfo(
            communication_channel_id=1,
            sequence_counter=23,
            feature_type=TunnellingFeatureType.BUS_CONNECTION_STATUS,
            data=b"\x01",
        ),
        TunnellingFeatureResponse(
            communication_channel_id=1,
            sequence_counter=23,
            feature_type=TunnellingFeatureType.ACTIVE_EMI_TYPE,
            data=b"\x03",
        ),
    ],
    ids=lambda body: type(body).__name__,
)
def test_one_octet_feature_value_round_trip(body) -> None:  # type: ignore[no-untyped-def]
    """A 1 octet feature value must survive serialize -> parse."""
    frame = KNXIPFrame.init_from_body(body)
    raw = frame.to_knx()
    assert len(raw) == frame.header.total_length == 6 + body.calculated_length()
    parsed, rest = KNXIPFrame.from_knx(raw)
    assert rest == b""
    assert parsed.body == body, (
        f"{type(body).__name__} with 1 octet feature value data={body.data.hex()} was "
        f"serialized to {raw.hex()}; parsing that frame yielded data="
        f"{parsed.body.data.hex()} - C21 requires parsing to yield an equal body"
    )


def test_generic_dib_odd_data_round_trip() -> None:
    """Same pattern in DIBGeneric: padding octet becomes part of the data."""
    dib = DIBGeneric()
    dib.dtc = DIBTypeCode.MFR_DATA
    dib.data = b"\x01\x02\x03"
    body = DescriptionResponse()
    body.dibs.append(dib)
    frame = KNXIPFrame.init_from_body(body)
    raw = frame.to_knx()
    assert len(raw) == frame.header.total_length == 6 + body.calculated_length()
    parsed, rest = KNXIPFrame.from_knx(raw)
    assert rest == b""
    assert parsed.body == body, (
        f"DIBGeneric data={dib.data.hex()} serialized to {raw.hex()}; parsing yielded "
        f"data={parsed.body.dibs[0].data.hex()} - C21 requires an equal body"
    )
