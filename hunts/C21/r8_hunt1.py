"""C21 hunt 1: ConnectResponse with an error status code does not round-trip.

Property C21: every KNX/IP body with spec-legal field values (status codes drawn
from ErrorCode) serializes to its announced length and parsing the frame yields
an EQUAL body.
"""

import pytest

from xknx.knxip import HPAI, ConnectResponse, ConnectResponseData, KNXIPFrame
from xknx.knxip.error_code import ErrorCode
from xknx.knxip.knxip_enum import ConnectRequestType
from xknx.telegram import IndividualAddress

ERROR_CODES = [code for code in ErrorCode if code is not ErrorCode.E_NO_ERROR]


@pytest.mark.parametrize("status_code", ERROR_CODES)
def test_error_connect_response_with_default_crd_serializes(
    status_code: ErrorCode,
) -> None:
    """A refused connection has no assigned address - the body must still serialize."""
    body = ConnectResponse(communication_channel=0, status_code=status_code)
    frame = KNXIPFrame.init_from_body(body)
    announced = frame.header.total_length
    try:
        raw = frame.to_knx()
    except AssertionError as err:
        pytest.fail(
            f"ConnectResponse(status_code={status_code.name}) announces total_length="
            f"{announced} (calculated_length()={body.calculated_length()}) but to_knx() "
            f"raised AssertionError({err!s}) - C21 requires every body with a status code "
            "from ErrorCode to serialize to exactly its announced length"
        )
    assert len(raw) == announced


@pytest.mark.parametrize("status_code", ERROR_CODES)
def test_error_connect_response_round_trip(status_code: ErrorCode) -> None:
    """HPAI and CRD that were put on the wire must come back when parsing."""
    body = ConnectResponse(
        communication_channel=0,
        status_code=status_code,
        data_endpoint=HPAI(ip_addr="192.168.1.2", port=3671),
        crd=ConnectResponseData(
            request_type=ConnectRequestType.TUNNEL_CONNECTION,
            individual_address=IndividualAddress("1.1.5"),
        ),
    )
    frame = KNXIPFrame.init_from_body(body)
    raw = frame.to_knx()
    assert len(raw) == frame.header.total_length == 6 + body.calculated_length()

    parsed, rest = KNXIPFrame.from_knx(raw)
    assert rest == b""
    assert parsed.body == body, (
        f"round trip of ConnectResponse with status {status_code.name} lost data: "
        f"serialized {body!r} to {raw.hex()} but parsing that frame yielded "
        f"{parsed.body!r} - C21 requires parsing to yield an equal body"
    )
