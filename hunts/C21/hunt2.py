"""C21 hunt 2: bodies carrying DIBs never compare equal after a round trip.

Property: parsing the frame of a body yields an EQUAL body.

KNXIPBody.__eq__ compares __dict__; SearchResponse / SearchResponseExtended /
DescriptionResponse keep their DIBs in a list, but no DIB class defines __eq__
(only the nested Family does), so the list comparison falls back to identity.
"""

import pytest

from xknx.knxip import (
    HPAI,
    DescriptionResponse,
    DIBDeviceInformation,
    DIBGeneric,
    DIBSecuredServiceFamilies,
    DIBServiceFamily,
    DIBSuppSVCFamilies,
    DIBTypeCode,
    KNXIPFrame,
    SearchResponse,
    SearchResponseExtended,
)
from xknx.knxip.dib import DIBTunnelingInfo, TunnelingSlotStatus
from xknx.telegram import IndividualAddress


def _device_info() -> DIBDeviceInformation:
    dib = DIBDeviceInformation()
    dib.name = "Gira KNX/IP-Router"
    dib.serial_number = "11:22:33:44:55:66"
    dib.mac_address = "01:02:03:04:05:06"
    dib.individual_address = IndividualAddress("1.1.0")
    return dib


def _families(cls):
    dib = cls()
    dib.families.append(cls.Family(name=DIBServiceFamily.CORE, version=1))
    dib.families.append(cls.Family(name=DIBServiceFamily.TUNNELING, version=2))
    return dib


def _tunneling_info() -> DIBTunnelingInfo:
    return DIBTunnelingInfo(
        {IndividualAddress("1.1.7"): TunnelingSlotStatus(True, True, False)}
    )


def _generic() -> DIBGeneric:
    dib = DIBGeneric()
    dib.dtc = DIBTypeCode.MFR_DATA
    dib.data = bytes.fromhex("00c5 0102")
    return dib


DIB_FACTORIES = {
    "device_info": _device_info,
    "supp_svc_families": lambda: _families(DIBSuppSVCFamilies),
    "secured_families": lambda: _families(DIBSecuredServiceFamilies),
    "tunneling_info": _tunneling_info,
    "generic": _generic,
}


def _body(cls):
    if cls is DescriptionResponse:
        return cls()
    return cls(control_endpoint=HPAI("192.168.42.10", 3671))


@pytest.mark.parametrize(
    "body_cls", [SearchResponse, SearchResponseExtended, DescriptionResponse]
)
@pytest.mark.parametrize("dib_name", list(DIB_FACTORIES))
def test_body_with_dib_round_trips_to_equal_body(body_cls, dib_name) -> None:
    body = _body(body_cls)
    body.dibs.append(DIB_FACTORIES[dib_name]())
    frame = KNXIPFrame.init_from_body(body)
    raw = frame.to_knx()
    assert len(raw) == frame.header.total_length
    parsed, rest = KNXIPFrame.from_knx(raw)
    assert rest == b""
    # what went over the wire is identical ...
    assert KNXIPFrame.init_from_body(parsed.body).to_knx() == raw
    # ... and every field of the DIB is identical ...
    assert type(parsed.body.dibs[0]) is type(body.dibs[0])
    assert parsed.body.dibs[0].__dict__ == body.dibs[0].__dict__
    # ... yet the bodies are not equal
    assert parsed.body == body, (
        f"observed: {body_cls.__name__} carrying one {dib_name} DIB != the body parsed "
        "from its own frame although all fields and the bytes are identical "
        "(DIB classes have no __eq__, list compare falls back to identity); "
        "C21 requires parsing to yield an equal body"
    )


def test_same_bytes_parse_to_equal_frames() -> None:
    body = SearchResponse(control_endpoint=HPAI("192.168.42.10", 3671))
    body.dibs.append(_device_info())
    body.dibs.append(_families(DIBSuppSVCFamilies))
    raw = KNXIPFrame.init_from_body(body).to_knx()
    first, _ = KNXIPFrame.from_knx(raw)
    second, _ = KNXIPFrame.from_knx(raw)
    assert first == second, (
        "observed: two KNXIPFrames parsed from the very same bytes compare unequal; "
        "C21 requires parse(serialize(body)) == body"
    )
