"""
C07 hunt 1: a raw payload with a non-integer octet is accepted by DPTArray, queued by the
public raw-write API and then kills the telegram consumer when the eager DPT decoding of
the configured group address raises a bare TypeError.

Property C07: decoding a group telegram payload returns a value or fails with
CouldNotParseTelegram / ConversionError; no other exception escapes - this is what keeps
the telegram consumer alive, since it decodes configured group addresses before its own
error handling.

Run: /venv/bin/python -m pytest -q -p no:cacheprovider hunt1.py
"""

from __future__ import annotations

import asyncio
from unittest.mock import AsyncMock, Mock, patch

from xknx import XKNX
from xknx.dpt import DPTArray, DPTBase, DPTTemperature
from xknx.exceptions import ConversionError, CouldNotParseTelegram
from xknx.telegram import GroupAddress, Telegram, TelegramDirection, apci
from xknx.tools import group_value_write

# what a caller (script, MCP agent, automation) passes when it mistakes the raw
# payload list for a list of values: two "octets", the first one not an integer
RAW_VALUE = [12.5, 26]


def _xknx_no_interface() -> XKNX:
    interface = Mock()
    interface.start = AsyncMock()
    interface.stop = AsyncMock()
    interface.send_cemi = AsyncMock()
    with patch("xknx.xknx.knx_interface_factory", return_value=interface):
        return XKNX()


def test_decoding_an_accepted_payload_fails_with_declared_errors_only() -> None:
    """Every payload object the library lets exist decodes or fails with a declared error."""
    try:
        payload = DPTArray(tuple(RAW_VALUE))
    except (ConversionError, TypeError):
        return  # refused at construction - nothing to decode; fine
    undeclared: dict[str, str] = {}
    for transcoder in DPTBase.dpt_class_tree():
        if transcoder.payload_type is not DPTArray or transcoder.payload_length != 2:
            continue
        try:
            transcoder.from_knx(payload)
        except (ConversionError, CouldNotParseTelegram):
            pass
        except Exception as err:  # pylint: disable=broad-except
            undeclared[transcoder.__name__] = repr(err)
    assert not undeclared, (
        f"DPTArray accepted {RAW_VALUE!r} as payload, but decoding it raised an undeclared "
        f"exception in {len(undeclared)} 2-octet DPT classes, e.g. "
        f"{next(iter(undeclared.items()))}. C07 requires from_knx to return a value or raise "
        "CouldNotParseTelegram / ConversionError - nothing else."
    )


def test_raw_write_does_not_kill_the_telegram_consumer() -> None:
    """The consumer decodes configured group addresses outside its error handling."""

    async def scenario() -> tuple[bool, BaseException | None, list[Telegram]]:
        xknx = _xknx_no_interface()
        xknx.group_address_dpt.set({"1/2/3": "9.001"})  # e.g. from an ETS project
        received: list[Telegram] = []
        xknx.telegram_queue.register_telegram_received_cb(
            lambda telegram: received.append(telegram)
        )
        await xknx.telegram_queue.start()
        consumer = xknx.telegram_queue._consumer_task
        assert isinstance(consumer, asyncio.Future)

        try:
            # public API, no value_type -> raw payload; returns normally, telegram queued
            group_value_write(xknx, "1/2/3", RAW_VALUE)
        except ConversionError:
            pass  # refused before queueing would be fine too
        await asyncio.sleep(0.05)

        # an ordinary 21.0 degC telegram from the bus afterwards
        xknx.telegrams.put_nowait(
            Telegram(
                destination_address=GroupAddress("1/2/3"),
                direction=TelegramDirection.INCOMING,
                payload=apci.GroupValueWrite(DPTTemperature.to_knx(21.0)),
            )
        )
        await asyncio.sleep(0.05)

        died = consumer.done()
        error = consumer.exception() if died and not consumer.cancelled() else None
        incoming = [
            t for t in received if t.direction is TelegramDirection.INCOMING
        ]
        if not died:
            consumer.cancel()
            try:
                await consumer
            except asyncio.CancelledError:
                pass
        return died, error, incoming

    died, error, incoming = asyncio.run(scenario())
    assert not died and len(incoming) == 1, (
        f"after group_value_write(xknx, '1/2/3', {RAW_VALUE!r}) the telegram consumer task "
        f"ended={died} with {error!r}; the following incoming telegram reached "
        f"{len(incoming)} callbacks (expected 1). C07 requires the eager decoding of a "
        "configured group address to fail with CouldNotParseTelegram / ConversionError only, "
        "so that the consumer stays alive."
    )
