"""
C07 hunt 1 - the decoding step in front of the consumer's error handling lets an AssertionError escape.

`TelegramQueue._telegram_consumer()` calls `GroupAddressDPT.set_decoded_data(telegram)` for
every queued telegram *before* its own try/except. `set_decoded_data()` may only end by
returning (value decoded, or parse / conversion error logged). For a telegram that carries a
GroupValueWrite / GroupValueResponse to an IndividualAddress it raises AssertionError instead -
the consumer task ends and no telegram is processed any more.

Every other stage of the same pipeline tolerates such a telegram
(`TelegramQueue.Callback.is_within_filter`, `RemoteValue.process`, `CEMIHandler.send_telegram`).

Run: /venv/bin/python -m pytest -q -p no:cacheprovider hunt1.py
"""

from __future__ import annotations

import asyncio
from unittest.mock import AsyncMock, patch

from xknx import XKNX
from xknx.cemi.cemi_handler import CEMIHandler
from xknx.core.group_address_dpt import GroupAddressDPT
from xknx.dpt import DPTArray, DPTBinary
from xknx.telegram import Telegram, TelegramDirection
from xknx.telegram.address import GroupAddress, IndividualAddress
from xknx.telegram.apci import GroupValueWrite


def _individual_write() -> Telegram:
    return Telegram(
        destination_address=IndividualAddress("1.1.1"),
        payload=GroupValueWrite(DPTBinary(1)),
    )


def test_set_decoded_data_only_returns() -> None:
    """The decoding step itself: nothing but a return is allowed (errors are logged)."""
    ga_dpt = GroupAddressDPT()
    ga_dpt.set({"1/2/3": "temperature"})
    telegram = _individual_write()
    try:
        ga_dpt.set_decoded_data(telegram)
    except Exception as err:  # pylint: disable=broad-except
        raise AssertionError(
            f"set_decoded_data() raised {type(err).__name__!s} for {telegram} - the property "
            "requires that the decoding step in front of the consumer's error handling returns "
            "(decoded value or logged parse / conversion error); no other exception may escape"
        ) from err
    assert telegram.decoded_data is None


def test_consumer_survives_value_telegram_to_individual_address() -> None:
    """The real consumer: one such outgoing telegram ends it; later bus telegrams are lost."""

    async def scenario() -> tuple[bool, list[Telegram], BaseException | None]:
        # mock only the network boundary
        with patch.object(CEMIHandler, "send_telegram", new=AsyncMock()):
            xknx = XKNX()
            xknx.group_address_dpt.set({"1/2/3": "temperature"})
            received: list[Telegram] = []
            xknx.telegram_queue.register_telegram_received_cb(received.append)
            await xknx.telegram_queue.start()

            xknx.telegrams.put_nowait(_individual_write())
            for _ in range(10):
                await asyncio.sleep(0)

            # an ordinary group telegram from the bus afterwards
            xknx.telegrams.put_nowait(
                Telegram(
                    destination_address=GroupAddress("1/2/3"),
                    direction=TelegramDirection.INCOMING,
                    payload=GroupValueWrite(DPTArray((0x0C, 0x1A))),
                )
            )
            for _ in range(10):
                await asyncio.sleep(0)

            consumer = xknx.telegram_queue._consumer_task  # pylint: disable=protected-access
            assert consumer is not None
            done = consumer.done()  # type: ignore[attr-defined]
            error = consumer.exception() if done else None  # type: ignore[attr-defined]
            if not done:
                # regular shutdown; the individually addressed telegram stays unfinished
                # only in the failing case, so don't join the queue here
                await xknx.telegram_queue.stop()
            return done, received, error

    done, received, error = asyncio.run(scenario())
    assert not done, (
        f"the telegram consumer ended with {error!r} after a GroupValueWrite addressed to an "
        "IndividualAddress was queued - the property requires that the decoding step in front "
        "of the consumer's error handling never lets an undeclared exception escape, so that "
        "the consumer stays alive"
    )
    assert len(received) == 1 and received[0].decoded_data is not None, (
        f"the group telegram queued afterwards was not processed/decoded: {received}"
    )
