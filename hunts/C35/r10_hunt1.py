"""
C35 hunt 1: a state telegram received BEFORE a connection loss, but processed after the
reconnection, suppresses the per-reconnection read of an 'expire' tracker.

History (threaded connection mode - everything reaches the main loop through
`loop.call_soon_threadsafe`, so a short stall of the main loop delivers it in one batch):

    connected, initial read answered
    ... later, in ONE main loop iteration:
        incoming GroupValueWrite for the state address (received on the old connection)
        connection state DISCONNECTED
        connection state CONNECTED
    -> the StateUpdater restarts all trackers (one read per reconnection is due), the
       telegram consumer then processes the old telegram, `update_received()` finds
       `started == True` and `_StateTracker.reset()` cancels the not yet started
       `_start_init()` task: no GroupValueRead for this value in the new connection
       for a whole expire interval (60 min by default).

Run: /venv/bin/python -m pytest -q -p no:cacheprovider hunt1.py
"""

from __future__ import annotations

import asyncio
import logging
from unittest.mock import AsyncMock, Mock, patch

import pytest

from xknx import XKNX
from xknx.cemi.cemi_handler import CEMIHandler
from xknx.core import XknxConnectionState
from xknx.devices import Switch
from xknx.dpt import DPTBinary
from xknx.telegram import GroupAddress, Telegram, TelegramDirection
from xknx.telegram.apci import GroupValueRead, GroupValueResponse, GroupValueWrite

logging.disable(logging.CRITICAL)


class Clock:
    """Virtual loop time - jumps from timer to timer."""

    def __init__(self, loop: asyncio.AbstractEventLoop) -> None:
        self.loop = loop
        self.offset = 0.0
        self._base = loop.time
        self.t0 = self._base()
        loop.time = self.time  # type: ignore[method-assign]

    def time(self) -> float:
        return self._base() + self.offset

    def now(self) -> float:
        return round(self.time() - self.t0, 3)

    async def settle(self) -> None:
        for _ in range(5):
            await asyncio.sleep(0)
        while self.loop._ready:  # type: ignore[attr-defined]
            await asyncio.sleep(0)

    async def advance(self, seconds: float) -> None:
        target = self.time() + seconds
        await self.settle()
        while True:
            timers = [h for h in self.loop._scheduled if not h._cancelled]  # type: ignore[attr-defined]
            if not timers:
                break
            nxt = min(h._when for h in timers)
            if nxt > target:
                break
            delta = nxt - self.time()
            if delta > 0:
                self.offset += delta + 1e-6
            await self.settle()
        delta = target - self.time()
        if delta > 0:
            self.offset += delta
        await self.settle()


def make_xknx() -> XKNX:
    def knx_ip_interface_mock() -> Mock:
        mock = Mock()
        mock.start = AsyncMock()
        mock.stop = AsyncMock()
        mock.send_cemi = AsyncMock()
        return mock

    with patch("xknx.xknx.knx_interface_factory", return_value=knx_ip_interface_mock()):
        return XKNX()


async def scenario(stale_telegram: bool) -> tuple[list[tuple[float, str]], float]:
    """Return the GroupValueReads issued after the reconnection and its time."""
    loop = asyncio.get_running_loop()
    clock = Clock(loop)
    xknx = make_xknx()
    xknx.rate_limit = 0
    reads: list[tuple[float, str]] = []

    async def send_telegram(self: CEMIHandler, telegram: Telegram) -> None:
        """Network boundary: record reads, the bus answers each read at once."""
        if isinstance(telegram.payload, GroupValueRead):
            reads.append((clock.now(), str(telegram.destination_address)))
            xknx.cemi_handler.telegram_received(
                Telegram(
                    destination_address=telegram.destination_address,
                    direction=TelegramDirection.INCOMING,
                    payload=GroupValueResponse(DPTBinary(1)),
                )
            )

    with patch.object(CEMIHandler, "send_telegram", new=send_telegram):
        # threaded mode: connection state changes are handed over to the main loop
        await xknx.connection_manager.register_loop()
        await xknx.telegram_queue.start()
        xknx.state_updater.start()
        switch = Switch(
            xknx, "sw", group_address_state="1/1/0", sync_state="expire 60"
        )
        xknx.devices.async_add(switch)

        xknx.connection_manager.connection_state_changed(XknxConnectionState.CONNECTED)
        await clock.advance(1)
        assert reads == [(reads[0][0], "1/1/0")], f"setup: initial read expected, got {reads}"
        assert switch.state is True

        await clock.advance(600)  # 10 minutes into the first connection
        assert len(reads) == 1

        # ---- one batch of thread-safe handovers, as after a short main loop stall ----
        if stale_telegram:
            loop.call_soon_threadsafe(
                xknx.cemi_handler.telegram_received,
                Telegram(
                    destination_address=GroupAddress("1/1/0"),
                    direction=TelegramDirection.INCOMING,
                    payload=GroupValueWrite(DPTBinary(0)),
                ),
            )
        xknx.connection_manager.connection_state_changed(
            XknxConnectionState.DISCONNECTED
        )
        xknx.connection_manager.connection_state_changed(XknxConnectionState.CONNECTED)
        t_reconnect = clock.now()
        # -------------------------------------------------------------------------------
        await clock.advance(59 * 60)  # nearly a whole expire interval
        assert xknx.state_updater.started
        after = [r for r in reads if r[0] >= t_reconnect]

        xknx.state_updater.stop()
        await xknx.telegram_queue.stop()
    return after, t_reconnect


async def test_control_reconnect_reads_again() -> None:
    """Without the old telegram the reconnection reads the value - as the property says."""
    after, t_reconnect = await scenario(stale_telegram=False)
    assert [ga for _, ga in after] == ["1/1/0"], after
    assert after[0][0] - t_reconnect < 1


async def test_stale_telegram_suppresses_read_of_reconnection() -> None:
    """A telegram of the OLD connection must not stand in for the read of the new one."""
    after, t_reconnect = await scenario(stale_telegram=True)
    assert after, (
        f"OBSERVED: no GroupValueRead for 1/1/0 within 59 min after the reconnection at "
        f"t={t_reconnect}s (reads after reconnection: {after}); the only 'state update' "
        "was a telegram received before the connection was lost. "
        "REQUIRED (C35): while connected, each registered remote value with a state "
        "address is read once per (re)connection - telegrams missed during the outage "
        "stay unnoticed for a whole expire interval otherwise."
    )


if __name__ == "__main__":
    raise SystemExit(pytest.main(["-q", "-p", "no:cacheprovider", __file__]))
