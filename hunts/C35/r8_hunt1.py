"""C35 hunt 1: more than two reads in progress after a quick disconnect/reconnect.

History (virtual time, 4 'expire' trackers, nobody answers the reads):
  t=0.0  connect            -> reads for 1/0/1 and 1/0/2 are sent (semaphore = 2)
  t=0.5  disconnect         -> trackers cancelled, semaphore released,
                               but the shielded ValueReaders keep waiting (2 s timeout)
  t=1.0  connect            -> two further reads are sent
=> 4 GroupValueReads are awaiting their answer at the same time.
"""

from hunt_harness import Env


async def test_reconnect_exceeds_two_parallel_reads() -> None:
    env = Env()
    await env.start()
    for i in range(1, 5):
        env.switch(f"s{i}", f"1/0/{i}", "expire 60")

    env.connect()
    await env.clock.advance(0.5)
    assert len(env.reads_in_progress()) == 2  # sanity: limit honoured so far
    env.disconnect()
    await env.clock.advance(0.5)
    env.connect()
    await env.clock.advance(0.1)

    in_progress = env.reads_in_progress()
    sent = [r[0] for r in env.reads]
    await env.stop()
    assert len(in_progress) <= 2, (
        f"observed {len(in_progress)} GroupValueReads in progress at once {in_progress} "
        f"(reads sent so far: {sent}); the property requires at most two reads in "
        "progress at once - the semaphore is released on cancellation while the "
        "shielded ValueReader keeps running"
    )


async def test_write_on_command_address_exceeds_two_parallel_reads() -> None:
    """Same clause, no reconnect needed: a GroupValueWrite on the (non-state) command
    address of a value whose state read is in flight resets its 'expire' tracker;
    the cancelled tracker releases the semaphore while its ValueReader still waits."""
    env = Env()
    await env.start()
    env.switch("s1", "1/0/1", "expire 60", ga="1/1/1")
    env.switch("s2", "1/0/2", "expire 60", ga="1/1/2")
    env.switch("s3", "1/0/3", "expire 60")
    env.switch("s4", "1/0/4", "expire 60")

    env.connect()
    await env.clock.advance(0.5)
    assert sorted(env.reads_in_progress()) == ["1/0/1", "1/0/2"]
    # somebody switches s1 and s2 while their state is being read
    from hunt_harness import WRITE_ON

    env.incoming("1/1/1", WRITE_ON)
    env.incoming("1/1/2", WRITE_ON)
    await env.clock.advance(0.1)

    in_progress = env.reads_in_progress()
    await env.stop()
    assert len(in_progress) <= 2, (
        f"observed {len(in_progress)} GroupValueReads in progress at once {in_progress}; "
        "the property requires at most two reads in progress at once"
    )
