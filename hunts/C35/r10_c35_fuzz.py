import asyncio, random, sys, logging
from c35_explore import *
logging.disable(logging.CRITICAL)

async def run(seed):
    rnd = random.Random(seed)
    loop = asyncio.get_running_loop()
    clock = Clock(loop)
    xknx = make_xknx()
    xknx.rate_limit = 0
    w = World(xknx, clock)
    await xknx.telegram_queue.start()
    xknx.state_updater.start()
    n = rnd.randint(1, 6)
    kinds = [rnd.choice(["expire 1", "expire 2", "every 1", "every 2", "init"]) for _ in range(n)]
    sws = [Switch(xknx, f"sw{i}", group_address=f"1/0/{i}", group_address_state=f"1/1/{i}", sync_state=kinds[i]) for i in range(n)]
    registered = [False]*n
    connected = False
    epoch = 0
    reg_epoch = [0]*n   # bumps on register and connect
    last_update = [None]*n
    log = []
    viol = []
    seen = 0
    answer = rnd.random() < 0.6
    pending_answers = []

    def check_new_reads():
        nonlocal seen, answer
        while seen < len(w.reads):
            t, ga = w.reads[seen]; seen += 1
            i = int(ga.split("/")[2])
            if not connected: viol.append((seed, "read while disconnected", t, ga))
            if not registered[i]: viol.append((seed, "read unregistered", t, ga))
            key = reg_epoch[i]
            hist = [r for r in per[i] if r[1] == key]
            kind = kinds[i]
            interval = 0 if kind == "init" else int(kind.split()[1])*60
            if hist:
                if kind == "init": viol.append((seed, "init read twice", t, ga, hist))
                else:
                    if t - hist[-1][0] < interval - 0.01: viol.append((seed, "too early after read", kind, t, ga, hist))
                    if kind.startswith("expire") and last_update[i] is not None and last_update[i][1] == key and t - last_update[i][0] < interval - 0.01:
                        viol.append((seed, "expire read too early after update", kind, t, ga, last_update[i]))
            per[i].append((t, key))
            if answer and rnd.random() < 0.8:
                pending_answers.append((i, rnd.choice([0, 0, 0.5, 1.9, 2.0, 2.5])))
        inprog = sum(1 for cb in xknx.telegram_queue.telegram_received_cbs)
        if inprog > 2: viol.append((seed, "more than 2 in progress", clock.now(), inprog))
    per = [[] for _ in range(n)]

    async def step(dt):
        # advance in small pieces to check invariants
        end = clock.now() + dt
        while clock.now() < end - 1e-9:
            d = min(rnd.choice([0.5, 1.0, 2.0, 7.0, 30.0]), end - clock.now())
            await clock.advance(d)
            check_new_reads()
            for (i, delay) in list(pending_answers):
                pending_answers.remove((i, delay))
                if connected:
                    w.incoming(f"1/1/{i}")
                    await clock.settle()
                    if registered[i] and connected: last_update[i] = (clock.now(), reg_epoch[i])
                    check_new_reads()

    for _ in range(rnd.randint(5, 40)):
        op = rnd.choice(["connect", "disconnect", "tele", "tele", "reg", "unreg", "adv", "adv", "adv", "flap"])
        if op == "connect":
            if not connected:
                connected = True
                for i in range(n): reg_epoch[i] += 1
            w.connect()
        elif op == "disconnect":
            connected = False
            w.disconnect()
        elif op == "flap":
            w.disconnect(); w.connect()
            connected = True
            for i in range(n): reg_epoch[i] += 1
        elif op == "tele":
            i = rnd.randrange(n)
            if registered[i] or rnd.random() < .3:
                w.incoming(f"1/1/{i}", response=False)
                await clock.settle()
                if connected and registered[i]: last_update[i] = (clock.now(), reg_epoch[i])
        elif op == "reg":
            i = rnd.randrange(n)
            if not registered[i]:
                xknx.devices.async_add(sws[i]); registered[i] = True; reg_epoch[i] += 1
        elif op == "unreg":
            i = rnd.randrange(n)
            if registered[i]:
                xknx.devices.async_remove(sws[i]); registered[i] = False
        elif op == "adv":
            await step(rnd.choice([0, 0.001, 1, 2, 58, 60, 61, 62, 120, 122, 200]))
        log.append((clock.now(), op))
        if rnd.random() < .5:
            await clock.settle()
        check_new_reads()
    await step(130)
    # liveness epilogue
    answer = False
    pending_answers.clear()
    for i in range(n):
        if not registered[i]:
            xknx.devices.async_add(sws[i]); registered[i] = True; reg_epoch[i] += 1
    if not connected:
        connected = True
        for i in range(n): reg_epoch[i] += 1
        w.connect()
    mark = len(w.reads)
    tmark = clock.now()
    await step(400)
    for i in range(n):
        rs = [t for (t, ga) in w.reads[mark:] if ga == f"1/1/{i}"]
        kind = kinds[i]
        allr = [r for r in per[i] if r[1] == reg_epoch[i]]
        if kind == "init":
            if len(allr) != 1: viol.append((seed, "init liveness", i, allr))
        else:
            interval = int(kind.split()[1]) * 60
            need = int(380 // (interval + 2 + 2*n))
            if len(rs) < need: viol.append((seed, "liveness", kind, i, rs, need, tmark))
    xknx.state_updater.stop()
    await xknx.telegram_queue.stop()
    return viol, log

async def main():
    a, b = int(sys.argv[1]), int(sys.argv[2])
    for seed in range(a, b):
        viol, log = await run(seed)
        if viol:
            print("SEED", seed, viol[:3])
            print(log)
            break
    else:
        print("no violations")
asyncio.run(main())
