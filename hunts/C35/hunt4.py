"""
C35 hunt 4 - an 'expire' value that receives a telegram before its turn is not read.

_StateTracker.update_received() -> reset() cancels whatever task the tracker is
running - also the `_start_init()` task that has not issued its initial read yet
because it still waits for the semaphore / the outgoing queue.  The value is then
not read at all for this connection (only after the expire interval).

Run:  cd /tmp/hunt_C35 && /venv/bin/python -m pytest -q -p no:cacheprovider hunt4.py
"""


from __future__ import annotations

import asyncio
import logging
from unittest.mock import AsyncMock, Mock, patch

from xknx import XKNX
from xknx.cemi import CEMIFrame, CEMIMessageCode
from xknx.core import XknxConnectionState
from xknx.core.value_reader import ValueReader
from xknx.devices import Switch
from xknx.dpt import DPTBinary
from xknx.exceptions import CommunicationError
from xknx.telegram import GroupAddress, Telegram, TelegramDirection
from xknx.telegram.apci import GroupValueRead, GroupValueWrite

logging.getLogger("xknx").setLevel(logging.CRITICAL)

PARALLEL_READS = 2  # StateUpdater default


class VirtualTimeLoop(asyncio.SelectorEventLoop):
    """Event loop whose clock jumps to the next timer instead of sleeping."""

    def __init__(self) -> None:
        super().__init__()
        self._vt = 0.0
        orig_select = self._selector.select

        def select(timeout: float | None = None):  # type: ignore[no-untyped-def]
            if timeout is None:
                raise RuntimeError("virtual time loop would block forever")
            if timeout > 0:
                self._vt += timeout
            return orig_select(0)

        self._selector.select = select  # type: ignore[method-assign]

    def time(self) -> float:
        return self._vt


class Bus:
    """Fake KNX/IP interface (network boundary). Confirms every frame, never answers reads."""

    def __init__(self, loop: asyncio.AbstractEventLoop) -> None:
        self.loop = loop
        self.connected = False
        self.reads: list[tuple[float, str, bool]] = []  # (time, address, link up?)
        iface = Mock()
        iface.start = AsyncMock()
        iface.stop = AsyncMock()
        iface.send_cemi = self._send_cemi
        with patch("xknx.xknx.knx_interface_factory", return_value=iface):
            self.xknx = XKNX()

    async def _send_cemi(self, cemi: CEMIFrame) -> None:
        telegram = cemi.data.telegram()
        if isinstance(telegram.payload, GroupValueRead):
            self.reads.append(
                (self.loop.time(), str(telegram.destination_address), self.connected)
            )
        if not self.connected:
            raise CommunicationError("fake interface: not connected")
        # L_DATA.con from the (fake) gateway
        self.xknx.cemi_handler.handle_cemi_frame(
            CEMIFrame(code=CEMIMessageCode.L_DATA_CON, data=cemi.data)
        )

    async def start(self) -> None:
        await self.xknx.telegram_queue.start()
        self.xknx.state_updater.start()

    async def stop(self) -> None:
        self.xknx.state_updater.stop()
        await self.xknx.telegram_queue.stop()

    def connect(self) -> None:
        self.connected = True
        self.xknx.connection_manager.connection_state_changed(
            XknxConnectionState.CONNECTED
        )

    def disconnect(self) -> None:
        self.connected = False
        self.xknx.connection_manager.connection_state_changed(
            XknxConnectionState.DISCONNECTED
        )

    def incoming(self, address: str, payload) -> None:  # type: ignore[no-untyped-def]
        self.xknx.telegrams.put_nowait(
            Telegram(
                destination_address=GroupAddress(address),
                direction=TelegramDirection.INCOMING,
                payload=payload,
            )
        )

    def reads_in_progress(self) -> list[str]:
        """State addresses of ValueReaders that sent a GroupValueRead and still wait for the answer."""
        return [
            str(cb.callback.__self__.group_address)
            for cb in self.xknx.telegram_queue.telegram_received_cbs
            if isinstance(getattr(cb.callback, "__self__", None), ValueReader)
        ]


def run(scenario):  # type: ignore[no-untyped-def]
    loop = VirtualTimeLoop()
    try:
        return loop.run_until_complete(scenario(loop))
    finally:
        loop.close()


def test_expire_tracker_queued_for_its_initial_read_is_never_read() -> None:
    """3 'expire 60' values; the third one waits for a free slot when a telegram for it arrives."""

    async def scenario(loop: VirtualTimeLoop) -> list:
        bus = Bus(loop)
        await bus.start()
        for i in range(3):
            bus.xknx.devices.async_add(
                Switch(
                    bus.xknx,
                    f"switch{i}",
                    group_address=f"1/0/{i}",
                    group_address_state=f"1/1/{i}",
                    sync_state="expire 60",
                )
            )
        bus.connect()
        await asyncio.sleep(0.5)
        # switch0 / switch1 are being read (unanswered), switch2 is queued behind them.
        # Somebody switches switch2: GroupValueWrite on the *command* address 1/0/2.
        bus.incoming("1/0/2", GroupValueWrite(DPTBinary(1)))
        await asyncio.sleep(50 * 60)  # still the same connection, 50 minutes later
        reads = list(bus.reads)
        await bus.stop()
        return reads

    reads = run(scenario)
    addresses = [address for _, address, _ in reads]
    assert addresses.count("1/1/2") == 1, (
        f"state address 1/1/2 was read {addresses.count('1/1/2')} times during the first "
        f"50 minutes of the connection; all GroupValueReads sent: {reads}; "
        "C35 requires each registered remote value with a state address to be read once "
        "per (re)connection"
    )
