"""
C35 hunt 1 - "at most two reads are in progress at once" is violated.

StateUpdater.register_remote_value.read_state_mutex() holds the semaphore in the
*tracker* task but performs the read in a *shielded inner* task.  Whenever the
tracker task is cancelled while the read is outstanding (state telegram for an
'expire' tracker, unregistration, disconnect) the semaphore slot is released
although the GroupValueRead is still waiting for its answer, so the next queued
tracker starts a third (fourth, ...) concurrent read.

Run:  cd /tmp/hunt_C35 && /venv/bin/python -m pytest -q -p no:cacheprovider hunt1.py
"""

from __future__ import annotations

import asyncio
import logging
from unittest.mock import AsyncMock, Mock, patch

from xknx import XKNX
from xknx.cemi import CEMIFrame, CEMIMessageCode
from xknx.core import XknxConnectionState
from xknx.core.value_reader import ValueReader
from xknx.devices import Switch
from xknx.dpt import DPTBinary
from xknx.exceptions import CommunicationError
from xknx.telegram import GroupAddress, Telegram, TelegramDirection
from xknx.telegram.apci import GroupValueRead, GroupValueWrite

logging.getLogger("xknx").setLevel(logging.CRITICAL)

PARALLEL_READS = 2  # StateUpdater default


class VirtualTimeLoop(asyncio.SelectorEventLoop):
    """Event loop whose clock jumps to the next timer instead of sleeping."""

    def __init__(self) -> None:
        super().__init__()
        self._vt = 0.0
        orig_select = self._selector.select

        def select(timeout: float | None = None):  # type: ignore[no-untyped-def]
            if timeout is None:
                raise RuntimeError("virtual time loop would block forever")
            if timeout > 0:
                self._vt += timeout
            return orig_select(0)

        self._selector.select = select  # type: ignore[method-assign]

    def time(self) -> float:
        return self._vt


class Bus:
    """Fake KNX/IP interface (network boundary). Confirms every frame, never answers reads."""

    def __init__(self, loop: asyncio.AbstractEventLoop) -> None:
        self.loop = loop
        self.connected = False
        self.reads: list[tuple[float, str, bool]] = []  # (time, address, link up?)
        iface = Mock()
        iface.start = AsyncMock()
        iface.stop = AsyncMock()
        iface.send_cemi = self._send_cemi
        with patch("xknx.xknx.knx_interface_factory", return_value=iface):
            self.xknx = XKNX()

    async def _send_cemi(self, cemi: CEMIFrame) -> None:
        telegram = cemi.data.telegram()
        if isinstance(telegram.payload, GroupValueRead):
            self.reads.append(
                (self.loop.time(), str(telegram.destination_address), self.connected)
            )
        if not self.connected:
            raise CommunicationError("fake interface: not connected")
        # L_DATA.con from the (fake) gateway
        self.xknx.cemi_handler.handle_cemi_frame(
            CEMIFrame(code=CEMIMessageCode.L_DATA_CON, data=cemi.data)
        )

    async def start(self) -> None:
        await self.xknx.telegram_queue.start()
        self.xknx.state_updater.start()

    async def stop(self) -> None:
        self.xknx.state_updater.stop()
        await self.xknx.telegram_queue.stop()

    def connect(self) -> None:
        self.connected = True
        self.xknx.connection_manager.connection_state_changed(
            XknxConnectionState.CONNECTED
        )

    def disconnect(self) -> None:
        self.connected = False
        self.xknx.connection_manager.connection_state_changed(
            XknxConnectionState.DISCONNECTED
        )

    def incoming(self, address: str, payload) -> None:  # type: ignore[no-untyped-def]
        self.xknx.telegrams.put_nowait(
            Telegram(
                destination_address=GroupAddress(address),
                direction=TelegramDirection.INCOMING,
                payload=payload,
            )
        )

    def reads_in_progress(self) -> list[str]:
        """State addresses of ValueReaders that sent a GroupValueRead and still wait for the answer."""
        return [
            str(cb.callback.__self__.group_address)
            for cb in self.xknx.telegram_queue.telegram_received_cbs
            if isinstance(getattr(cb.callback, "__self__", None), ValueReader)
        ]


def run(scenario):  # type: ignore[no-untyped-def]
    loop = VirtualTimeLoop()
    try:
        return loop.run_until_complete(scenario(loop))
    finally:
        loop.close()


def add_switches(bus: Bus, count: int, sync_state: str) -> list[Switch]:
    switches = [
        Switch(
            bus.xknx,
            f"switch{i}",
            group_address=f"1/0/{i}",
            group_address_state=f"1/1/{i}",
            sync_state=sync_state,
        )
        for i in range(count)
    ]
    for switch in switches:
        bus.xknx.devices.async_add(switch)
    return switches


def test_state_telegram_during_read_frees_the_slot_too_early() -> None:
    """'expire' tracker: a telegram on the command address while its read is outstanding."""

    async def scenario(loop: VirtualTimeLoop) -> tuple[list[str], list]:
        bus = Bus(loop)
        await bus.start()
        add_switches(bus, 3, "expire 60")
        bus.connect()
        await asyncio.sleep(0.5)
        # two reads outstanding (1/1/0 and 1/1/1), switch2 waits for a free slot
        assert sorted(bus.reads_in_progress()) == ["1/1/0", "1/1/1"]
        # somebody switches switch0: GroupValueWrite on its command address 1/0/0.
        # The read of its state address 1/1/0 is still unanswered.
        bus.incoming("1/0/0", GroupValueWrite(DPTBinary(1)))
        await asyncio.sleep(0.5)
        in_progress = bus.reads_in_progress()
        reads = list(bus.reads)
        await asyncio.sleep(10)
        await bus.stop()
        return in_progress, reads

    in_progress, reads = run(scenario)
    assert len(in_progress) <= PARALLEL_READS, (
        f"observed {len(in_progress)} reads in progress at t=1.0s: {in_progress} "
        f"(GroupValueReads sent so far, none answered, timeout 2s: {reads}); "
        f"C35 requires at most {PARALLEL_READS} reads in progress at once"
    )


def test_unregister_during_read_frees_the_slot_too_early() -> None:
    """Any tracker type: the device whose read is outstanding gets removed."""

    async def scenario(loop: VirtualTimeLoop) -> tuple[list[str], list]:
        bus = Bus(loop)
        await bus.start()
        switches = add_switches(bus, 3, "init")
        bus.connect()
        await asyncio.sleep(0.5)
        assert sorted(bus.reads_in_progress()) == ["1/1/0", "1/1/1"]
        bus.xknx.devices.async_remove(switches[0])
        await asyncio.sleep(0.5)
        in_progress = bus.reads_in_progress()
        reads = list(bus.reads)
        await asyncio.sleep(10)
        await bus.stop()
        return in_progress, reads

    in_progress, reads = run(scenario)
    assert len(in_progress) <= PARALLEL_READS, (
        f"observed {len(in_progress)} reads in progress at t=1.0s: {in_progress} "
        f"(GroupValueReads sent: {reads}); "
        f"C35 requires at most {PARALLEL_READS} reads in progress at once"
    )


def test_quick_reconnect_doubles_the_reads_in_progress() -> None:
    """Connection flaps within the 2s read timeout: old reads survive, new ones are added."""

    async def scenario(loop: VirtualTimeLoop) -> tuple[list[str], list]:
        bus = Bus(loop)
        await bus.start()
        add_switches(bus, 4, "init")
        bus.connect()
        await asyncio.sleep(0.5)
        assert sorted(bus.reads_in_progress()) == ["1/1/0", "1/1/1"]
        bus.disconnect()
        await asyncio.sleep(0.25)
        bus.connect()
        await asyncio.sleep(0.25)
        in_progress = bus.reads_in_progress()
        reads = list(bus.reads)
        await asyncio.sleep(20)
        await bus.stop()
        return in_progress, reads

    in_progress, reads = run(scenario)
    assert len(in_progress) <= PARALLEL_READS, (
        f"observed {len(in_progress)} reads in progress at t=1.0s: {in_progress} "
        f"(GroupValueReads sent: {reads}); "
        f"C35 requires at most {PARALLEL_READS} reads in progress at once"
    )
