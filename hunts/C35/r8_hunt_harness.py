"""Shared harness for the C35 hunts (real XKNX, real TelegramQueue, real StateUpdater).

Only the KNX/IP interface (network boundary) is mocked and the loop clock is
virtual (same EventLoopClockAdvancer as test/conftest.py).
"""

from __future__ import annotations

import asyncio
from typing import Any
from unittest.mock import AsyncMock, Mock, patch

from xknx import XKNX
from xknx.cemi import CEMIFrame, CEMILData
from xknx.core import XknxConnectionState
from xknx.core.value_reader import ValueReader
from xknx.dpt import DPTBinary
from xknx.devices import Switch
from xknx.telegram import GroupAddress, IndividualAddress, Telegram, TelegramDirection
from xknx.telegram.apci import GroupValueRead, GroupValueResponse, GroupValueWrite


class Clock:
    """Virtual loop time (copy of test/conftest.py EventLoopClockAdvancer)."""

    def __init__(self, loop: asyncio.AbstractEventLoop) -> None:
        self.offset = 0.0
        self._base_time = loop.time
        self.loop = loop
        self.loop.time = self.time  # type: ignore[method-assign]

    def time(self) -> float:
        return self._base_time() + self.offset

    async def settle(self) -> None:
        while self.loop._ready:  # type: ignore[attr-defined]
            await asyncio.sleep(0)

    async def advance(self, seconds: float) -> None:
        await self.settle()
        if seconds > 0:
            self.offset += seconds
            await asyncio.sleep(0)
            await self.settle()


class Env:
    """XKNX with mocked interface; records every GroupValueRead handed to the interface."""

    def __init__(self) -> None:
        self.clock = Clock(asyncio.get_running_loop())
        iface = Mock()
        iface.start = AsyncMock()
        iface.stop = AsyncMock()
        self.reads: list[tuple[str, XknxConnectionState, bool]] = []

        async def send_cemi(cemi: CEMIFrame) -> None:
            assert isinstance(cemi.data, CEMILData)
            if isinstance(cemi.data.payload, GroupValueRead):
                self.reads.append(
                    (
                        str(cemi.data.dst_addr),
                        self.xknx.connection_manager.state,
                        self.xknx.state_updater.started,
                    )
                )
            # immediate L_DATA.con
            self.xknx.cemi_handler._l_data_confirmation_event.set()

        iface.send_cemi = send_cemi
        with patch("xknx.xknx.knx_interface_factory", return_value=iface):
            self.xknx = XKNX(rate_limit=0)

        # pure observer: log the moment a GroupValueRead is issued (queued for sending)
        # and the moment a device processed a state update
        self.events: list[tuple[Any, ...]] = []
        real_put_nowait = self.xknx.telegrams.put_nowait

        def put_nowait(telegram: Telegram | None) -> None:
            if (
                telegram is not None
                and telegram.direction is TelegramDirection.OUTGOING
                and isinstance(telegram.payload, GroupValueRead)
            ):
                self.events.append(
                    (
                        "read",
                        str(telegram.destination_address),
                        self.xknx.connection_manager.state.value,
                        f"started={self.xknx.state_updater.started}",
                        f"registered_trackers={len(self.xknx.state_updater._workers)}",
                    )
                )
            real_put_nowait(telegram)

        self.xknx.telegrams.put_nowait = put_nowait  # type: ignore[method-assign]
        self.xknx.devices.register_device_updated_cb(
            lambda device: self.events.append(("update", device.name))
        )

    def issued(self) -> list[str]:
        """Addresses of all GroupValueReads issued so far."""
        return [e[1] for e in self.events if e[0] == "read"]

    async def start(self) -> None:
        await self.xknx.telegram_queue.start()
        self.xknx.state_updater.start()

    async def stop(self) -> None:
        self.xknx.state_updater.stop()
        await self.clock.advance(5)  # let shielded readers time out
        await self.xknx.telegram_queue.stop()

    def connect(self) -> None:
        self.xknx.connection_manager.connection_state_changed(
            XknxConnectionState.CONNECTED
        )

    def disconnect(self) -> None:
        self.xknx.connection_manager.connection_state_changed(
            XknxConnectionState.DISCONNECTED
        )

    def switch(self, name: str, state_ga: str, sync_state: Any, ga: str | None = None) -> Switch:
        """Create a real Switch device and add it (registers its RemoteValue)."""
        device = Switch(
            self.xknx,
            name,
            group_address=ga,
            group_address_state=state_ga,
            sync_state=sync_state,
        )
        self.xknx.devices.async_add(device)
        return device

    def reads_in_progress(self) -> list[str]:
        """State addresses with a GroupValueRead sent by a ValueReader that still waits."""
        return [
            str(cb.callback.__self__.group_address)
            for cb in self.xknx.telegram_queue.telegram_received_cbs
            if isinstance(getattr(cb.callback, "__self__", None), ValueReader)
        ]

    def incoming(self, ga: str, payload: Any) -> None:
        self.xknx.telegrams.put_nowait(
            Telegram(
                destination_address=GroupAddress(ga),
                direction=TelegramDirection.INCOMING,
                payload=payload,
                source_address=IndividualAddress("1.1.9"),
            )
        )


WRITE_ON = GroupValueWrite(DPTBinary(1))
RESPONSE_ON = GroupValueResponse(DPTBinary(1))
WRITE_OFF = GroupValueWrite(DPTBinary(0))
