"""
C35 hunt 3 - registering a remote value a second time orphans the first tracker.

StateUpdater.register_remote_value() stores the new _StateTracker with
`self._workers[id(remote_value)] = tracker` without stopping a tracker that is
already stored under that key.  The old tracker task keeps running but is no
longer reachable from `_workers`, so neither unregister_remote_value() nor
_stop() (disconnect) nor update_received() can ever stop / reset it again.

Run:  cd /tmp/hunt_C35 && /venv/bin/python -m pytest -q -p no:cacheprovider hunt3.py
"""


from __future__ import annotations

import asyncio
import logging
from unittest.mock import AsyncMock, Mock, patch

from xknx import XKNX
from xknx.cemi import CEMIFrame, CEMIMessageCode
from xknx.core import XknxConnectionState
from xknx.core.value_reader import ValueReader
from xknx.devices import Switch
from xknx.dpt import DPTBinary
from xknx.exceptions import CommunicationError
from xknx.telegram import GroupAddress, Telegram, TelegramDirection
from xknx.telegram.apci import GroupValueRead, GroupValueWrite

logging.getLogger("xknx").setLevel(logging.CRITICAL)

PARALLEL_READS = 2  # StateUpdater default


class VirtualTimeLoop(asyncio.SelectorEventLoop):
    """Event loop whose clock jumps to the next timer instead of sleeping."""

    def __init__(self) -> None:
        super().__init__()
        self._vt = 0.0
        orig_select = self._selector.select

        def select(timeout: float | None = None):  # type: ignore[no-untyped-def]
            if timeout is None:
                raise RuntimeError("virtual time loop would block forever")
            if timeout > 0:
                self._vt += timeout
            return orig_select(0)

        self._selector.select = select  # type: ignore[method-assign]

    def time(self) -> float:
        return self._vt


class Bus:
    """Fake KNX/IP interface (network boundary). Confirms every frame, never answers reads."""

    def __init__(self, loop: asyncio.AbstractEventLoop) -> None:
        self.loop = loop
        self.connected = False
        self.reads: list[tuple[float, str, bool]] = []  # (time, address, link up?)
        iface = Mock()
        iface.start = AsyncMock()
        iface.stop = AsyncMock()
        iface.send_cemi = self._send_cemi
        with patch("xknx.xknx.knx_interface_factory", return_value=iface):
            self.xknx = XKNX()

    async def _send_cemi(self, cemi: CEMIFrame) -> None:
        telegram = cemi.data.telegram()
        if isinstance(telegram.payload, GroupValueRead):
            self.reads.append(
                (self.loop.time(), str(telegram.destination_address), self.connected)
            )
        if not self.connected:
            raise CommunicationError("fake interface: not connected")
        # L_DATA.con from the (fake) gateway
        self.xknx.cemi_handler.handle_cemi_frame(
            CEMIFrame(code=CEMIMessageCode.L_DATA_CON, data=cemi.data)
        )

    async def start(self) -> None:
        await self.xknx.telegram_queue.start()
        self.xknx.state_updater.start()

    async def stop(self) -> None:
        self.xknx.state_updater.stop()
        await self.xknx.telegram_queue.stop()

    def connect(self) -> None:
        self.connected = True
        self.xknx.connection_manager.connection_state_changed(
            XknxConnectionState.CONNECTED
        )

    def disconnect(self) -> None:
        self.connected = False
        self.xknx.connection_manager.connection_state_changed(
            XknxConnectionState.DISCONNECTED
        )

    def incoming(self, address: str, payload) -> None:  # type: ignore[no-untyped-def]
        self.xknx.telegrams.put_nowait(
            Telegram(
                destination_address=GroupAddress(address),
                direction=TelegramDirection.INCOMING,
                payload=payload,
            )
        )

    def reads_in_progress(self) -> list[str]:
        """State addresses of ValueReaders that sent a GroupValueRead and still wait for the answer."""
        return [
            str(cb.callback.__self__.group_address)
            for cb in self.xknx.telegram_queue.telegram_received_cbs
            if isinstance(getattr(cb.callback, "__self__", None), ValueReader)
        ]


def run(scenario):  # type: ignore[no-untyped-def]
    loop = VirtualTimeLoop()
    try:
        return loop.run_until_complete(scenario(loop))
    finally:
        loop.close()


def test_reregistration_leaves_the_old_tracker_running() -> None:
    """History: register 'every 1', register the same value again as 'init', unregister, disconnect."""

    async def scenario(loop: VirtualTimeLoop) -> dict:
        bus = Bus(loop)
        await bus.start()
        bus.connect()
        switch = Switch(
            bus.xknx,
            "switch",
            group_address="1/0/0",
            group_address_state="1/1/0",
            sync_state="every 1",
        )
        state_updater = bus.xknx.state_updater
        # t=0: first registration (what Devices.async_add() does)
        switch.switch.register_state_updater()
        await asyncio.sleep(10)
        # t=10: the same remote value is registered again with another policy
        state_updater.register_remote_value(switch.switch, tracker_options="init")
        assert len(state_updater._workers) == 1
        await asyncio.sleep(10)
        t_registered_init = loop.time()  # 20: the 'init' read (t=10) is done
        await asyncio.sleep(280)
        t_unregistered = loop.time()  # 300
        switch.switch.unregister_state_updater()
        assert len(state_updater._workers) == 0
        await asyncio.sleep(300)
        t_disconnected = loop.time()  # 600
        bus.disconnect()
        assert not state_updater.started
        await asyncio.sleep(300)
        await bus.stop()
        return {
            "reads of the 'init' tracker after its initial read": [
                r for r in bus.reads if t_registered_init < r[0] <= t_unregistered
            ],
            "reads after unregister_remote_value()": [
                r for r in bus.reads if t_unregistered < r[0] <= t_disconnected
            ],
            "reads after disconnect": [r for r in bus.reads if r[0] > t_disconnected],
        }

    observed = run(scenario)
    assert not any(observed.values()), (
        f"observed GroupValueReads (time, address, link up): {observed}; "
        "C35 requires: an 'init' tracker never reads again, no read is issued for an "
        "unregistered value, no read is issued while disconnected"
    )
