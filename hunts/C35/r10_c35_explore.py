"""Exploration harness for C35 (not a deliverable)."""

import asyncio
import sys
from typing import Any
from unittest.mock import AsyncMock, Mock, patch

import xknx as _x
from xknx import XKNX
from xknx.core import XknxConnectionState
from xknx.dpt import DPTArray, DPTBinary
from xknx.remote_value import RemoteValueSwitch
from xknx.telegram import GroupAddress, Telegram, TelegramDirection
from xknx.telegram.apci import GroupValueRead, GroupValueResponse, GroupValueWrite
from xknx.devices import Switch


class Clock:
    def __init__(self, loop):
        self.loop = loop
        self.offset = 0.0
        self._base = loop.time
        self.t0 = self._base()
        loop.time = self.time

    def time(self):
        return self._base() + self.offset

    def now(self):
        return round(self.time() - self.t0, 3)

    async def settle(self):
        for _ in range(5):
            await asyncio.sleep(0)
        while self.loop._ready:
            await asyncio.sleep(0)

    async def advance(self, seconds):
        target = self.time() + seconds
        await self.settle()
        while True:
            timers = [h for h in self.loop._scheduled if not h._cancelled]
            if not timers:
                break
            nxt = min(h._when for h in timers)
            if nxt > target:
                break
            delta = nxt - self.time()
            if delta > 0:
                self.offset += delta + 1e-6
            await self.settle()
        delta = target - self.time()
        if delta > 0:
            self.offset += delta
        await self.settle()


def make_xknx(**kw):
    def knx_ip_interface_mock():
        mock = Mock()
        mock.start = AsyncMock()
        mock.stop = AsyncMock()
        mock.send_cemi = AsyncMock()
        return mock

    with patch("xknx.xknx.knx_interface_factory", return_value=knx_ip_interface_mock()):
        return XKNX(**kw)


class World:
    def __init__(self, xknx, clock):
        self.xknx = xknx
        self.clock = clock
        self.reads = []  # (time, address)
        self.sent = []

        async def send_telegram(telegram):
            self.sent.append((clock.now(), telegram))

        xknx.cemi_handler = Mock()
        xknx.cemi_handler.send_telegram = send_telegram
        orig_put = xknx.telegrams.put_nowait

        def put_nowait(t):
            if t is not None and isinstance(t.payload, GroupValueRead):
                self.reads.append((clock.now(), str(t.destination_address)))
            return orig_put(t)

        xknx.telegrams.put_nowait = put_nowait

    def connect(self):
        self.xknx.connection_manager.connection_state_changed(XknxConnectionState.CONNECTED)

    def disconnect(self):
        self.xknx.connection_manager.connection_state_changed(XknxConnectionState.DISCONNECTED)

    def incoming(self, ga, value=1, response=True):
        p = DPTBinary(value)
        t = Telegram(
            destination_address=GroupAddress(ga),
            direction=TelegramDirection.INCOMING,
            payload=GroupValueResponse(p) if response else GroupValueWrite(p),
        )
        self.xknx.telegrams.put_nowait(t)


async def main():
    print(_x.__file__)
    loop = asyncio.get_running_loop()
    clock = Clock(loop)
    xknx = make_xknx()
    xknx.rate_limit = 0
    w = World(xknx, clock)
    await xknx.telegram_queue.start()
    xknx.state_updater.start()

    sws = []
    for i, ss in enumerate(["expire 2", "every 2", "init"]):
        sw = Switch(xknx, f"sw{i}", group_address=f"1/0/{i}", group_address_state=f"1/1/{i}", sync_state=ss)
        xknx.devices.async_add(sw)
        sws.append(sw)
    w.connect()
    await clock.advance(1)
    print(clock.now(), w.reads)
    await clock.advance(600)
    print(clock.now(), w.reads)
    await xknx.telegram_queue.stop()


if __name__ == "__main__":
    asyncio.run(main())
