"""
C35 hunt 2 - a read is issued although the tracker was already stopped.

read_state_mutex() ends in `await asyncio.shield(remote_value.read_state(...))`.
asyncio.shield() wraps the coroutine in a NEW task that only starts on the next
pass of the event loop.  If the tracker task is cancelled in between (disconnect,
unregistration, update_received() of an 'expire' tracker) the shield prevents the
cancellation from reaching the not-yet-started read, so the GroupValueRead is
sent one loop pass later - while disconnected / for an unregistered value /
right after a state update.

Run:  cd /tmp/hunt_C35 && /venv/bin/python -m pytest -q -p no:cacheprovider hunt2.py
"""


from __future__ import annotations

import asyncio
import logging
from unittest.mock import AsyncMock, Mock, patch

from xknx import XKNX
from xknx.cemi import CEMIFrame, CEMIMessageCode
from xknx.core import XknxConnectionState
from xknx.core.value_reader import ValueReader
from xknx.devices import Switch
from xknx.dpt import DPTBinary
from xknx.exceptions import CommunicationError
from xknx.telegram import GroupAddress, Telegram, TelegramDirection
from xknx.telegram.apci import GroupValueRead, GroupValueWrite

logging.getLogger("xknx").setLevel(logging.CRITICAL)

PARALLEL_READS = 2  # StateUpdater default


class VirtualTimeLoop(asyncio.SelectorEventLoop):
    """Event loop whose clock jumps to the next timer instead of sleeping."""

    def __init__(self) -> None:
        super().__init__()
        self._vt = 0.0
        orig_select = self._selector.select

        def select(timeout: float | None = None):  # type: ignore[no-untyped-def]
            if timeout is None:
                raise RuntimeError("virtual time loop would block forever")
            if timeout > 0:
                self._vt += timeout
            return orig_select(0)

        self._selector.select = select  # type: ignore[method-assign]

    def time(self) -> float:
        return self._vt


class Bus:
    """Fake KNX/IP interface (network boundary). Confirms every frame, never answers reads."""

    def __init__(self, loop: asyncio.AbstractEventLoop) -> None:
        self.loop = loop
        self.connected = False
        self.reads: list[tuple[float, str, bool]] = []  # (time, address, link up?)
        iface = Mock()
        iface.start = AsyncMock()
        iface.stop = AsyncMock()
        iface.send_cemi = self._send_cemi
        with patch("xknx.xknx.knx_interface_factory", return_value=iface):
            self.xknx = XKNX()
        # passive probe: the moment a GroupValueRead is issued (put into xknx.telegrams)
        # -> (time, address, connection state, StateUpdater.started, tracker registered)
        self.issued: list[tuple[float, str, str, bool, bool]] = []
        orig_put_nowait = self.xknx.telegrams.put_nowait

        def put_nowait(telegram):  # type: ignore[no-untyped-def]
            if telegram is not None and isinstance(telegram.payload, GroupValueRead):
                self.issued.append(
                    (
                        self.loop.time(),
                        str(telegram.destination_address),
                        self.xknx.connection_manager.state.name,
                        self.xknx.state_updater.started,
                        bool(self.xknx.state_updater._workers),
                    )
                )
                self.events.append((self.loop.time(), "read issued"))
            return orig_put_nowait(telegram)

        self.xknx.telegrams.put_nowait = put_nowait  # type: ignore[method-assign]
        self.events: list[tuple[float, str]] = []

    async def _send_cemi(self, cemi: CEMIFrame) -> None:
        telegram = cemi.data.telegram()
        if isinstance(telegram.payload, GroupValueRead):
            self.reads.append(
                (self.loop.time(), str(telegram.destination_address), self.connected)
            )
        if not self.connected:
            raise CommunicationError("fake interface: not connected")
        # L_DATA.con from the (fake) gateway
        self.xknx.cemi_handler.handle_cemi_frame(
            CEMIFrame(code=CEMIMessageCode.L_DATA_CON, data=cemi.data)
        )

    async def start(self) -> None:
        await self.xknx.telegram_queue.start()
        self.xknx.state_updater.start()

    async def stop(self) -> None:
        self.xknx.state_updater.stop()
        await self.xknx.telegram_queue.stop()

    def connect(self) -> None:
        self.connected = True
        self.xknx.connection_manager.connection_state_changed(
            XknxConnectionState.CONNECTED
        )

    def disconnect(self) -> None:
        self.connected = False
        self.xknx.connection_manager.connection_state_changed(
            XknxConnectionState.DISCONNECTED
        )

    def incoming(self, address: str, payload) -> None:  # type: ignore[no-untyped-def]
        self.xknx.telegrams.put_nowait(
            Telegram(
                destination_address=GroupAddress(address),
                direction=TelegramDirection.INCOMING,
                payload=payload,
            )
        )

    def reads_in_progress(self) -> list[str]:
        """State addresses of ValueReaders that sent a GroupValueRead and still wait for the answer."""
        return [
            str(cb.callback.__self__.group_address)
            for cb in self.xknx.telegram_queue.telegram_received_cbs
            if isinstance(getattr(cb.callback, "__self__", None), ValueReader)
        ]


def run(scenario):  # type: ignore[no-untyped-def]
    loop = VirtualTimeLoop()
    try:
        return loop.run_until_complete(scenario(loop))
    finally:
        loop.close()


READ_TIMEOUT = 2.0  # ValueReader default
INTERVAL = 60.0  # "expire 1" / "every 1"


def add_switch(bus: Bus, sync_state: str) -> Switch:
    switch = Switch(
        bus.xknx,
        "switch",
        group_address="1/0/0",
        group_address_state="1/1/0",
        sync_state=sync_state,
    )
    bus.xknx.devices.async_add(switch)
    return switch


def test_disconnect_right_after_connect() -> None:
    """History: connect, <k loop passes>, disconnect. No read may follow the disconnect."""

    async def scenario(loop: VirtualTimeLoop, yields: int) -> list:
        bus = Bus(loop)
        await bus.start()
        add_switch(bus, "init")
        bus.connect()
        for _ in range(yields):
            await asyncio.sleep(0)
        bus.disconnect()
        assert not bus.xknx.state_updater.started
        await asyncio.sleep(10)
        await bus.stop()
        return [read for read in bus.issued if read[2] != "CONNECTED"]

    violations = {}
    for yields in range(4):
        bad = run(lambda loop, y=yields: scenario(loop, y))
        if bad:
            violations[yields] = bad
    assert not violations, (
        "GroupValueRead issued (put into xknx.telegrams) while DISCONNECTED "
        "{loop passes between connect and disconnect: "
        f"[(time, address, connection state, updater started, registered)]}} = {violations}; "
        "C35 requires that no read is issued while disconnected"
    )


def test_unregister_right_after_register() -> None:
    """History: (connected) register, <k loop passes>, unregister. No read may follow."""

    async def scenario(loop: VirtualTimeLoop, yields: int) -> list:
        bus = Bus(loop)
        await bus.start()
        bus.connect()
        await asyncio.sleep(1)
        switch = add_switch(bus, "init")
        for _ in range(yields):
            await asyncio.sleep(0)
        bus.xknx.devices.async_remove(switch)
        assert not bus.xknx.state_updater._workers
        issued_before = len(bus.issued)
        await asyncio.sleep(10)
        await bus.stop()
        return bus.issued[issued_before:]

    violations = {}
    for yields in range(4):
        bad = run(lambda loop, y=yields: scenario(loop, y))
        if bad:
            violations[yields] = bad
    assert not violations, (
        "GroupValueRead issued for a remote value AFTER it was unregistered "
        "{loop passes between register and unregister: "
        f"[(time, address, connection state, updater started, registered)]}} = {violations}; "
        "C35 requires that no read is issued for an unregistered value"
    )


def test_disconnect_at_the_instant_the_interval_expires() -> None:
    """'expire 1': the link drops at exactly the moment the tracker timer fires."""

    async def scenario(loop: VirtualTimeLoop, yields: int) -> list:
        bus = Bus(loop)
        await bus.start()
        add_switch(bus, "expire 1")
        bus.connect()  # t=0: initial read, unanswered -> times out at t=2, timer restarts
        await asyncio.sleep(READ_TIMEOUT + INTERVAL - loop.time())  # t=62: timer fires
        for _ in range(yields):
            await asyncio.sleep(0)
        bus.disconnect()
        await asyncio.sleep(10)
        await bus.stop()
        return [read for read in bus.issued if read[2] != "CONNECTED"]

    violations = {}
    for yields in range(4):
        bad = run(lambda loop, y=yields: scenario(loop, y))
        if bad:
            violations[yields] = bad
    assert not violations, (
        "GroupValueRead issued (put into xknx.telegrams) while DISCONNECTED "
        "{extra loop passes before the disconnect at t=62s: "
        f"[(time, address, connection state, updater started, registered)]}} = {violations}; "
        "C35 requires that no read is issued while disconnected"
    )


def test_state_update_at_the_instant_the_interval_expires() -> None:
    """'expire 1': a state telegram is processed at exactly the moment the timer fires.

    The tracker is reset by update_received() - and the read is issued nevertheless.
    """

    async def scenario(loop: VirtualTimeLoop, yields: int) -> list:
        bus = Bus(loop)
        events = bus.events  # "read issued" entries are added by the Bus probe
        bus.xknx.devices.register_device_updated_cb(
            lambda device: events.append((loop.time(), "state update processed"))
        )
        await bus.start()
        add_switch(bus, "expire 1")
        bus.connect()  # t=0 initial read, times out at t=2 -> expires at t=62
        await asyncio.sleep(READ_TIMEOUT + INTERVAL - loop.time())
        for _ in range(yields):
            await asyncio.sleep(0)
        bus.incoming("1/1/0", GroupValueWrite(DPTBinary(1)))  # state telegram at t=62
        await asyncio.sleep(10)
        await bus.stop()
        return events

    violations = {}
    for yields in range(4):
        events = run(lambda loop, y=yields: scenario(loop, y))
        names = [name for _, name in events]
        assert "state update processed" in names
        after_update = events[names.index("state update processed") + 1 :]
        too_early = [
            event
            for event in after_update
            if event[1] == "read issued" and event[0] < 62.0 + INTERVAL
        ]
        if too_early:
            violations[yields] = events
    assert not violations, (
        "an 'expire 1' tracker issued a read right AFTER its state update was processed "
        f"{{extra loop passes: event log}} = {violations}; "
        "C35 requires that an 'expire' tracker reads again only after a full interval "
        "(60s) without a state update"
    )
