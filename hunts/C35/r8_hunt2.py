"""C35 hunt 2: a read is issued after the disconnect / after the unregistration /
after the state update that reset the 'expire' timer.

read_state_mutex() wraps the *whole* read (including issuing the GroupValueRead)
in asyncio.shield().  shield() only creates the inner task; the inner task issues the
GroupValueRead one loop iteration later.  A disconnect / unregister / state update
processed in that iteration cancels the tracker, but the read is issued nevertheless.

"issued" is observed at xknx.telegrams.put_nowait (the moment ValueReader.send_group_read
queues the telegram), see hunt_harness.Env.events.
"""

import asyncio

import pytest

from hunt_harness import RESPONSE_ON, WRITE_OFF, Env
from xknx.core import XknxConnectionState


async def test_read_issued_after_disconnect() -> None:
    """connect, then disconnect one loop iteration later: reads are issued while disconnected."""
    env = Env()
    await env.start()
    env.switch("s1", "1/0/1", "init")
    env.switch("s2", "1/0/2", "every 60")

    env.connect()
    await asyncio.sleep(0)  # tracker tasks take their first step
    env.disconnect()
    assert env.xknx.connection_manager.state is XknxConnectionState.DISCONNECTED
    assert not env.xknx.state_updater.started
    await env.clock.advance(0.1)

    events = list(env.events)
    in_progress = env.reads_in_progress()
    await env.stop()
    assert [e for e in events if e[2] != "CONNECTED"] == [], (
        f"observed {events} (reads still awaiting an answer: {in_progress}): GroupValueReads "
        "were issued after the disconnect; the property requires that no read is issued "
        "while disconnected"
    )


@pytest.mark.parametrize("yields", range(6))
async def test_read_issued_for_unregistered_value(yields: int) -> None:
    """A device removed right after its 'every' timer fired is still read.

    `yields` = number of loop iterations between the timer becoming due and the removal;
    the property must hold for each of them."""
    env = Env()
    await env.start()
    s1 = env.switch("s1", "1/0/1", "every 1")
    env.connect()
    await env.clock.advance(0.1)
    env.incoming("1/0/1", RESPONSE_ON)  # answer the initial read
    await env.clock.advance(0.1)
    assert env.issued() == ["1/0/1"]
    assert env.reads_in_progress() == []

    env.clock.offset += 60  # the 60 s timer is due now
    for _ in range(yields):
        await asyncio.sleep(0)
    issued_before_removal = len(env.issued())
    env.xknx.devices.async_remove(s1)
    assert env.xknx.state_updater._workers == {}
    await env.clock.advance(0.1)

    events = list(env.events)
    issued = env.issued()
    await env.stop()
    assert len(issued) == issued_before_removal, (
        f"observed {events}: {issued_before_removal} read(s) issued before the removal, "
        f"{len(issued)} in total - a GroupValueRead for 1/0/1 was issued after the value had "
        "been unregistered; the property requires no read for an unregistered value"
    )


@pytest.mark.parametrize("yields", range(6))
async def test_expire_reads_right_after_state_update(yields: int) -> None:
    """State update processed right after the expire timer fired: read is issued anyway."""
    env = Env()
    await env.start()
    env.switch("s1", "1/0/1", "expire 1")
    env.connect()
    await env.clock.advance(0.1)
    env.incoming("1/0/1", RESPONSE_ON)
    await env.clock.advance(0.1)
    assert env.events == [
        ("read", "1/0/1", "CONNECTED", "started=True", "registered_trackers=1"),
        ("update", "s1"),
    ]

    env.clock.offset += 60
    for _ in range(yields):
        await asyncio.sleep(0)
    env.incoming("1/0/1", WRITE_OFF)  # spontaneous state update around expiry time
    await env.clock.advance(0.1)
    kinds = [e[0] for e in env.events[2:]]
    events = list(env.events)
    await env.stop()
    # legal: ["update"] (timer reset, no read) or ["read", "update"] (read was first)
    assert kinds != ["update", "read"], (
        f"observed {events}: the 'expire' tracker issued a read right AFTER a state update "
        "was processed (which reset the tracker); the property requires a full interval "
        "(60 s) without a state update before reading again"
    )
    assert kinds in (["update"], ["read", "update"]), events
