"""C10 evidence sweep (PASSES on the unchanged tree - no defect found).

Every DPTComplex / DPTEnum class: decode -> as_dict()/name.lower() -> json.dumps/json.loads
-> to_knx -> from_knx must give an equal value. Exhaustive for DPTBinary and 1-octet
payloads and for every 16-bit field; edge-biased sampling for the longer payloads.
Run: /venv/bin/python hunt_C10_sweep.py   (about 1 minute)
"""
import itertools
import json
import random
import sys

from xknx.dpt import DPTArray, DPTBase, DPTBinary, DPTComplex, DPTComplexData, DPTEnum
from xknx.exceptions import ConversionError, CouldNotParseTelegram

random.seed(10)
EDGE = [0, 1, 0x7F, 0x80, 0xFE, 0xFF]
failures = []


def check(dpt, payload):
    try:
        value = dpt.from_knx(payload)
    except (ConversionError, CouldNotParseTelegram):
        return 0
    form = value.as_dict() if isinstance(value, DPTComplexData) else value.name.lower()
    try:
        back = json.loads(json.dumps(form, allow_nan=False))
        payload2 = dpt.to_knx(back)
        value2 = dpt.from_knx(payload2)
    except Exception as err:  # noqa: BLE001
        failures.append((dpt.__name__, payload, form, repr(err)))
        return 1
    if value2 != value or repr(value2) != repr(value) or type(payload2) is not type(payload):
        failures.append((dpt.__name__, payload, value, payload2, value2))
    return 1


def payloads(dpt):
    n = dpt.payload_length
    if dpt.payload_type is DPTBinary:
        yield from (DPTBinary(v) for v in range(2**n))
    elif n == 1:
        yield from (DPTArray(v) for v in range(256))
    else:
        if n <= 4:
            yield from (DPTArray(t) for t in itertools.product(EDGE, repeat=n))
        for _ in range(20000):
            yield DPTArray(
                tuple(random.choice((random.randrange(256), random.choice(EDGE))) for _ in range(n))
            )
        for i in range(n):
            for b in range(256):
                for fill in (0, 0xFF):
                    t = [fill] * n
                    t[i] = b
                    yield DPTArray(tuple(t))


classes = [c for c in DPTBase.dpt_class_tree() if issubclass(c, (DPTComplex, DPTEnum))]
total = 0
for cls in classes:
    total += sum(check(cls, p) for p in payloads(cls))
# every 16-bit field value
xyy, xyyt, ctt = (DPTBase.get_dpt(k) for k in ("242.600", "243.600", "249.600"))
for n in range(65536):
    hi, lo = n >> 8, n & 0xFF
    total += check(xyy, DPTArray((hi, lo, lo, hi, lo, 3)))
    total += check(xyyt, DPTArray((hi, lo, lo, hi, hi, lo, lo, 3)))
    total += check(ctt, DPTArray((hi, lo, lo, hi, hi, 7)))
print(f"{len(classes)} classes, {total} decoded values round-tripped, {len(failures)} failures")
for f in failures[:20]:
    print("  ", f)
sys.exit(1 if failures else 0)
