"""
C10 hunt 1: DPT 232.600 / 251.600 "decode" payloads whose elements are not octets.

`xknx.mcp.tools.decode_dpt_payload` builds `DPTArray(values)` from the JSON tool
argument. `DPTArray.__init__` only range-checks elements that are `int`, so a
JSON payload like `[12.5, 26, 0]` (or `["7", "7", "7"]`, `[300.5, 0, 0]`) becomes
a payload object. `DPTColorRGB.from_knx` / `DPTColorRGBW.from_knx` copy the raw
elements into the value unchecked, so the tool answers with a "decoded" value
whose dict form does not survive the write-back:
  * 12.5  -> encoder truncates to 12 -> decodes to a different value
  * 300.5 -> the same type's encoder refuses the value it just decoded
Every other complex / enum DPT refuses such a payload (TypeError / ConversionError).
"""

from __future__ import annotations

import dataclasses
import json

import pytest

from xknx.dpt import DPTArray, DPTColorRGB, DPTColorRGBW
from xknx.exceptions import ConversionError, CouldNotParseTelegram
from xknx.mcp.tools import decode_dpt_payload, encode_dpt_payload
from xknx.mcp.types import DecodeDptPayloadInput, EncodeDptPayloadInput

REFUSAL = (ConversionError, CouldNotParseTelegram, ValueError, TypeError)

CASES = [
    # value_type, JSON text of the tool's `payload` argument
    ("color_rgb", "[12.5, 26, 0]"),
    ("color_rgb", "[300.5, 0, 0]"),
    ("color_rgb", '["7", "7", "7"]'),
    ("232.600", "[-0.5, 0, 0]"),
    ("color_rgbw", "[12.5, 26, 0, 0, 0, 15]"),
    ("color_rgbw", "[300.5, 0, 0, 0, 0, 15]"),
    ("251.600", '["7", "7", "7", "7", 0, 15]'),
]


@pytest.mark.parametrize(("value_type", "payload_json"), CASES)
async def test_mcp_decoded_value_round_trips_or_payload_is_refused(
    value_type: str, payload_json: str
) -> None:
    """Whatever decode_dpt_payload answers must be writable back to the same value."""
    payload = json.loads(payload_json)
    try:
        decoded = await decode_dpt_payload(
            DecodeDptPayloadInput(payload=payload, value_type=value_type)
        )
    except REFUSAL:
        return  # a payload that is no octet string may be refused - fine

    # the tool result as a consumer stores it
    stored = json.loads(json.dumps(dataclasses.asdict(decoded)))
    try:
        encoded = await encode_dpt_payload(
            EncodeDptPayloadInput(
                value=stored["value"], value_type=stored["value_type"]
            )
        )
    except ConversionError as err:
        pytest.fail(
            f"decode_dpt_payload({value_type}, {payload_json}) answered value "
            f"{stored['value']!r}, but the same type's encoder refuses that value "
            f"({err}). C10 requires every decoded value's dict form to be accepted "
            "by the same type's encoder (or the payload to be refused on decode)."
        )
    again = await decode_dpt_payload(
        DecodeDptPayloadInput(payload=encoded.payload, value_type=value_type)
    )
    assert again.value == decoded.value, (
        f"decode_dpt_payload({value_type}, {payload_json}) answered "
        f"{decoded.value!r}; written back through encode_dpt_payload it became "
        f"payload {encoded.payload} which decodes to {again.value!r}. C10 requires "
        "the dict form of a decoded value to yield a payload that decodes to the "
        "same value (or the payload to be refused on decode)."
    )


@pytest.mark.parametrize(
    ("dpt", "raw"),
    [
        (DPTColorRGB, (12.5, 26, 0)),
        (DPTColorRGB, (300.5, 0, 0)),
        (DPTColorRGBW, (12.5, 26, 0, 0, 0, 15)),
        (DPTColorRGBW, (300.5, 0, 0, 0, 0, 15)),
    ],
)
def test_dpt_level(dpt: type[DPTColorRGB | DPTColorRGBW], raw: tuple) -> None:
    """Same on the transcoder itself, without the MCP tool."""
    try:
        value = dpt.from_knx(DPTArray(raw))
    except REFUSAL:
        return
    form = json.loads(json.dumps(value.as_dict()))
    try:
        payload = dpt.to_knx(form)
    except ConversionError as err:
        pytest.fail(
            f"{dpt.__name__}.from_knx(DPTArray({raw})) decoded {value!r}, but "
            f"to_knx() refuses its dict form {form!r}: {err}. C10: the dict form of "
            "every decoded value is accepted by the same type's encoder."
        )
    assert dpt.from_knx(payload) == value, (
        f"{dpt.__name__}.from_knx(DPTArray({raw})) decoded {value!r}; its dict form "
        f"{form!r} encodes to {payload!r} which decodes to {dpt.from_knx(payload)!r}. "
        "C10: the round trip must yield the same value."
    )
