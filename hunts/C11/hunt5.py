"""
C11 hunt 5: the numeric DPT encoders refuse a value of the wrong type with TypeError (and a huge integer with OverflowError) - not with a ConversionError.

`DPTBase.to_knx` documents "Raise `ConversionError` for unparsable value" and the MCP
write tool documents "Raises ConversionError if value does not fit value_type", but the
`to_knx` of every DPTNumeric class (`DPTStructIntMixin.to_knx`, dpt_5, dpt_6, dpt_7, dpt_8,
dpt_9, dpt_12, dpt_13, dpt_14, dpt_29 ...) only maps `ValueError` (some also
`OverflowError` / `struct.error`) of `int(value)` / `float(value)`: None, a JSON list or a
JSON object - all legal `GroupValue`s of the MCP input - raise TypeError, and
`float(10**400)` raises OverflowError in DPT 9.xxx and DPT 5.001/5.003.
(DPTComplex.to_knx and DPTEnum.to_knx do map TypeError.)
"""

from __future__ import annotations

from typing import Any

import pytest

from xknx import XKNX
from xknx.devices import ExposeSensor, NumericValue
from xknx.dpt import DPTBase, DPTNumeric
from xknx.exceptions import ConversionError
from xknx.mcp.tools import encode_dpt_payload, send_group_value_write
from xknx.mcp.types import EncodeDptPayloadInput, GroupValueWriteInput
from xknx.remote_value import RemoteValueNumeric, RemoteValueTemp
from xknx.tools import group_value_response, group_value_write


def fail_wrong_exception(what: str, err: BaseException, xknx: XKNX | None) -> None:
    """Report the observed rejection."""
    queued = "" if xknx is None else f" (telegrams queued: {xknx.telegrams.qsize()})"
    pytest.fail(
        f"{what} was rejected with {type(err).__name__}({err}) instead of a ConversionError"
        f"{queued}. C11: a value that can not be represented is rejected at the call with a "
        "conversion error."
    )


@pytest.mark.parametrize(
    ("value", "value_type"),
    [
        (None, "temperature"),
        ([21.5], "temperature"),
        ({"value": 21.5}, "9.001"),
        (None, "percent"),
        ([50], "5.001"),
        ([1, 2], "pulse_2byte"),
        ({}, "14.056"),
        (None, "13.010"),
    ],
)
async def test_mcp_write_tool_wrong_json_type(value: Any, value_type: str) -> None:
    """MCP send_group_value_write: every JSON type is a legal `GroupValue` input."""
    xknx = XKNX()
    request = GroupValueWriteInput(
        group_address="1/2/3", value=value, value_type=value_type
    )
    try:
        await send_group_value_write(xknx, request)
    except ConversionError:
        assert xknx.telegrams.qsize() == 0
        return
    except Exception as err:  # pylint: disable=broad-except
        fail_wrong_exception(f"mcp send_group_value_write({request})", err, xknx)
    pytest.fail(f"accepted: {xknx.telegrams.get_nowait()}")


async def test_mcp_encode_tool_wrong_json_type() -> None:
    """MCP encode_dpt_payload documents ConversionError as well."""
    request = EncodeDptPayloadInput(value=[21.5], value_type="temperature")
    try:
        await encode_dpt_payload(request)
    except ConversionError:
        return
    except Exception as err:  # pylint: disable=broad-except
        fail_wrong_exception(f"mcp encode_dpt_payload({request})", err, None)


@pytest.mark.parametrize("helper", [group_value_write, group_value_response])
@pytest.mark.parametrize("value", [None, [1], (1, 2), {"a": 1}, 10**400, -(10**400)])
def test_group_value_helpers(helper: Any, value: Any) -> None:
    """group_value_write / group_value_response with DPT 9.001."""
    xknx = XKNX()
    try:
        helper(xknx, "1/2/3", value, "temperature")
    except ConversionError:
        assert xknx.telegrams.qsize() == 0
        return
    except Exception as err:  # pylint: disable=broad-except
        fail_wrong_exception(
            f"{helper.__name__}(xknx, '1/2/3', {str(value)[:20]}, 'temperature')", err, xknx
        )
    pytest.fail(f"accepted: {xknx.telegrams.get_nowait()}")


async def test_remote_values_and_devices() -> None:
    """Remote value and device setters built on numeric DPTs."""
    xknx = XKNX()
    calls: dict[str, Any] = {
        "RemoteValueTemp.set(None)": lambda: RemoteValueTemp(
            xknx, group_address="1/2/3"
        ).set(None),  # type: ignore[arg-type]
        "RemoteValueNumeric('power').set([1])": lambda: RemoteValueNumeric(
            xknx, group_address="1/2/3", value_type="power"
        ).set([1]),  # type: ignore[arg-type]
        "NumericValue('temperature').set(None)": lambda: NumericValue(
            xknx, "N", group_address="1/2/3", value_type="temperature"
        ).set(None),  # type: ignore[arg-type]
        "ExposeSensor('temperature').set((21, 5))": lambda: ExposeSensor(
            xknx, "E", group_address="1/2/3", value_type="temperature"
        ).set((21, 5)),
    }
    wrong: list[str] = []
    for what, call in calls.items():
        try:
            result = call()
            if result is not None:
                await result
        except ConversionError:
            continue
        except Exception as err:  # pylint: disable=broad-except
            wrong.append(f"{what} -> {type(err).__name__}: {err}")
    assert xknx.telegrams.qsize() == 0
    assert not wrong, (
        "rejected, but not with a ConversionError as C11 requires: " + "; ".join(wrong)
    )


def test_census_of_numeric_transcoders() -> None:
    """How many numeric transcoders leak TypeError for None / OverflowError for 10**400."""
    leaking: dict[str, list[str]] = {"TypeError": [], "OverflowError": []}
    total = 0
    for dpt in DPTBase.dpt_class_tree():
        if not issubclass(dpt, DPTNumeric):
            continue
        total += 1
        for value in (None, 10**400):
            try:
                dpt.to_knx(value)  # type: ignore[arg-type]
            except ConversionError:
                pass
            except (TypeError, OverflowError) as err:
                leaking[type(err).__name__].append(dpt.__name__)
    assert not leaking["TypeError"] and not leaking["OverflowError"], (
        f"of {total} numeric DPT transcoders {len(leaking['TypeError'])} raise TypeError for "
        f"None and {len(leaking['OverflowError'])} raise OverflowError for 10**400 "
        f"(eg. {leaking['OverflowError'][:4]}); DPTBase.to_knx documents ConversionError."
    )
