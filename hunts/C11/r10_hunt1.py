"""C11 hunt 1: ClimateMode queues a telegram although the mode is refused with a ConversionError."""

import pytest

from xknx import XKNX
from xknx.devices import ClimateMode
from xknx.dpt.dpt_20 import HVACControllerMode, HVACOperationMode
from xknx.exceptions import ConversionError


def _drain(xknx: XKNX) -> list:
    telegrams = []
    while not xknx.telegrams.empty():
        telegrams.append(xknx.telegrams.get_nowait())
    return telegrams


async def test_set_operation_mode_refused_but_telegram_queued() -> None:
    """A refused operation mode shall queue nothing."""
    xknx = XKNX()
    climate_mode = ClimateMode(
        xknx,
        "TestClimate",
        group_address_operation_mode="1/2/3",
        group_address_controller_status="1/2/4",
    )
    # no HVAC status was received yet - RemoteValueHVACStatus can not represent the mode
    with pytest.raises(ConversionError):
        await climate_mode.set_operation_mode(HVACOperationMode.COMFORT)
    queued = _drain(xknx)
    assert not queued, (
        "set_operation_mode(COMFORT) was rejected with a ConversionError, but "
        f"{len(queued)} telegram(s) were queued nevertheless: {queued}. "
        "C11 requires that a value rejected with a conversion error queues nothing."
    )


async def test_set_controller_mode_refused_but_telegram_queued() -> None:
    """A refused controller mode shall queue nothing."""
    xknx = XKNX()
    climate_mode = ClimateMode(
        xknx,
        "TestClimate",
        group_address_controller_mode="1/2/5",
        group_address_controller_status="1/2/4",
    )
    with pytest.raises(ConversionError):
        await climate_mode.set_controller_mode(HVACControllerMode.COOL)
    queued = _drain(xknx)
    assert not queued, (
        "set_controller_mode(COOL) was rejected with a ConversionError, but "
        f"{len(queued)} telegram(s) were queued nevertheless: {queued}. "
        "C11 requires that a value rejected with a conversion error queues nothing."
    )
