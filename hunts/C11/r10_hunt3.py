"""C11 hunt 3: an accepted raw payload can not be sent to a Data Secure group address."""

from pathlib import Path
from unittest.mock import AsyncMock

import pytest

from xknx import XKNX
from xknx.cemi import CEMIFrame
from xknx.exceptions import ConversionError
from xknx.secure.keyring import sync_load_keyring
from xknx.telegram import IndividualAddress
from xknx.tools import group_value_write

KEYFILE = Path(__file__).parent / "test/secure_tests/resources/SecureTest.knxkeys"


def _secure_xknx() -> tuple[XKNX, list[bytes]]:
    """Return an XKNX with Data Secure; the network boundary serializes the frame."""
    xknx = XKNX()
    sent: list[bytes] = []

    async def send_cemi(cemi: CEMIFrame) -> None:
        # what Tunnel / Routing do first: serialize the frame
        sent.append(cemi.to_knx())
        xknx.cemi_handler._l_data_confirmation_event.set()

    xknx.knxip_interface = AsyncMock()
    xknx.knxip_interface.send_cemi = send_cemi
    xknx.current_address = IndividualAddress("5.0.1")
    xknx.cemi_handler.data_secure_init(sync_load_keyring(KEYFILE, "test"))
    return xknx, sent


@pytest.mark.parametrize("length", [14, 240, 241, 253])
async def test_accepted_raw_payload_for_secure_group_address(length: int) -> None:
    """What group_value_write() accepts for a secure group address reaches the wire."""
    xknx, sent = _secure_xknx()
    try:
        # 0/4/0 is a Data Secure group address of the keyring
        group_value_write(xknx, "0/4/0", [0xAA] * length)
    except ConversionError:
        assert xknx.telegrams.empty()
        return
    telegram = xknx.telegrams.get_nowait()
    try:
        await xknx.cemi_handler.send_telegram(telegram)
    except ConversionError as err:
        pytest.fail(
            f"group_value_write() accepted a raw payload of {length} octets for the Data "
            f"Secure group address 0/4/0 and queued it, but the frame can not be "
            f"serialized: {err}. C11 requires that an accepted value becomes a wire-valid "
            "telegram, or is refused with a ConversionError at the call."
        )
    assert len(sent) == 1
