"""
C11 hunt 1: a colour / date-time data class with a float field is accepted and queued as a payload that can not be serialized.

`DPTArray.__init__` only range-checks the elements that are `int`; the complex DPT
encoders (`DPTColorRGB._to_knx`, `DPTColorRGBW._to_knx`, `DPTColorXYY._to_knx`,
`DPTTime`, `DPTDate`, `DPTDateTime` ...) range-check the fields but do not require
integers, so `Light.set_color((127.5, 0, 0))` is queued as `DPTArray((127.5, 0, 0))`.
"""

from __future__ import annotations

import asyncio
from collections.abc import Iterator
from contextlib import contextmanager
import inspect
import logging
from typing import Any
from unittest.mock import patch

import pytest

from xknx import XKNX
from xknx.cemi import CEMIFrame, CEMILData, CEMIMessageCode
from xknx.devices import Light
from xknx.dpt import DPTArray, DPTBinary
from xknx.dpt.dpt_10 import KNXTime
from xknx.dpt.dpt_232 import RGBColor
from xknx.dpt.dpt_242 import XYYColor
from xknx.dpt.dpt_251 import RGBWColor
from xknx.exceptions import ConversionError
from xknx.io import KNXIPInterface
from xknx.remote_value import (
    RemoteValueColorRGB,
    RemoteValueColorRGBW,
    RemoteValueColorXYY,
    RemoteValueTime,
)
from xknx.telegram import IndividualAddress, Telegram
from xknx.tools import group_value_response, group_value_write


def wire_bytes(telegram: Telegram) -> bytes:
    """Serialize like CEMIHandler.send_telegram() + Tunnel.send_cemi() do."""
    cemi = CEMIFrame(
        code=CEMIMessageCode.L_DATA_REQ,
        data=CEMILData.init_from_telegram(
            telegram, src_addr=IndividualAddress("1.1.1")
        ),
    )
    return cemi.to_knx()


def raw_of(payload: DPTArray | DPTBinary) -> Any:
    """Return the raw payload value (str()/repr() of a DPTArray with floats raise themselves)."""
    return payload.value


async def assert_c11(xknx: XKNX, call: Any, what: str) -> None:
    """Either the call raises ConversionError and queues nothing, or what it queued is wire-valid."""
    try:
        result = call()
        if inspect.isawaitable(result):
            await result
    except ConversionError:
        assert xknx.telegrams.qsize() == 0, (
            f"{what}: rejected with ConversionError but "
            f"{xknx.telegrams.qsize()} telegram(s) were queued"
        )
        return
    assert xknx.telegrams.qsize() >= 1, f"{what}: accepted but nothing queued"
    while xknx.telegrams.qsize():
        telegram = xknx.telegrams.get_nowait()
        assert telegram is not None
        try:
            wire_bytes(telegram)
        except Exception as err:  # pylint: disable=broad-except
            pytest.fail(
                f"{what}: the value was ACCEPTED (no ConversionError at the call) and a "
                f"telegram with raw payload {raw_of(telegram.payload.value)!r} was queued, "  # type: ignore[union-attr]
                f"but it can not be serialized onto the wire: {type(err).__name__}: {err}. "
                "C11 requires an unrepresentable value to be rejected at the call with a "
                "ConversionError and nothing to be queued."
            )


async def test_light_set_color_float_component() -> None:
    """Light.set_color() with a float colour component (eg. 255 * 0.5)."""
    xknx = XKNX()
    light = Light(
        xknx, "L", group_address_switch="1/1/1", group_address_color="1/1/2"
    )
    color = (255 * 0.5, 0, 0)
    await assert_c11(
        xknx, lambda: light.set_color(color), "Light.set_color((127.5, 0, 0))"
    )


@pytest.mark.parametrize(
    ("rv_cls", "value"),
    [
        (RemoteValueColorRGB, RGBColor(1.5, 2, 3)),
        (RemoteValueColorRGB, RGBColor(10.0, 20.0, 30.0)),
        (RemoteValueColorRGBW, RGBWColor(1, 2, 3, 4.5)),
        (RemoteValueColorXYY, XYYColor((0.3, 0.3), 127.5)),
        (RemoteValueTime, KNXTime(12, 30.0, 0)),
    ],
)
async def test_remote_value_set_float_field(rv_cls: Any, value: Any) -> None:
    """RemoteValue.set() with a data class whose integer field holds a float."""
    xknx = XKNX()
    remote_value = rv_cls(xknx, group_address="1/2/3")
    await assert_c11(xknx, lambda: remote_value.set(value), f"{rv_cls.__name__}.set({value!r})")


@pytest.mark.parametrize("helper", [group_value_write, group_value_response])
async def test_group_value_helpers_float_field(helper: Any) -> None:
    """group_value_write / group_value_response with a DPT."""
    xknx = XKNX()
    await assert_c11(
        xknx,
        lambda: helper(xknx, "1/2/3", RGBColor(1.5, 2, 3), "color_rgb"),
        f"{helper.__name__}(RGBColor(1.5, 2, 3), 'color_rgb')",
    )


@contextmanager
def production_logging() -> Iterator[None]:
    """
    Log like production does.

    pytest's capture handlers re-raise errors that happen while a record is formatted;
    str() of a telegram with a float octet raises TypeError, which would hide the point.
    """
    root = logging.getLogger()
    saved = root.handlers[:]
    root.handlers = [logging.NullHandler()]
    try:
        yield
    finally:
        root.handlers = saved


async def test_end_to_end_nothing_reaches_the_wire() -> None:
    """The accepted telegram runs through the real TelegramQueue / CEMIHandler; the transport is mocked."""
    xknx = XKNX()
    light = Light(
        xknx, "L", group_address_switch="1/1/1", group_address_color="1/1/2"
    )
    frames: list[bytes] = []
    errors: list[BaseException] = []

    async def send_cemi(_self: Any, cemi: CEMIFrame) -> None:
        """Stand-in for the tunnel: it serializes the frame (Tunnel.send_cemi -> cemi.to_knx())."""
        try:
            frames.append(cemi.to_knx())
        except BaseException as err:
            errors.append(err)
            raise
        xknx.cemi_handler._l_data_confirmation_event.set()  # L_DATA.con

    with production_logging(), patch.object(KNXIPInterface, "send_cemi", send_cemi):
        await xknx.telegram_queue.start()
        try:
            accepted = True
            try:
                await light.set_color((127.5, 0, 0))
            except ConversionError:
                accepted = False
            await asyncio.wait_for(xknx.telegrams.join(), 2)
        finally:
            await xknx.telegram_queue.stop()
    if accepted:
        assert len(frames) == 1 and not errors, (
            "Light.set_color((127.5, 0, 0)) returned without an error, so its telegram "
            f"must reach the wire; frames sent: {len(frames)}, serialization errors in the "
            f"transport: {errors!r}. C11: an accepted value becomes a wire-valid telegram."
        )
    else:
        assert not frames
