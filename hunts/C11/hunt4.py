"""
C11 hunt 4: RemoteValueScaling refuses unrepresentable values with ValueError / OverflowError / TypeError / ZeroDivisionError - not with a ConversionError.

`RemoteValueScaling.to_knx` -> `_calc_to_knx` is `round((value - range_from) / delta * 255)`
without any exception mapping (its sibling `RemoteValueSetpointShift.to_knx` and
`DPTScaling.to_knx` do map them). NaN -> ValueError, +-inf -> OverflowError, a number
given as text / None -> TypeError, so the callers' `except ConversionError` /
`except XKNXException` does not catch the rejection of Light.set_brightness(),
Cover.set_position(), Cover.set_angle() and Fan.set_speed().
"""

from __future__ import annotations

from collections.abc import Awaitable, Callable
from typing import Any

import pytest

from xknx import XKNX
from xknx.devices import Cover, Fan, Light
from xknx.exceptions import ConversionError
from xknx.remote_value import RemoteValueScaling


async def assert_conversion_error(
    xknx: XKNX, call: Callable[[], Any], what: str
) -> None:
    """The value has no 1 octet representation: a ConversionError and an empty queue are required."""
    try:
        result = call()
        if isinstance(result, Awaitable):
            await result
    except ConversionError:
        assert xknx.telegrams.qsize() == 0
        return
    except Exception as err:  # pylint: disable=broad-except
        pytest.fail(
            f"{what} was rejected with {type(err).__name__}({err}) instead of a ConversionError "
            f"(telegrams queued: {xknx.telegrams.qsize()}). C11: a value that can not be "
            "represented is rejected at the call with a conversion error."
        )
    pytest.fail(f"{what} was accepted: {xknx.telegrams.get_nowait()}")


@pytest.mark.parametrize(
    "value",
    [float("nan"), float("inf"), float("-inf"), 1e308, "50", None, [50]],
    ids=repr,
)
async def test_remote_value_scaling_set(value: Any) -> None:
    """RemoteValueScaling.set() with values beyond the type."""
    xknx = XKNX()
    remote_value = RemoteValueScaling(xknx, group_address="1/2/3")
    await assert_conversion_error(
        xknx, lambda: remote_value.set(value), f"RemoteValueScaling.set({value!r})"
    )


async def test_remote_value_scaling_control_cases() -> None:
    """Out of range numbers are refused correctly - the mapping is only missing for the cases above."""
    xknx = XKNX()
    remote_value = RemoteValueScaling(xknx, group_address="1/2/3")
    for value in (-1, 101, 1000.5):
        with pytest.raises(ConversionError):
            remote_value.set(value)
    assert xknx.telegrams.qsize() == 0


async def test_light_set_brightness_nan() -> None:
    """Light.set_brightness(nan)."""
    xknx = XKNX()
    light = Light(
        xknx, "L", group_address_switch="1/1/1", group_address_brightness="1/1/2"
    )
    await assert_conversion_error(
        xknx,
        lambda: light.set_brightness(float("nan")),  # type: ignore[arg-type]
        "Light.set_brightness(nan)",
    )


async def test_cover_set_position_inf() -> None:
    """Cover.set_position(inf)."""
    xknx = XKNX()
    cover = Cover(
        xknx, "C", group_address_long="1/2/1", group_address_position="1/2/2"
    )
    await assert_conversion_error(
        xknx,
        lambda: cover.set_position(float("inf")),  # type: ignore[arg-type]
        "Cover.set_position(inf)",
    )


async def test_fan_set_speed_text() -> None:
    """Fan.set_speed('50') - a number that arrives as text, eg. from a template or a JSON string."""
    xknx = XKNX()
    fan = Fan(xknx, "F", group_address_speed="1/3/1")
    await assert_conversion_error(
        xknx,
        lambda: fan.set_speed("50"),  # type: ignore[arg-type]
        "Fan.set_speed('50')",
    )
