"""C11 hunt 2: RawValue / RemoteValueRaw queue a payload that is too long for any frame."""

import pytest

from xknx import XKNX
from xknx.cemi import CEMIFrame, CEMILData, CEMIMessageCode
from xknx.devices import RawValue
from xknx.exceptions import ConversionError
from xknx.remote_value import RemoteValueRaw
from xknx.telegram import IndividualAddress, Telegram
from xknx.tools import group_value_write


def _wire(telegram: Telegram) -> bytes:
    """Serialize the telegram the way CEMIHandler.send_telegram() does."""
    cemi_data = CEMILData.init_from_telegram(
        telegram, src_addr=IndividualAddress("1.1.1")
    )
    return CEMIFrame(code=CEMIMessageCode.L_DATA_REQ, data=cemi_data).to_knx()


def test_reference_group_value_write_refuses_too_long_raw_payload() -> None:
    """The helper refuses the same payload at the call - this passes."""
    xknx = XKNX()
    with pytest.raises(ConversionError):
        group_value_write(xknx, "1/2/3", [0] * 253 + [1])
    assert xknx.telegrams.empty()


@pytest.mark.parametrize("payload_length", [254, 300])
async def test_raw_value_device_queues_unserializable_payload(
    payload_length: int,
) -> None:
    """RawValue.set() either refuses the value or queues a wire-valid telegram."""
    xknx = XKNX()
    raw_value = RawValue(
        xknx, "Raw", payload_length=payload_length, group_address="1/2/3"
    )
    try:
        await raw_value.set(1)
    except ConversionError:
        assert xknx.telegrams.empty()
        return
    assert xknx.telegrams.qsize() == 1
    telegram = xknx.telegrams.get_nowait()
    try:
        _wire(telegram)
    except ConversionError as err:
        pytest.fail(
            f"RawValue(payload_length={payload_length}).set(1) was accepted and queued a "
            f"telegram with {len(telegram.payload.value.value)} data octets, but the frame "
            f"can not be serialized: {err}. C11 requires that an accepted value becomes a "
            "wire-valid telegram, or is refused with a ConversionError at the call."
        )


def test_remote_value_raw_queues_unserializable_payload() -> None:
    """RemoteValueRaw.set() either refuses the value or queues a wire-valid telegram."""
    xknx = XKNX()
    remote_value = RemoteValueRaw(xknx, payload_length=254, group_address="1/2/3")
    try:
        remote_value.set(1)
    except ConversionError:
        assert xknx.telegrams.empty()
        return
    telegram = xknx.telegrams.get_nowait()
    try:
        _wire(telegram)
    except ConversionError as err:
        pytest.fail(
            "RemoteValueRaw(payload_length=254).set(1) was accepted and queued, but the "
            f"frame can not be serialized: {err}. C11 requires a wire-valid telegram."
        )
