"""C11 hunt 4: unrepresentable Decimal values are not refused with a ConversionError."""

from decimal import Decimal

import pytest

from xknx import XKNX
from xknx.devices import Cover, Light
from xknx.exceptions import ConversionError
from xknx.remote_value import RemoteValueScaling
from xknx.tools import group_value_write

UNREPRESENTABLE = [Decimal("sNaN"), Decimal("9e999999")]


@pytest.mark.parametrize("value", [Decimal("NaN"), Decimal("Infinity"), Decimal(300)])
def test_reference_other_unrepresentable_decimals_are_refused(value: Decimal) -> None:
    """These are refused with a ConversionError - this passes."""
    xknx = XKNX()
    remote_value = RemoteValueScaling(xknx, group_address="1/2/3")
    with pytest.raises(ConversionError):
        remote_value.set(value)
    assert xknx.telegrams.empty()


def test_reference_representable_decimal_is_accepted() -> None:
    """Decimal is an accepted number type - this passes."""
    xknx = XKNX()
    RemoteValueScaling(xknx, group_address="1/2/3").set(Decimal("50"))
    assert xknx.telegrams.qsize() == 1


@pytest.mark.parametrize("value", UNREPRESENTABLE)
def test_remote_value_scaling(value: Decimal) -> None:
    """RemoteValueScaling.set() refuses with a ConversionError."""
    xknx = XKNX()
    remote_value = RemoteValueScaling(xknx, group_address="1/2/3")
    try:
        remote_value.set(value)
    except ConversionError:
        assert xknx.telegrams.empty()
        return
    except Exception as err:  # pylint: disable=broad-exception-caught
        pytest.fail(
            f"RemoteValueScaling.set({value!r}) raised {type(err).__module__}."
            f"{type(err).__name__}: {err!r}. C11 requires that a value that can not be "
            "represented is rejected with a ConversionError."
        )
    pytest.fail(f"{value!r} was accepted: {xknx.telegrams.get_nowait()}")


@pytest.mark.parametrize("value", [Decimal("sNaN")])
async def test_device_setters(value: Decimal) -> None:
    """Device setters built on RemoteValueScaling refuse with a ConversionError."""
    xknx = XKNX()
    light = Light(
        xknx, "L", group_address_switch="1/1/1", group_address_brightness="1/1/2"
    )
    cover = Cover(xknx, "C", group_address_long="1/1/3", group_address_position="1/1/4")
    for name, setter in (
        ("Light.set_brightness", light.set_brightness),
        ("Cover.set_position", cover.set_position),
    ):
        try:
            await setter(value)
        except ConversionError:
            assert xknx.telegrams.empty()
        except Exception as err:  # pylint: disable=broad-exception-caught
            pytest.fail(
                f"{name}({value!r}) raised {type(err).__module__}.{type(err).__name__}: "
                f"{err!r}. C11 requires a ConversionError for a value that can not be "
                "represented."
            )


@pytest.mark.parametrize(
    ("value_type", "value"),
    [
        ("scene_control", {"scene_number": 1, "learn": Decimal("sNaN")}),
        ("2.001", {"control": Decimal("sNaN"), "value": "on"}),
    ],
)
def test_complex_dpt_dict_with_signaling_nan(value_type: str, value: dict) -> None:
    """group_value_write() with a complex DPT refuses with a ConversionError."""
    xknx = XKNX()
    try:
        group_value_write(xknx, "1/2/3", value, value_type)
    except ConversionError:
        assert xknx.telegrams.empty()
        return
    except Exception as err:  # pylint: disable=broad-exception-caught
        pytest.fail(
            f"group_value_write(value={value!r}, value_type={value_type!r}) raised "
            f"{type(err).__module__}.{type(err).__name__}: {err!r}. C11 requires a "
            "ConversionError for a value that can not be represented."
        )
