"""
C11 hunt 2: the raw (no DPT) branch of the group value helpers / the MCP write tool accepts payloads that no frame can carry.

`xknx.tools.group_communication._parse_payload` refuses an empty byte list and elements
that are no integers, but
  * it puts no upper bound on the number of octets: 254 or more octets give an APDU of
    more than MAX_NPDU_LENGTH (254) octets, which `CEMILData.to_knx()` refuses, and
  * a ready made `DPTArray` is returned as it is (`if isinstance(value, DPTArray | DPTBinary):
    return value`), so the very checks made for a list are skipped for `DPTArray(())`
    and `DPTArray((12.5, 26))`.
The telegram is queued nevertheless and is dropped (error log only) when it is sent.
"""

from __future__ import annotations

import asyncio
from collections.abc import Iterator
from contextlib import contextmanager
import logging
from typing import Any
from unittest.mock import patch

import pytest

from xknx import XKNX
from xknx.cemi import CEMIFrame, CEMILData, CEMIMessageCode
from xknx.dpt import DPTArray
from xknx.exceptions import ConversionError
from xknx.io import KNXIPInterface
from xknx.mcp.tools import send_group_value_write
from xknx.mcp.types import GroupValueWriteInput
from xknx.telegram import IndividualAddress, Telegram
from xknx.tools import group_value_response, group_value_write


def wire_bytes(telegram: Telegram) -> bytes:
    """Serialize like CEMIHandler.send_telegram() + Tunnel.send_cemi() do."""
    cemi = CEMIFrame(
        code=CEMIMessageCode.L_DATA_REQ,
        data=CEMILData.init_from_telegram(
            telegram, src_addr=IndividualAddress("1.1.1")
        ),
    )
    return cemi.to_knx()


def check_c11(xknx: XKNX, what: str, raised: BaseException | None) -> None:
    """Either ConversionError and nothing queued, or a queued telegram that serializes."""
    if raised is not None:
        assert isinstance(raised, ConversionError), (
            f"{what}: rejected with {type(raised).__name__} instead of ConversionError"
        )
        assert xknx.telegrams.qsize() == 0, f"{what}: rejected, but a telegram is queued"
        return
    assert xknx.telegrams.qsize() == 1, f"{what}: accepted but nothing queued"
    telegram = xknx.telegrams.get_nowait()
    assert telegram is not None
    raw = telegram.payload.value.value  # type: ignore[union-attr]
    try:
        wire_bytes(telegram)
    except Exception as err:  # pylint: disable=broad-except
        pytest.fail(
            f"{what}: ACCEPTED (no ConversionError at the call), a telegram with "
            f"{len(raw)} payload element(s) {raw[:4]!r}{'...' if len(raw) > 4 else ''} was "
            f"queued, but it can not be serialized: {type(err).__name__}: {err}. C11 requires "
            "a value that can not be represented to be rejected at the call with a "
            "ConversionError, and nothing queued."
        )


RAW_VALUES = [
    pytest.param([0] * 253, id="253 octets - the longest APDU (254) - control case"),
    pytest.param([0] * 254, id="list of 254 octets"),
    pytest.param(bytes(300), id="bytes of 300 octets"),
    pytest.param(tuple(range(256)), id="tuple of 256 octets"),
    pytest.param(DPTArray([1] * 254), id="DPTArray of 254 octets"),
    pytest.param(DPTArray(()), id="empty DPTArray (an empty list is refused)"),
    pytest.param(DPTArray((12.5, 26)), id="DPTArray with a float (a list with a float is refused)"),
]


@pytest.mark.parametrize("helper", [group_value_write, group_value_response])
@pytest.mark.parametrize("value", RAW_VALUES)
def test_group_value_helper_raw_payload(helper: Any, value: Any) -> None:
    """group_value_write / group_value_response without a value_type."""
    xknx = XKNX()
    raised: BaseException | None = None
    try:
        helper(xknx, "1/2/3", value)
    except Exception as err:  # pylint: disable=broad-except
        raised = err
    check_c11(xknx, f"{helper.__name__}(xknx, '1/2/3', <{type(value).__name__}>)", raised)


async def test_mcp_write_tool_raw_byte_list_too_long() -> None:
    """MCP send_group_value_write with a JSON list of 254 ints and no value_type."""
    xknx = XKNX()
    raised: BaseException | None = None
    try:
        await send_group_value_write(
            xknx, GroupValueWriteInput(group_address="1/2/3", value=[7] * 254)
        )
    except Exception as err:  # pylint: disable=broad-except
        raised = err
    check_c11(xknx, "mcp send_group_value_write(value=[7]*254)", raised)


@contextmanager
def production_logging() -> Iterator[None]:
    """Keep pytest's log capture handlers (which re-raise formatting errors) out of the way."""
    root = logging.getLogger()
    saved = root.handlers[:]
    root.handlers = [logging.NullHandler()]
    try:
        yield
    finally:
        root.handlers = saved


async def test_end_to_end_accepted_then_dropped() -> None:
    """Real TelegramQueue and CEMIHandler, transport mocked: the `queued` MCP result never reaches the bus."""
    xknx = XKNX()
    frames: list[bytes] = []
    errors: list[BaseException] = []

    async def send_cemi(_self: Any, cemi: CEMIFrame) -> None:
        """Stand-in for the tunnel, which serializes the frame (Tunnel.send_cemi -> cemi.to_knx())."""
        try:
            frames.append(cemi.to_knx())
        except BaseException as err:
            errors.append(err)
            raise
        xknx.cemi_handler._l_data_confirmation_event.set()  # L_DATA.con

    with production_logging(), patch.object(KNXIPInterface, "send_cemi", send_cemi):
        await xknx.telegram_queue.start()
        try:
            accepted = True
            try:
                result = await send_group_value_write(
                    xknx, GroupValueWriteInput(group_address="1/2/3", value=[7] * 254)
                )
            except ConversionError:
                accepted = False
            await asyncio.wait_for(xknx.telegrams.join(), 2)
        finally:
            await xknx.telegram_queue.stop()
    if accepted:
        assert len(frames) == 1 and not errors, (
            f"the MCP write tool answered {result!r} for a raw payload of 254 octets, but "
            f"{len(frames)} frame(s) were sent and the transport failed with {errors!r}. "
            "C11: whatever is accepted for sending can be serialized onto the wire; what "
            "can not be represented is refused at the call with a ConversionError."
        )
    else:
        assert not frames
