"""
C11 hunt 3: device setters that send several telegrams queue a prefix of them before a later value is refused.

"A value that cannot be represented is rejected at the call with a conversion error,
and nothing is queued." - the setters below convert and queue value by value, so the
ConversionError of the 2nd / 3rd / 4th conversion leaves the telegrams of the earlier
ones in `xknx.telegrams`; they are sent although the call failed.

  * Light.set_color() with individual colour group addresses (red, green, blue[, white])
  * Light.set_hs_color()            (hue queued, saturation refused)
  * Fan.turn_on(speed)              (switch ON queued, speed refused)
  * ClimateMode.set_operation_mode() / set_controller_mode() with a controller status
    address whose state was not received yet (history dependent)
"""

from __future__ import annotations

from collections.abc import Awaitable, Callable
from typing import Any

import pytest

from xknx import XKNX
from xknx.devices import ClimateMode, Fan, Light
from xknx.dpt.dpt_20 import HVACControllerMode, HVACOperationMode
from xknx.exceptions import ConversionError
from xknx.telegram import Telegram


def drain(xknx: XKNX) -> list[Telegram]:
    """Return everything that is queued for sending."""
    telegrams = []
    while xknx.telegrams.qsize():
        telegram = xknx.telegrams.get_nowait()
        assert telegram is not None
        telegrams.append(telegram)
    return telegrams


async def assert_rejected_and_nothing_queued(
    xknx: XKNX, call: Callable[[], Awaitable[Any]], what: str
) -> None:
    """The value can not be represented: ConversionError and an empty queue are required."""
    assert xknx.telegrams.qsize() == 0
    with pytest.raises(ConversionError):
        await call()
    queued = drain(xknx)
    assert not queued, (
        f"{what} was rejected with a ConversionError, but {len(queued)} telegram(s) stayed "
        f"queued and will be sent: {[str(t.destination_address) + ' ' + str(t.payload) for t in queued]}. "
        "C11: a value that can not be represented is rejected at the call and NOTHING is queued."
    )


def individual_rgbw_light(xknx: XKNX) -> Light:
    """Return a light with a brightness address per colour."""
    return Light(
        xknx,
        "L",
        group_address_switch_red="1/1/1",
        group_address_brightness_red="1/1/2",
        group_address_switch_green="1/1/3",
        group_address_brightness_green="1/1/4",
        group_address_switch_blue="1/1/5",
        group_address_brightness_blue="1/1/6",
        group_address_switch_white="1/1/7",
        group_address_brightness_white="1/1/8",
    )


async def test_light_set_color_individual_colors_green_out_of_range() -> None:
    """Red is queued, green=300 is refused."""
    xknx = XKNX()
    light = individual_rgbw_light(xknx)
    await assert_rejected_and_nothing_queued(
        xknx, lambda: light.set_color((10, 300, 10)), "Light.set_color((10, 300, 10))"
    )


async def test_light_set_color_individual_colors_white_out_of_range() -> None:
    """Red, green and blue are queued, white=256 is refused."""
    xknx = XKNX()
    light = individual_rgbw_light(xknx)
    await assert_rejected_and_nothing_queued(
        xknx,
        lambda: light.set_color((10, 20, 30), 256),
        "Light.set_color((10, 20, 30), white=256)",
    )


async def test_light_set_hs_color_saturation_out_of_range() -> None:
    """Hue is queued, saturation=150 % is refused."""
    xknx = XKNX()
    light = Light(
        xknx,
        "L",
        group_address_switch="1/2/1",
        group_address_hue="1/2/2",
        group_address_saturation="1/2/3",
    )
    await assert_rejected_and_nothing_queued(
        xknx, lambda: light.set_hs_color((200, 150)), "Light.set_hs_color((200, 150))"
    )


async def test_fan_turn_on_speed_out_of_range() -> None:
    """The switch telegram (ON) is queued, speed=500 % is refused: the fan is switched on by a failed call."""
    xknx = XKNX()
    fan = Fan(xknx, "F", group_address_speed="1/3/1", group_address_switch="1/3/2")
    await assert_rejected_and_nothing_queued(
        xknx, lambda: fan.turn_on(500), "Fan.turn_on(speed=500)"
    )


async def test_climate_mode_set_operation_mode_status_not_yet_received() -> None:
    """
    History: the controller status (DPT HVACStatus) was not received since the start.

    It can only be written read-modify-write, so its conversion is refused - after the
    operation mode telegram (DPT 20.102) was queued.
    """
    xknx = XKNX()
    climate_mode = ClimateMode(
        xknx,
        "C",
        group_address_operation_mode="1/4/1",
        group_address_controller_status="1/4/2",
    )
    await assert_rejected_and_nothing_queued(
        xknx,
        lambda: climate_mode.set_operation_mode(HVACOperationMode.COMFORT),
        "ClimateMode.set_operation_mode(COMFORT) before the first controller status",
    )


async def test_climate_mode_set_controller_mode_status_not_yet_received() -> None:
    """Same history for the controller mode (DPT 20.105 queued, status refused)."""
    xknx = XKNX()
    climate_mode = ClimateMode(
        xknx,
        "C",
        group_address_controller_mode="1/4/3",
        group_address_controller_status="1/4/2",
    )
    await assert_rejected_and_nothing_queued(
        xknx,
        lambda: climate_mode.set_controller_mode(HVACControllerMode.HEAT),
        "ClimateMode.set_controller_mode(HEAT) before the first controller status",
    )
