"""
C23 hunt 2 - a TCP tunnel passes up a cEMI frame the server never sent after a reconnect.

A real TCPTunnel (auto_reconnect=True) talks over loopback TCP to a minimal
gateway. History:

  connection 1: ConnectResponse(channel 3)
                TunnellingRequest(ch 3, #0, cEMI A)              complete
                first 12 of the 23 bytes of TunnellingRequest(ch 3, #1, cEMI B),
                then the TCP connection drops (gateway restart / link loss)
  connection 2: (automatic reconnect) ConnectResponse(channel 4)
                TunnellingRequest(ch 4, #0, cEMI C)
  connection n: same as connection 2, if the client has to connect again

Every tunnelling request the server sent completely is A and C, so the
property (server-sent tunnel frames are passed up once, in order, and nothing
else) requires passed_up == [A, C].

Observed on the unchanged tree: the 12 byte fragment of connection 1 survives
in TCPTransport._buffer across transport.stop()/connect(), is glued in front of
the ConnectResponse of connection 2 and the mixture is parsed as one
TunnellingRequest: a phantom cEMI frame (2 bytes of B + 11 bytes of the
ConnectResponse) is passed up, the ConnectResponse itself is eaten, so the
first reconnect attempt times out as well (3 TCP connections instead of 2).
"""

from __future__ import annotations

import asyncio

from xknx import XKNX
from xknx.io import TCPTunnel
from xknx.knxip import (
    HPAI,
    ConnectRequest,
    ConnectResponse,
    ConnectResponseData,
    DisconnectRequest,
    DisconnectResponse,
    HostProtocol,
    KNXIPFrame,
    TunnellingRequest,
)
from xknx.telegram import IndividualAddress

CEMI_A = bytes.fromhex("2900bcd011162916030080aa01")
CEMI_B = bytes.fromhex("2900bcd011162916030080bb02")
CEMI_C = bytes.fromhex("2900bcd011162916030080cc03")


def raw(body: object) -> bytes:
    return KNXIPFrame.init_from_body(body).to_knx()  # type: ignore[arg-type]


class Gateway:
    """Minimal KNXnet/IP tunnelling server on loopback TCP."""

    def __init__(self) -> None:
        self.connections = 0
        self.sent_complete: list[bytes] = []  # cEMI of completely sent requests
        self.c_sent = asyncio.Event()

    async def handle(
        self, reader: asyncio.StreamReader, writer: asyncio.StreamWriter
    ) -> None:
        self.connections += 1
        number = self.connections
        channel = 2 + number
        try:
            while True:
                header = await reader.readexactly(6)
                rest = await reader.readexactly(int.from_bytes(header[4:6], "big") - 6)
                frame, _ = KNXIPFrame.from_knx(header + rest)
                if isinstance(frame.body, ConnectRequest):
                    writer.write(
                        raw(
                            ConnectResponse(
                                communication_channel=channel,
                                data_endpoint=HPAI(protocol=HostProtocol.IPV4_TCP),
                                crd=ConnectResponseData(
                                    individual_address=IndividualAddress("1.1.250")
                                ),
                            )
                        )
                    )
                    await writer.drain()
                    await asyncio.sleep(0.05)
                    if number == 1:
                        writer.write(raw(TunnellingRequest(channel, 0, CEMI_A)))
                        self.sent_complete.append(CEMI_A)
                        await writer.drain()
                        await asyncio.sleep(0.05)
                        # the connection dies in the middle of the next frame
                        writer.write(raw(TunnellingRequest(channel, 1, CEMI_B))[:12])
                        await writer.drain()
                        await asyncio.sleep(0.05)
                        writer.close()
                        return
                    writer.write(raw(TunnellingRequest(channel, 0, CEMI_C)))
                    self.sent_complete.append(CEMI_C)
                    await writer.drain()
                    self.c_sent.set()
                elif isinstance(frame.body, DisconnectRequest):
                    writer.write(raw(DisconnectResponse(communication_channel_id=channel)))
                    await writer.drain()
        except (asyncio.IncompleteReadError, ConnectionError):
            pass
        finally:
            writer.close()


async def scenario() -> tuple[list[bytes], Gateway]:
    gateway = Gateway()
    server = await asyncio.start_server(gateway.handle, "127.0.0.1", 0)
    host, port = server.sockets[0].getsockname()

    passed_up: list[bytes] = []
    tunnel = TCPTunnel(
        XKNX(),
        cemi_received_callback=passed_up.append,
        gateway_ip=host,
        gateway_port=port,
        auto_reconnect=True,
        auto_reconnect_wait=0,
    )
    await tunnel.connect()
    try:
        # reconnect attempts that fail take 1 s (ConnectRequest timeout) each
        async with asyncio.timeout(10):
            await gateway.c_sent.wait()
            await asyncio.sleep(0.1)
            # wait until the tunnel is established again
            while tunnel._reconnect_task is not None:
                await asyncio.sleep(0.05)
        await asyncio.sleep(0.3)
    finally:
        await tunnel.disconnect()
        server.close()
    return passed_up, gateway


def test_tcp_reconnect_does_not_pass_up_frames_the_server_never_sent() -> None:
    passed_up, gateway = asyncio.run(scenario())
    # a client that needed several reconnects gets C once per connection - fold that
    assert gateway.sent_complete[0] == CEMI_A
    expected = gateway.sent_complete
    assert passed_up == expected, (
        f"observed: passed up {[c.hex() for c in passed_up]} over {gateway.connections} "
        f"TCP connections; the server completely sent only {[c.hex() for c in expected]}. "
        "C23 requires that exactly the server-sent tunnel frames are passed up, each once, in "
        "order. Instead a cEMI frame that was never sent - the head of the truncated frame of "
        "the dead connection glued to the ConnectResponse of the next connection - was passed "
        "up; the ConnectResponse was swallowed by it, so that reconnect attempt timed out and "
        f"the tunnel needed {gateway.connections} TCP connections instead of 2."
    )


if __name__ == "__main__":
    test_tcp_reconnect_does_not_pass_up_frames_the_server_never_sent()
