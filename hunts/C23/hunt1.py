"""
C23 hunt 1 - UDPTunnel evaluates the sequence counter of TunnellingRequests of a FOREIGN channel.

A real UDPTunnel is connected over loopback UDP to a minimal gateway that
assigns communication channel 2. The gateway then sends

    TunnellingRequest(channel=9, counter=0, cEMI X)   <- not our connection
    TunnellingRequest(channel=2, counter=0, cEMI Y)   <- first frame of our connection
    TunnellingRequest(channel=2, counter=1, cEMI Z)

The incoming sequence counter belongs to the connection (channel 2, starts at
0 with the ConnectResponse), so the property requires: passed up == [Y, Z],
acknowledged == [(2, 0), (2, 1)], frame X neither acknowledged nor passed up.

Observed on the unchanged tree: X is acknowledged (with channel id 9!) and
passed up, it consumes counter 0, and the genuine frame Y - which carries the
expected counter of the connection - is acknowledged to the server as a
"repetition" but never passed up: a bus telegram is silently lost.
"""

from __future__ import annotations

import asyncio

from xknx import XKNX
from xknx.io import UDPTunnel
from xknx.knxip import (
    HPAI,
    ConnectRequest,
    ConnectResponse,
    ConnectResponseData,
    DisconnectRequest,
    DisconnectResponse,
    KNXIPFrame,
    TunnellingAck,
    TunnellingRequest,
)
from xknx.telegram import IndividualAddress

OWN_CHANNEL = 2
FOREIGN_CHANNEL = 9

# three distinguishable L_Data.ind cEMI frames (GroupValueWrite to 5/1/22)
CEMI_X = bytes.fromhex("2900bcd011162916030080aa01")
CEMI_Y = bytes.fromhex("2900bcd011162916030080bb02")
CEMI_Z = bytes.fromhex("2900bcd011162916030080cc03")


class Gateway(asyncio.DatagramProtocol):
    """Minimal KNXnet/IP tunnelling server on loopback UDP."""

    def __init__(self) -> None:
        self.transport: asyncio.DatagramTransport | None = None
        self.client: tuple[str, int] | None = None
        self.acks: list[tuple[int, int]] = []
        self.connected = asyncio.Event()

    def connection_made(self, transport: asyncio.BaseTransport) -> None:
        self.transport = transport  # type: ignore[assignment]

    def send(self, body: object) -> None:
        assert self.transport is not None and self.client is not None
        self.transport.sendto(KNXIPFrame.init_from_body(body).to_knx(), self.client)  # type: ignore[arg-type]

    def datagram_received(self, data: bytes, addr: tuple[str, int]) -> None:
        frame, _ = KNXIPFrame.from_knx(data)
        body = frame.body
        if isinstance(body, ConnectRequest):
            self.client = addr
            host, port = self.transport.get_extra_info("sockname")  # type: ignore[union-attr]
            self.send(
                ConnectResponse(
                    communication_channel=OWN_CHANNEL,
                    data_endpoint=HPAI(ip_addr=host, port=port),
                    crd=ConnectResponseData(
                        individual_address=IndividualAddress("1.1.250")
                    ),
                )
            )
            self.connected.set()
        elif isinstance(body, TunnellingAck):
            self.acks.append((body.communication_channel_id, body.sequence_counter))
        elif isinstance(body, DisconnectRequest):
            self.send(
                DisconnectResponse(communication_channel_id=body.communication_channel_id)
            )


async def scenario() -> tuple[list[bytes], list[tuple[int, int]]]:
    loop = asyncio.get_running_loop()
    gateway = Gateway()
    gw_transport, _ = await loop.create_datagram_endpoint(
        lambda: gateway, local_addr=("127.0.0.1", 0)
    )
    gw_host, gw_port = gw_transport.get_extra_info("sockname")

    passed_up: list[bytes] = []
    tunnel = UDPTunnel(
        XKNX(),
        cemi_received_callback=passed_up.append,
        gateway_ip=gw_host,
        gateway_port=gw_port,
        local_ip="127.0.0.1",
        auto_reconnect=False,
    )
    await tunnel.connect()
    assert tunnel.communication_channel == OWN_CHANNEL
    try:
        for channel, counter, cemi in (
            (FOREIGN_CHANNEL, 0, CEMI_X),
            (OWN_CHANNEL, 0, CEMI_Y),
            (OWN_CHANNEL, 1, CEMI_Z),
        ):
            gateway.send(
                TunnellingRequest(
                    communication_channel_id=channel,
                    sequence_counter=counter,
                    raw_cemi=cemi,
                )
            )
        await asyncio.sleep(0.3)  # let all datagrams and acks travel
    finally:
        await tunnel.disconnect()
        gw_transport.close()
    return passed_up, gateway.acks


def test_foreign_channel_frame_does_not_consume_the_sequence_counter() -> None:
    passed_up, acks = asyncio.run(scenario())
    names = {CEMI_X: "X(ch9,#0)", CEMI_Y: "Y(ch2,#0)", CEMI_Z: "Z(ch2,#1)"}
    observed = [names[c] for c in passed_up]
    assert passed_up == [CEMI_Y, CEMI_Z] and acks == [(OWN_CHANNEL, 0), (OWN_CHANNEL, 1)], (
        f"observed: passed up {observed}, acknowledged (channel, counter) {acks}. "
        "C23 requires that exactly the frames of the connection carrying the expected "
        "counter are passed up, each once, in counter order - i.e. ['Y(ch2,#0)', 'Z(ch2,#1)'] "
        "with acks [(2, 0), (2, 1)]; a TunnellingRequest of foreign channel 9 must be neither "
        "acknowledged nor passed up and must not advance the counter of channel 2. Instead the "
        "foreign frame X was acknowledged and delivered, and the genuine first frame Y was "
        "acknowledged as a 'repetition' but never delivered (lost telegram)."
    )


if __name__ == "__main__":
    test_foreign_channel_frame_does_not_consume_the_sequence_counter()
