"""C23 hunt 1: UDPTunnel feeds TunnellingRequests of a foreign communication channel
into the sequence counter of the current connection.

Run: /venv/bin/python -m pytest -q -p no:cacheprovider hunt1.py
"""

from __future__ import annotations

import asyncio

import pytest

from hunt_harness import FakeServer, make_tunnel
from xknx.knxip import HPAI, DisconnectRequest

CEMI_A = bytes.fromhex("2900bcd011162916030080 0c 3f")  # L_Data.ind 1.1.22 -> 5/1/22
CEMI_B = bytes.fromhex("2900bcd011162917030080 0c 40")
CEMI_C = bytes.fromhex("2900bcd011162918030080 0c 41")


async def _settle() -> None:
    for _ in range(10):
        await asyncio.sleep(0)


async def test_duplicate_of_previous_connection_after_reconnect(
    monkeypatch: pytest.MonkeyPatch,
) -> None:
    """A duplicated datagram of the previous connection is delivered a second time
    and makes the first frame of the new connection disappear."""
    server = FakeServer()
    tunnel, passed_up = make_tunnel(server, monkeypatch)

    await tunnel.connect()
    assert tunnel.communication_channel == 1

    # connection 1 (channel 1): two frames, delivered in order and acknowledged
    server.tunnelling_request(1, 0, CEMI_A)
    server.tunnelling_request(1, 1, CEMI_B)
    assert passed_up == [CEMI_A, CEMI_B]
    assert server.acks == [(1, 0), (1, 1)]

    # the server closes channel 1; the client reconnects and is given channel 2
    server.datagram(
        DisconnectRequest(communication_channel_id=1, control_endpoint=HPAI())
    )
    await _settle()
    assert tunnel.communication_channel == 2
    assert tunnel._reconnect_task is None

    passed_up.clear()
    server.acks.clear()

    # the channel duplicates / delays the datagram (channel 1, counter 0) - it arrives
    # on the (fixed) local port after the reconnect ...
    server.tunnelling_request(1, 0, CEMI_A)
    # ... followed by the first frame the server sends on the new connection
    server.tunnelling_request(2, 0, CEMI_C)

    assert passed_up == [CEMI_C], (
        f"passed up on connection 2 (channel 2): {[c.hex() for c in passed_up]}; "
        f"acks sent: {server.acks}. The property requires every server frame to be "
        f"passed up exactly once, in counter order: CEMI_A was already delivered on "
        f"connection 1 and must not be delivered again, and (channel 2, counter 0) "
        f"{CEMI_C.hex()} carries the expected counter of the current connection and "
        f"must be passed up - instead the stale duplicate of channel 1 consumed "
        f"counter 0, was acknowledged and passed up a second time, and the genuine "
        f"frame was acknowledged as a 'repetition' and dropped."
    )


async def test_orphaned_channel_shares_the_counter(
    monkeypatch: pytest.MonkeyPatch,
) -> None:
    """ConnectResponse lost: the server keeps sending on the orphaned channel while the
    client is on its next one - both streams are merged into one counter."""
    server = FakeServer()
    tunnel, passed_up = make_tunnel(server, monkeypatch, auto_reconnect=False)

    # first ConnectRequest: server opens channel 1, but its ConnectResponse is lost
    server.answer_connect = False
    with pytest.raises(Exception):  # noqa: B017,PT011 - CommunicationError after the timeout
        async with asyncio.timeout(0.05):
            await tunnel.connect()
    # (the hunt does not wait out the 10 s connect timeout - same state either way:
    #  no communication channel, counter reset by setup_tunnel())
    server.answer_connect = True
    await tunnel.connect()
    assert tunnel.communication_channel == 2

    # the server still believes channel 1 to be alive (until its 120 s heartbeat
    # timeout) and forwards bus traffic on both channels, each with its own counter
    server.tunnelling_request(2, 0, CEMI_A)  # connection 2, expected
    server.tunnelling_request(1, 1, CEMI_B)  # orphaned channel 1 (its counter 0 was sent earlier)
    server.tunnelling_request(2, 1, CEMI_C)  # connection 2, expected

    assert passed_up == [CEMI_A, CEMI_C] and server.acks == [(2, 0), (2, 1)], (
        f"passed up: {[c.hex() for c in passed_up]}; acks sent: {server.acks}. "
        f"The property requires exactly the frames carrying the expected counter of "
        f"the connection - (2,0) and (2,1) - to be passed up and acknowledged, and "
        f"all others to be neither acknowledged nor passed up. Instead the frame of "
        f"the foreign channel 1 was acknowledged (as channel 1!) and passed up, and "
        f"the genuine (2,1) was acknowledged but discarded as a repetition."
    )
