import asyncio, socket
from xknx import XKNX
from xknx.io import UDPTunnel
from xknx.knxip import *
from xknx.telegram import IndividualAddress
CEMI = bytes.fromhex("2900bcd011162916030080aa01")
class GW(asyncio.DatagramProtocol):
    def __init__(s): s.n=0; s.acks=[]; s.log=[]
    def connection_made(s,t): s.t=t
    def send(s,b): s.t.sendto(KNXIPFrame.init_from_body(b).to_knx(), s.client)
    def datagram_received(s,d,a):
        b=KNXIPFrame.from_knx(d)[0].body
        s.log.append(type(b).__name__)
        if isinstance(b,ConnectRequest):
            s.client=a; s.n+=1
            h,p=s.t.get_extra_info("sockname")
            s.send(ConnectResponse(communication_channel=s.n,data_endpoint=HPAI(h,p),crd=ConnectResponseData(individual_address=IndividualAddress("1.1.250"))))
        elif isinstance(b,TunnellingAck): s.acks.append((b.communication_channel_id,b.sequence_counter))
        elif isinstance(b,DisconnectRequest):
            if b.communication_channel_id==1: return  # lost: channel 1 stays alive at the server
            s.send(DisconnectResponse(communication_channel_id=b.communication_channel_id))
async def main():
    loop=asyncio.get_running_loop(); gw=GW()
    t,_=await loop.create_datagram_endpoint(lambda:gw,local_addr=("127.0.0.1",0))
    h,p=t.get_extra_info("sockname")
    s=socket.socket(socket.AF_INET,socket.SOCK_DGRAM); s.bind(("127.0.0.1",0)); port=s.getsockname()[1]; s.close()
    up=[]
    tun=UDPTunnel(XKNX(),cemi_received_callback=up.append,gateway_ip=h,gateway_port=p,local_ip="127.0.0.1",local_port=port,auto_reconnect=True,auto_reconnect_wait=0)
    await tun.connect()
    for i in range(5):
        gw.send(TunnellingRequest(1,i,CEMI)); await asyncio.sleep(0.02)
    print("up",len(up),"acks",gw.acks)
    tun._tunnel_lost()   # e.g. heartbeat failed
    await asyncio.sleep(1.5)  # DisconnectRequest for ch1 lost -> 1 s timeout, then reconnect
    print("channel now",tun.communication_channel, "connects",gw.n)
    gw.acks.clear(); up.clear()
    # one bus telegram goes to both channels of the server
    gw.send(TunnellingRequest(2,0,CEMI)); gw.send(TunnellingRequest(1,5,CEMI))
    await asyncio.sleep(3.5)
    print("up",len(up),"acks",gw.acks,"channel now",tun.communication_channel,"connects",gw.n)
    await tun.disconnect(); t.close()
asyncio.run(main())
