"""Shared harness for the C23 hunts: a fake UDP socket and a scripted KNXnet/IP server.

Only the asyncio datagram transport (the network boundary) is replaced. Everything
above it - UDPTransport (parsing, callback dispatch, send), the request/response
helpers, UDPTunnel - is the unchanged library code.
"""

from __future__ import annotations

import asyncio
import sys

sys.path.insert(0, "/tmp/hunt_C23")

from xknx import XKNX  # noqa: E402
from xknx.io import UDPTunnel  # noqa: E402
from xknx.io.transport.udp_transport import UDPTransport  # noqa: E402
from xknx.knxip import (  # noqa: E402
    HPAI,
    ConnectionStateRequest,
    ConnectionStateResponse,
    ConnectRequest,
    ConnectResponse,
    ConnectResponseData,
    DisconnectRequest,
    DisconnectResponse,
    KNXIPFrame,
    TunnellingAck,
    TunnellingRequest,
)
from xknx.telegram import IndividualAddress  # noqa: E402

GATEWAY = ("192.168.1.2", 3671)
LOCAL = ("192.168.1.1", 50000)


class FakeSocket:
    """Stands in for the asyncio DatagramTransport of one UDP socket."""

    def __init__(self, server: FakeServer) -> None:
        self.server = server
        self.closed = False

    def sendto(self, data: bytes, addr: tuple[str, int] | None = None) -> None:
        assert not self.closed
        self.server.client_sent(data)

    def close(self) -> None:
        self.closed = True

    def is_closing(self) -> bool:
        return self.closed

    def get_extra_info(self, name: str, default: object = None) -> object:
        return LOCAL if name == "sockname" else default


class FakeServer:
    """A KNXnet/IP tunnelling server: answers the control requests, records the ACKs."""

    def __init__(self) -> None:
        self.udp: UDPTransport | None = None
        self.next_channel = 1
        self.acks: list[tuple[int, int]] = []  # (channel, sequence_counter)
        self.answer_connect = True

    # client -> server
    def client_sent(self, data: bytes) -> None:
        frame, _ = KNXIPFrame.from_knx(data)
        body = frame.body
        if isinstance(body, ConnectRequest):
            channel = self.next_channel
            self.next_channel += 1
            if self.answer_connect:
                self._later(
                    ConnectResponse(
                        communication_channel=channel,
                        data_endpoint=HPAI(*GATEWAY),
                        crd=ConnectResponseData(
                            individual_address=IndividualAddress("1.1.250")
                        ),
                    )
                )
        elif isinstance(body, DisconnectRequest):
            self._later(
                DisconnectResponse(communication_channel_id=body.communication_channel_id)
            )
        elif isinstance(body, ConnectionStateRequest):
            self._later(
                ConnectionStateResponse(
                    communication_channel_id=body.communication_channel_id
                )
            )
        elif isinstance(body, TunnellingAck):
            self.acks.append((body.communication_channel_id, body.sequence_counter))

    def _later(self, body: object) -> None:
        asyncio.get_running_loop().call_soon(self.datagram, body)

    # server -> client: one UDP datagram handed to the real UDPTransport
    def datagram(self, body: object) -> None:
        assert self.udp is not None
        if self.udp.transport is None:
            return  # socket closed - the datagram is lost
        raw = KNXIPFrame.init_from_body(body).to_knx()  # type: ignore[arg-type]
        self.udp.data_received_callback(raw, GATEWAY)

    def tunnelling_request(self, channel: int, counter: int, cemi: bytes) -> None:
        self.datagram(
            TunnellingRequest(
                communication_channel_id=channel,
                sequence_counter=counter,
                raw_cemi=cemi,
            )
        )


def make_tunnel(
    server: FakeServer, monkeypatch: object, auto_reconnect: bool = True
) -> tuple[UDPTunnel, list[bytes]]:
    """Create a real UDPTunnel whose UDP socket is the FakeSocket of `server`."""

    async def fake_connect(self: UDPTransport) -> None:
        # what loop.create_datagram_endpoint() would give us
        self.transport = FakeSocket(server)  # type: ignore[assignment]
        self.local_addr_assigned = LOCAL

    monkeypatch.setattr(UDPTransport, "connect", fake_connect)  # type: ignore[attr-defined]
    passed_up: list[bytes] = []
    tunnel = UDPTunnel(
        XKNX(),
        cemi_received_callback=passed_up.append,
        gateway_ip=GATEWAY[0],
        gateway_port=GATEWAY[1],
        local_ip=LOCAL[0],
        local_port=LOCAL[1],  # fixed local port: every connection uses the same socket address
        auto_reconnect=auto_reconnect,
        auto_reconnect_wait=1,
    )
    server.udp = tunnel.transport
    return tunnel, passed_up
