"""C42 hunt 1: a GroupValueResponse is counted by the press counter and extends the context."""
from unittest.mock import patch

from hunt_common_c42 import VirtualClock, telegram
from xknx import XKNX
from xknx.devices import BinarySensor


async def test_response_between_two_presses_is_not_a_press():
    clock = VirtualClock()
    try:
        with patch("time.time", clock.wall):
            xknx = XKNX()
            reports = []
            sensor = BinarySensor(
                xknx,
                "button",
                group_address_state="1/2/3",
                context_timeout=1.0,
                device_updated_cb=lambda d: reports.append(
                    (clock.now, d.state, d.counter)
                ),
            )
            # t=0.0  press: GroupValueWrite 'on'
            sensor.process(telegram(True))
            assert sensor.counter == 1
            # t=0.5  somebody reads the object, the push button answers 'off'
            await clock.advance(0.5)
            sensor.process(telegram(False, write=False))
            assert sensor.state is False
            # t=1.2  second press: 1.2 s after the first one, context_timeout is 1.0 s
            await clock.advance(0.7)
            sensor.process(telegram(True))
            counter = sensor.counter
            await clock.advance(2.0)
            xknx.task_registry.stop()
        assert counter == 1, (
            f"two 'on' GroupValueWrite telegrams 1.2 s apart with context_timeout=1.0 were "
            f"counted as counter={counter} (reports: {reports}); the property requires 1 - only "
            "same-state telegrams within the timeout of each other count, and docs/binary_sensor.md "
            "says 'GroupValueResponse telegrams are ignored for this'. The read response at 0.5 s "
            "moved the reference time and restarted the context timer."
        )
    finally:
        clock.restore()


async def test_initial_read_response_is_not_a_press():
    clock = VirtualClock()
    try:
        with patch("time.time", clock.wall):
            xknx = XKNX()
            reports = []
            sensor = BinarySensor(
                xknx,
                "button",
                group_address_state="1/2/3",
                context_timeout=1.0,
                device_updated_cb=lambda d: reports.append(
                    (clock.now, d.state, d.counter)
                ),
            )
            # the state updater's initial read is answered with 'on'
            sensor.process(telegram(True, write=False))
            await clock.advance(0.5)
            # the one and only GroupValueWrite
            sensor.process(telegram(True))
            counter = sensor.counter
            await clock.advance(2.0)
            xknx.task_registry.stop()
        assert counter == 1, (
            f"one GroupValueResponse 'on' followed by ONE GroupValueWrite 'on' gives counter={counter} "
            f"(reports: {reports}); a single write telegram must be counted as 1 - responses are "
            "documented as ignored by the counter."
        )
    finally:
        clock.restore()
