"""C42 hunt 4: the press counter measures the context window with the wall clock."""
from unittest.mock import patch

from hunt_common_c42 import VirtualClock, telegram
from xknx import XKNX
from xknx.devices import BinarySensor


async def test_wall_clock_step_between_two_presses():
    clock = VirtualClock()
    try:
        # time.monotonic follows the virtual loop clock, time.time can be stepped
        with (
            patch("time.time", clock.wall),
            patch("time.monotonic", lambda: 1000.0 + clock.now),
        ):
            xknx = XKNX()
            reports = []
            sensor = BinarySensor(
                xknx,
                "button",
                group_address_state="1/2/3",
                context_timeout=1.0,
                device_updated_cb=lambda d: reports.append(
                    (clock.now, d.state, d.counter)
                ),
            )
            sensor.process(telegram(True))  # t=0.0
            await clock.advance(0.2)
            # the system clock is stepped (NTP sync after boot, manual date change);
            # the event loop's monotonic clock - and reality - moved by 0.2 s only
            clock.wall_offset += 3600.0
            sensor.process(telegram(True))  # t=0.2
            counter = sensor.counter
            await clock.advance(1.5)
            xknx.task_registry.stop()
        assert counter == 2, (
            f"two 'on' telegrams 0.2 s apart with context_timeout=1.0 give counter={counter} "
            f"(reports {reports}); the property requires 2. bump_and_get_counter() measures the "
            "distance with time.time(), which was stepped forward in between, while the context "
            "timer itself runs on the loop's monotonic clock (it had not fired)."
        )
    finally:
        clock.restore()


async def test_wall_clock_step_back_after_stopped_context_timer():
    """Backward step: presses far apart are merged when the context timer did not run."""
    clock = VirtualClock()
    try:
        # time.monotonic follows the virtual loop clock, time.time can be stepped
        with (
            patch("time.time", clock.wall),
            patch("time.monotonic", lambda: 1000.0 + clock.now),
        ):
            xknx = XKNX()
            sensor = BinarySensor(
                xknx, "button", group_address_state="1/2/3", context_timeout=1.0
            )
            sensor.process(telegram(True))  # t=0
            await clock.advance(0.2)
            xknx.task_registry.stop()  # eg. xknx.stop() - the context timer is cancelled
            await clock.advance(30.0)
            clock.wall_offset -= 60.0  # clock corrected backwards
            sensor.process(telegram(True))  # 30 s after the first press
            counter = sensor.counter
            xknx.task_registry.stop()
        assert counter == 1, (
            f"two 'on' telegrams 30 s apart with context_timeout=1.0 give counter={counter}; the "
            "property requires 1 - the wall clock was set back in between, so time.time() "
            "reported a negative distance."
        )
    finally:
        clock.restore()
