"""
C42 hunt 4 - BinarySensor(context_timeout=...): "arrived within the timeout of each
other" is measured with time.time() (the settable system wall clock) while the context
window itself runs on the event loop's monotonic clock. A step of the system clock
(NTP/chrony step after boot of a board without RTC, manual `date -s`, VM resume)
between two presses makes two telegrams that are 0.3 s apart look 30 s apart: the
double press is counted and reported as a single press.

History (event-loop time, context_timeout = 1 s):
    t=0.0  on            -> counter 1
    t=0.1  system clock is stepped forward by 30 s (event-loop clock unaffected)
    t=0.3  on            -> property: counter 2 ; observed: counter 1
    t=1.3  context window ends -> report (on, 1) instead of (on, 2)

Control: same history without the clock step -> counter 2.

Run:  /venv/bin/python -m pytest -q -p no:cacheprovider hunt4.py
"""

from __future__ import annotations

import asyncio
from unittest.mock import patch

import pytest

from xknx import XKNX
from xknx.devices import BinarySensor
from xknx.dpt import DPTBinary
from xknx.telegram import GroupAddress, Telegram
from xknx.telegram.apci import GroupValueResponse, GroupValueWrite

WALL0 = 1_700_000_000.0


class VClock:
    """Virtual clock driving loop.time() and time.time() together."""

    def __init__(self, loop: asyncio.AbstractEventLoop) -> None:
        self.loop = loop
        self.now = 1000.0
        self.wall_step = 0.0  # accumulated steps of the system (wall) clock
        loop.time = lambda: self.now  # type: ignore[method-assign]

    def wall(self) -> float:
        return WALL0 + self.now + self.wall_step

    async def _exhaust(self) -> None:
        while self.loop._ready:  # type: ignore[attr-defined]
            await asyncio.sleep(0)

    async def advance(self, seconds: float) -> None:
        """Advance virtual time, firing every timer at its own due time."""
        target = self.now + seconds
        await self._exhaust()
        while True:
            whens = [
                h._when  # type: ignore[attr-defined]
                for h in self.loop._scheduled  # type: ignore[attr-defined]
                if not h._cancelled
            ]
            nxt = min(whens, default=None)
            if nxt is None or nxt > target:
                break
            self.now = max(self.now, nxt)
            await asyncio.sleep(0)
            await self._exhaust()
        self.now = target
        await asyncio.sleep(0)
        await self._exhaust()


@pytest.fixture
async def clock():
    clk = VClock(asyncio.get_running_loop())
    with patch("time.time", clk.wall):
        yield clk


def telegram(value: int, response: bool = False) -> Telegram:
    apci = GroupValueResponse if response else GroupValueWrite
    return Telegram(
        destination_address=GroupAddress("1/2/3"), payload=apci(DPTBinary(value))
    )




async def run_history(clock: VClock, wall_clock_step: float):
    xknx = XKNX()
    t0 = clock.now
    reports: list[tuple[float, bool | None, int | None]] = []
    sensor = BinarySensor(
        xknx,
        "button",
        group_address_state="1/2/3",
        context_timeout=1.0,
        device_updated_cb=lambda dev: reports.append(
            (round(clock.now - t0, 6), dev.state, dev.counter)
        ),
    )
    sensor.process(telegram(1))  # t=0.0
    await clock.advance(0.1)
    clock.wall_step += wall_clock_step  # system clock stepped, loop clock untouched
    await clock.advance(0.2)
    sensor.process(telegram(1))  # t=0.3
    counter = sensor.counter
    await clock.advance(5)
    return counter, reports


async def test_control_double_press_without_clock_step(clock: VClock) -> None:
    counter, reports = await run_history(clock, wall_clock_step=0.0)
    assert counter == 2
    assert reports == [(1.3, True, 2), (1.3, True, 0)]


async def test_double_press_lost_when_system_clock_is_stepped(clock: VClock) -> None:
    counter, reports = await run_history(clock, wall_clock_step=30.0)
    assert counter == 2 and reports[:1] == [(1.3, True, 2)], (
        "history on@0.0, on@0.3 (event-loop time), context_timeout=1.0, system wall "
        "clock stepped +30 s at t=0.1: the telegrams arrive 0.3 s apart, i.e. within "
        "the timeout of each other, so the property requires counter == 2 and a report "
        f"(1.3, on, 2); observed counter == {counter}, reports == {reports!r} - "
        "bump_and_get_counter() measures the inter-arrival time with time.time(), "
        "which is not monotonic, while the context window (asyncio.sleep) is; the "
        "sensor itself proves the inconsistency: it still waits until t=1.3 (same "
        "context window) but says the second press opened a new context"
    )
