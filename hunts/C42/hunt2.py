"""
C42 hunt 2 - BinarySensor(context_timeout=..., reset_after=...): the timed reset is
counted as if it were a telegram. It bumps the press counter and moves the
"last telegram" time stamp, so

 (a) two 'on' telegrams that are further apart than context_timeout are counted as a
     double press (counter 2) because a timed reset happened in between, and
 (b) a single 'off' telegram is reported as a double 'off' (counter 2) because the
     reset timer armed by the earlier 'on' is still running and fires on top of it.

Run:  /venv/bin/python -m pytest -q -p no:cacheprovider hunt2.py
"""

from __future__ import annotations

import asyncio
from unittest.mock import patch

import pytest

from xknx import XKNX
from xknx.devices import BinarySensor
from xknx.dpt import DPTBinary
from xknx.telegram import GroupAddress, Telegram
from xknx.telegram.apci import GroupValueResponse, GroupValueWrite

WALL0 = 1_700_000_000.0


class VClock:
    """Virtual clock driving loop.time() and time.time() together."""

    def __init__(self, loop: asyncio.AbstractEventLoop) -> None:
        self.loop = loop
        self.now = 1000.0
        loop.time = lambda: self.now  # type: ignore[method-assign]

    def wall(self) -> float:
        return WALL0 + self.now

    async def _exhaust(self) -> None:
        while self.loop._ready:  # type: ignore[attr-defined]
            await asyncio.sleep(0)

    async def advance(self, seconds: float) -> None:
        """Advance virtual time, firing every timer at its own due time."""
        target = self.now + seconds
        await self._exhaust()
        while True:
            whens = [
                h._when  # type: ignore[attr-defined]
                for h in self.loop._scheduled  # type: ignore[attr-defined]
                if not h._cancelled
            ]
            nxt = min(whens, default=None)
            if nxt is None or nxt > target:
                break
            self.now = max(self.now, nxt)
            await asyncio.sleep(0)
            await self._exhaust()
        self.now = target
        await asyncio.sleep(0)
        await self._exhaust()


@pytest.fixture
async def clock():
    clk = VClock(asyncio.get_running_loop())
    with patch("time.time", clk.wall):
        yield clk


def telegram(value: int, response: bool = False) -> Telegram:
    apci = GroupValueResponse if response else GroupValueWrite
    return Telegram(
        destination_address=GroupAddress("1/2/3"), payload=apci(DPTBinary(value))
    )




def make_sensor(
    clock: VClock,
    reports: list[tuple[float, bool | None, int | None]],
    context_timeout: float,
    reset_after: float,
) -> BinarySensor:
    xknx = XKNX()
    t0 = clock.now
    return BinarySensor(
        xknx,
        "button",
        group_address_state="1/2/3",
        context_timeout=context_timeout,
        reset_after=reset_after,
        device_updated_cb=lambda dev: reports.append(
            (round(clock.now - t0, 6), dev.state, dev.counter)
        ),
    )


async def test_control_two_on_beyond_timeout_without_reset(clock: VClock) -> None:
    """Control (passes): without a reset in between, 1.2 s > 1.0 s gives counter 1."""
    reports: list[tuple[float, bool | None, int | None]] = []
    sensor = make_sensor(clock, reports, context_timeout=1.0, reset_after=60.0)
    sensor.process(telegram(1))
    await clock.advance(1.2)
    sensor.process(telegram(1))
    assert sensor.counter == 1


async def test_a_on_telegrams_beyond_timeout_joined_by_reset(clock: VClock) -> None:
    """on@0, (timed reset @0.5), on@1.2 with context_timeout=1.0."""
    reports: list[tuple[float, bool | None, int | None]] = []
    sensor = make_sensor(clock, reports, context_timeout=1.0, reset_after=0.5)

    sensor.process(telegram(1))  # t=0
    assert sensor.counter == 1
    await clock.advance(1.2)  # reset fired at t=0.5
    assert sensor.state is False, "precondition: timed reset happened"
    sensor.process(telegram(1))  # t=1.2
    counter = sensor.counter

    assert counter == 1, (
        "history on@0.0, on@1.2 (the only two telegrams), context_timeout=1.0, "
        "reset_after=0.5: the two 'on' telegrams are 1.2 s apart, i.e. NOT within the "
        "timeout of each other, so the property requires counter == 1 for the second "
        f"one; observed counter == {counter} - the timed reset at t=0.5 went through "
        "bump_and_get_counter() and moved _last_set to t=0.5, so the second 'on' "
        "looks only 0.7 s away from 'the previous telegram'"
    )


async def test_b_single_off_telegram_counted_twice(clock: VClock) -> None:
    """on@0, off@2.5, stale reset timer fires @3.0; context_timeout=1.0, reset_after=3."""
    reports: list[tuple[float, bool | None, int | None]] = []
    sensor = make_sensor(clock, reports, context_timeout=1.0, reset_after=3.0)

    sensor.process(telegram(1))  # t=0    on
    await clock.advance(2.5)
    sensor.process(telegram(0))  # t=2.5  off (button released / sensor cleared)
    assert sensor.state is False
    assert sensor.counter == 1
    await clock.advance(0.4)  # t=2.9
    assert sensor.counter == 1
    await clock.advance(0.2)  # t=3.1  (reset_after after the last 'on' was t=3.0)
    counter_after_timer = sensor.counter
    await clock.advance(10)

    off_reports = [r for r in reports if r[1] is False and r[2]]
    assert counter_after_timer == 1 and off_reports == [(3.5, False, 1)], (
        "history on@0, off@2.5 (exactly one 'off' telegram), context_timeout=1.0, "
        "reset_after=3.0: the property requires the 'off' counter to be 1 and to be "
        "reported when the context window of that telegram ends (t=3.5); observed "
        f"counter at t=3.1: {counter_after_timer}, non-zero 'off' reports "
        f"(time, state, counter): {off_reports!r} - the reset timer armed at t=0 is "
        "not cancelled by the 'off' telegram, fires at t=3.0 while the sensor is "
        "already 'off', and is counted as a second consecutive 'off' telegram"
    )
