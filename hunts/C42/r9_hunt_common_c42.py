"""Shared helpers for the C42 hunt files: a fully virtual clock (loop time and time.time)."""
import asyncio

import xknx
from xknx.dpt import DPTBinary
from xknx.telegram import GroupAddress, Telegram, TelegramDirection
from xknx.telegram.apci import GroupValueRead, GroupValueResponse, GroupValueWrite

assert xknx.__file__.startswith("/tmp/hunt_C42/"), xknx.__file__


class VirtualClock:
    """Drive loop.time() (and, if patched in, time.time()) by hand."""

    def __init__(self) -> None:
        self.loop = asyncio.get_running_loop()
        self.now = 0.0
        self.wall_offset = 1_700_000_000.0
        self._orig = self.loop.time
        self.loop.time = lambda: 1000.0 + self.now  # type: ignore[method-assign]

    def wall(self) -> float:
        return self.wall_offset + self.now

    def restore(self) -> None:
        self.loop.time = self._orig  # type: ignore[method-assign]

    async def settle(self) -> None:
        for _ in range(10):
            await asyncio.sleep(0)
            while self.loop._ready:  # type: ignore[attr-defined]
                await asyncio.sleep(0)

    async def advance(self, seconds: float, step: float = 0.05) -> None:
        await self.settle()
        n = round(seconds / step)
        for _ in range(n):
            self.now = round(self.now + step, 6)
            await self.settle()


def telegram(on, *, write=True, ga="1/2/3", direction=TelegramDirection.INCOMING):
    payload = DPTBinary(1 if on else 0)
    return Telegram(
        destination_address=GroupAddress(ga),
        payload=GroupValueWrite(payload) if write else GroupValueResponse(payload),
        direction=direction,
    )


def read_telegram(ga="1/2/3"):
    return Telegram(
        destination_address=GroupAddress(ga),
        payload=GroupValueRead(),
        direction=TelegramDirection.INCOMING,
    )
