"""
C42 hunt 3 - Switch(reset_after=...): if the KNX/IP connection is down at the moment
the reset timer fires, the single 'off' write fails (CommunicationError, logged as a
warning), the Switch keeps reporting 'on' and the reset is never attempted again -
not on reconnect, not ever. The timed reset is silently lost.

History (virtual time, reset_after = 1 s, real XKNX with running TelegramQueue and
TaskRegistry, only KNXIPInterface mocked):
    t=0.0  incoming GroupValueWrite on  -> switch 'on', timer armed
    t=0.5  tunnel drops (DISCONNECTED)
    t=1.0  timer fires -> switch.off() -> send fails -> state stays 'on'
    t=1.5  tunnel is back (CONNECTED)
    t=...  nothing: switch reports 'on' for ever, no 'off' telegram is ever sent

Control: same history without the connection drop -> 'off' at t=1.0.

Run:  /venv/bin/python -m pytest -q -p no:cacheprovider hunt3.py
"""

from __future__ import annotations

import asyncio
from unittest.mock import AsyncMock, Mock, patch

import pytest

from xknx import XKNX
from xknx.core import XknxConnectionState
from xknx.devices import Switch
from xknx.dpt import DPTBinary
from xknx.exceptions import CommunicationError
from xknx.telegram import (
    GroupAddress,
    IndividualAddress,
    Telegram,
    TelegramDirection,
)
from xknx.telegram.apci import GroupValueWrite

WALL0 = 1_700_000_000.0


class VClock:
    """Virtual clock driving loop.time() and time.time() together."""

    def __init__(self, loop: asyncio.AbstractEventLoop) -> None:
        self.loop = loop
        self.now = 1000.0
        loop.time = lambda: self.now  # type: ignore[method-assign]

    def wall(self) -> float:
        return WALL0 + self.now

    async def _exhaust(self) -> None:
        while self.loop._ready:  # type: ignore[attr-defined]
            await asyncio.sleep(0)

    async def advance(self, seconds: float) -> None:
        """Advance virtual time, firing every timer at its own due time."""
        target = self.now + seconds
        await self._exhaust()
        while True:
            whens = [
                h._when  # type: ignore[attr-defined]
                for h in self.loop._scheduled  # type: ignore[attr-defined]
                if not h._cancelled
            ]
            nxt = min(whens, default=None)
            if nxt is None or nxt > target:
                break
            self.now = max(self.now, nxt)
            await asyncio.sleep(0)
            await self._exhaust()
        self.now = target
        await asyncio.sleep(0)
        await self._exhaust()


@pytest.fixture
async def clock():
    clk = VClock(asyncio.get_running_loop())
    with patch("time.time", clk.wall):
        yield clk




class FakeBus:
    """KNX/IP interface mock (network boundary): records sent frames, can be down."""

    def __init__(self, clock: VClock) -> None:
        self.clock = clock
        self.connected = True
        self.sent: list[tuple[float, str]] = []
        self.iface = Mock()
        self.iface.start = AsyncMock()
        self.iface.stop = AsyncMock()
        self.iface.send_cemi = self.send_cemi
        with patch("xknx.xknx.knx_interface_factory", return_value=self.iface):
            self.xknx = XKNX()
        self.t0 = clock.now

    async def send_cemi(self, cemi) -> None:  # noqa: ANN001
        if not self.connected:
            # what KNXIPInterface.send_cemi / Tunnel raise while not connected
            raise CommunicationError("KNX/IP interface not connected")
        self.sent.append((round(self.clock.now - self.t0, 6), str(cemi.data.payload)))
        # the gateway's L_DATA.con
        self.xknx.cemi_handler._l_data_confirmation_event.set()

    def set_connected(self, connected: bool) -> None:
        self.connected = connected
        self.xknx.connection_manager.connection_state_changed(
            XknxConnectionState.CONNECTED
            if connected
            else XknxConnectionState.DISCONNECTED
        )


def incoming_on() -> Telegram:
    return Telegram(
        destination_address=GroupAddress("1/2/3"),
        payload=GroupValueWrite(DPTBinary(1)),
        direction=TelegramDirection.INCOMING,
        source_address=IndividualAddress("1.1.5"),
    )


async def run_history(clock: VClock, drop_connection: bool):
    bus = FakeBus(clock)
    xknx = bus.xknx
    reports: list[tuple[float, bool | None]] = []
    switch = Switch(
        xknx,
        "door opener",
        group_address="1/2/3",
        reset_after=1.0,
        device_updated_cb=lambda dev: reports.append(
            (round(clock.now - bus.t0, 6), dev.state)
        ),
    )
    xknx.devices.async_add(switch)
    await xknx.start()
    bus.set_connected(True)
    await clock.advance(0)

    xknx.telegrams.put_nowait(incoming_on())  # t=0
    await clock.advance(0.5)
    assert switch.state is True
    if drop_connection:
        bus.set_connected(False)  # t=0.5
    await clock.advance(1.0)  # t=1.5 (timer fired at t=1.0)
    if drop_connection:
        bus.set_connected(True)  # t=1.5
    await clock.advance(3600)
    state = switch.state
    await xknx.stop()
    return state, reports, bus.sent


async def test_control_reset_without_fault(clock: VClock) -> None:
    """Control (passes): off is sent and reported exactly 1 s after the 'on'."""
    state, reports, sent = await run_history(clock, drop_connection=False)
    assert state is False
    assert reports == [(0.0, True), (1.0, False)]
    assert len(sent) == 1 and sent[0][0] == 1.0


async def test_reset_lost_when_connection_is_down_at_expiry(clock: VClock) -> None:
    state, reports, sent = await run_history(clock, drop_connection=True)
    assert state is False and len(sent) == 1, (
        "history on@0, connection lost 0.5..1.5, reset_after=1.0: the property "
        "requires the switch to report 'off' reset_after after the last 'on' telegram "
        "(at the latest as soon as the bus can be written again at t=1.5); observed "
        f"one hour later: switch.state={state!r}, reports={reports!r}, "
        f"'off' frames ever sent to the bus={sent!r} - the reset write failed once at "
        "t=1.0 and is never retried, the switch (and the actuator) stay 'on' for ever"
    )
