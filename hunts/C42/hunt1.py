"""
C42 hunt 1 - BinarySensor(reset_after=...): an 'on' GroupValueResponse that arrives
after the timed reset is dropped; the sensor stays 'off' and no reset timer runs.

History (virtual time, reset_after = 1 s):
    t=0   GroupValueWrite    on   -> sensor 'on', timer armed
    t=1   timer fires             -> sensor 'off'              (correct)
    t=2   GroupValueResponse on   -> property: sensor 'on', 'off' again at t=3
                                     observed: sensor stays 'off', nothing happens

Control: the very same response telegram arriving at t=0.5 (before the reset) IS
honoured as "a later 'on'" - it restarts the timer (off at t=1.5, not t=1.0).

Run:  /venv/bin/python -m pytest -q -p no:cacheprovider hunt1.py
"""

from __future__ import annotations

import asyncio
from unittest.mock import patch

import pytest

from xknx import XKNX
from xknx.devices import BinarySensor
from xknx.dpt import DPTBinary
from xknx.telegram import GroupAddress, Telegram
from xknx.telegram.apci import GroupValueResponse, GroupValueWrite

WALL0 = 1_700_000_000.0


class VClock:
    """Virtual clock driving loop.time() and time.time() together."""

    def __init__(self, loop: asyncio.AbstractEventLoop) -> None:
        self.loop = loop
        self.now = 1000.0
        loop.time = lambda: self.now  # type: ignore[method-assign]

    def wall(self) -> float:
        return WALL0 + self.now

    async def _exhaust(self) -> None:
        while self.loop._ready:  # type: ignore[attr-defined]
            await asyncio.sleep(0)

    async def advance(self, seconds: float) -> None:
        """Advance virtual time, firing every timer at its own due time."""
        target = self.now + seconds
        await self._exhaust()
        while True:
            whens = [
                h._when  # type: ignore[attr-defined]
                for h in self.loop._scheduled  # type: ignore[attr-defined]
                if not h._cancelled
            ]
            nxt = min(whens, default=None)
            if nxt is None or nxt > target:
                break
            self.now = max(self.now, nxt)
            await asyncio.sleep(0)
            await self._exhaust()
        self.now = target
        await asyncio.sleep(0)
        await self._exhaust()


@pytest.fixture
async def clock():
    clk = VClock(asyncio.get_running_loop())
    with patch("time.time", clk.wall):
        yield clk


def telegram(value: int, response: bool = False) -> Telegram:
    apci = GroupValueResponse if response else GroupValueWrite
    return Telegram(
        destination_address=GroupAddress("1/2/3"), payload=apci(DPTBinary(value))
    )


RESET_AFTER = 1.0


def make_sensor(clock: VClock, reports: list[tuple[float, bool | None]]) -> BinarySensor:
    xknx = XKNX()
    t0 = clock.now
    return BinarySensor(
        xknx,
        "motion",
        group_address_state="1/2/3",
        reset_after=RESET_AFTER,
        device_updated_cb=lambda dev: reports.append(
            (round(clock.now - t0, 6), dev.state)
        ),
    )


async def test_control_on_response_before_reset_restarts_timer(clock: VClock) -> None:
    """Control (passes): before the reset an 'on' response counts as a later 'on'."""
    reports: list[tuple[float, bool | None]] = []
    sensor = make_sensor(clock, reports)
    sensor.process(telegram(1))
    await clock.advance(0.5)
    sensor.process(telegram(1, response=True))
    await clock.advance(0.75)  # t=1.25 - the first timer would have fired at 1.0
    assert sensor.state is True
    await clock.advance(0.25)  # t=1.5
    assert sensor.state is False
    assert reports == [(0.0, True), (1.5, False)]


async def test_on_response_after_reset_is_dropped(clock: VClock) -> None:
    """After the reset the same 'on' response must switch the sensor on again."""
    reports: list[tuple[float, bool | None]] = []
    sensor = make_sensor(clock, reports)

    sensor.process(telegram(1))  # t=0  on (write)
    await clock.advance(RESET_AFTER)  # t=1  timed reset
    assert sensor.state is False, "precondition: reset after 1 s"
    await clock.advance(1.0)  # t=2

    sensor.process(telegram(1, response=True))  # t=2  on (response)
    state_after_on = sensor.state
    await clock.advance(0.5)  # t=2.5
    await clock.advance(0.5)  # t=3.0
    await clock.advance(5.0)

    assert state_after_on is True and reports == [
        (0.0, True),
        (1.0, False),
        (2.0, True),
        (3.0, False),
    ], (
        "history on(write)@0, on(response)@2 with reset_after=1: the property requires "
        "the sensor to be 'on' from the last 'on' telegram (t=2) and to report 'off' "
        "exactly reset_after later (t=3), i.e. reports "
        "[(0,on),(1,off),(2,on),(3,off)]; observed state right after the 'on' "
        f"telegram at t=2: {state_after_on!r}, reports: {reports!r}, "
        f"RemoteValue still holds value={sensor.remote_value.value!r} while "
        f"sensor.state={sensor.state!r} (the timed reset never told the RemoteValue, "
        "so the response is seen as 'unchanged' and dropped)"
    )
