"""C42 hunt 2: answering a GroupValueRead restarts the reset timer of a Switch."""
from unittest.mock import AsyncMock, Mock, patch

from hunt_common_c42 import VirtualClock, read_telegram, telegram
from xknx import XKNX
from xknx.core import XknxConnectionState
from xknx.devices import Switch


def _interface_mock() -> Mock:
    mock = Mock()
    mock.start = AsyncMock()
    mock.stop = AsyncMock()
    mock.send_cemi = AsyncMock()
    return mock


async def test_read_requests_do_not_postpone_the_reset():
    clock = VirtualClock()
    try:
        with (
            patch("xknx.xknx.knx_interface_factory", return_value=_interface_mock()),
            patch(
                "xknx.cemi.cemi_handler.CEMIHandler.send_telegram", AsyncMock()
            ) as sent,
        ):
            xknx = XKNX()
            switch = Switch(
                xknx,
                "door opener",
                group_address="1/2/3",
                respond_to_read=True,
                reset_after=1.0,
            )
            xknx.devices.async_add(switch)
            await xknx.start()
            xknx.connection_manager.connection_state_changed(
                XknxConnectionState.CONNECTED
            )
            await clock.settle()
            # t=0: the one and only 'on' telegram
            xknx.telegrams.put_nowait(telegram(True))
            await clock.advance(0.05)
            assert switch.state is True
            trace = []
            # a visualisation polls the state every 0.5 s
            for _ in range(8):
                await clock.advance(0.45)
                xknx.telegrams.put_nowait(read_telegram())
                await clock.advance(0.05)
                trace.append((clock.now, switch.state))
            state = switch.state
            answers = [
                call.args[0].payload.__class__.__name__ for call in sent.call_args_list
            ]
            await xknx.stop()
        assert state is False, (
            f"Switch(reset_after=1.0) got its last 'on' telegram at t=0 and is still "
            f"state={state} at t={clock.now} (trace {trace}); the property requires 'off' 1.0 s "
            f"after the last 'on' telegram. Only GroupValueRead requests arrived since - each "
            f"own answer ({answers}) restarted the reset timer."
        )
    finally:
        clock.restore()


async def test_control_without_reads_the_harness_sees_the_reset():
    """Passes: same set-up without read requests - the switch is off after 1.0 s."""
    clock = VirtualClock()
    try:
        with (
            patch("xknx.xknx.knx_interface_factory", return_value=_interface_mock()),
            patch("xknx.cemi.cemi_handler.CEMIHandler.send_telegram", AsyncMock()),
        ):
            xknx = XKNX()
            switch = Switch(
                xknx, "s", group_address="1/2/3", respond_to_read=True, reset_after=1.0
            )
            xknx.devices.async_add(switch)
            await xknx.start()
            xknx.connection_manager.connection_state_changed(
                XknxConnectionState.CONNECTED
            )
            await clock.settle()
            xknx.telegrams.put_nowait(telegram(True))
            await clock.advance(0.95)
            assert switch.state is True
            await clock.advance(0.1)
            state = switch.state
            await xknx.stop()
        assert state is False
    finally:
        clock.restore()
