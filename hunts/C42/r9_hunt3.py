"""C42 hunt 3: a Switch whose reset telegram can not be sent stays 'on' for good."""
from unittest.mock import AsyncMock, Mock, patch

from hunt_common_c42 import VirtualClock, telegram
from xknx import XKNX
from xknx.core import XknxConnectionState
from xknx.devices import Switch
from xknx.exceptions import CommunicationError


def _interface_mock() -> Mock:
    mock = Mock()
    mock.start = AsyncMock()
    mock.stop = AsyncMock()
    mock.send_cemi = AsyncMock()
    return mock


async def test_reset_that_expires_during_a_short_link_outage_is_not_lost():
    clock = VirtualClock()
    try:
        send = AsyncMock()
        with (
            patch("xknx.xknx.knx_interface_factory", return_value=_interface_mock()),
            patch("xknx.cemi.cemi_handler.CEMIHandler.send_telegram", send),
        ):
            xknx = XKNX()
            switch = Switch(xknx, "pulse", group_address="1/2/3", reset_after=1.0)
            xknx.devices.async_add(switch)
            await xknx.start()
            xknx.connection_manager.connection_state_changed(
                XknxConnectionState.CONNECTED
            )
            await clock.settle()
            xknx.telegrams.put_nowait(telegram(True))  # t=0 'on'
            await clock.advance(0.5)
            assert switch.state is True
            # t=0.5 .. 1.5: the tunnel is down (reconnecting) - sending raises
            send.side_effect = CommunicationError("KNX/IP interface not connected")
            xknx.connection_manager.connection_state_changed(
                XknxConnectionState.DISCONNECTED
            )
            await clock.advance(1.0)
            send.side_effect = None  # link is back at t=1.5
            xknx.connection_manager.connection_state_changed(
                XknxConnectionState.CONNECTED
            )
            await clock.advance(8.5)
            state = switch.state
            pending = not switch._reset_task.done()
            sent_off = [
                c.args[0] for c in send.call_args_list if c.args[0].payload.value.value == 0
            ]
            await xknx.stop()
        assert state is False, (
            f"Switch(reset_after=1.0): last 'on' telegram at t=0, link down from 0.5 s to 1.5 s; at "
            f"t={clock.now} the switch still reports state={state}, reset timer pending={pending}, "
            f"'off' telegrams attempted={len(sent_off)}. The property requires the switch to report "
            "'off' reset_after after the last 'on'; the single attempt at t=1.0 was dropped with a "
            "warning and nothing ever retries, so the output stays energised until somebody else "
            "switches it."
        )
    finally:
        clock.restore()
