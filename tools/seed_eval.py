#!/usr/bin/env python3
"""Confirm a seeded change delivered by a sub-agent and record it under /verif/seeded/<id>/.

usage: tools/seed_eval.py <PID> <worktree> <k> [--checks C01,C02,...]
Steps (all in the scratch worktree, never in /repo except the final check run which is undone):
  1 demo on clean worktree must pass; 2 apply variant<k>.diff; demo must fail; full suite must show only the
  2 pre-existing failures; 3 revert.  4 apply to /repo, run the checks, `git checkout -- .`.
"""
import json, os, re, shutil, subprocess, sys, pathlib

PRE = {"test_start_automatic_connection", "test_lifecycle"}

def sh(cmd, cwd, timeout=900):
    r = subprocess.run(cmd, cwd=cwd, shell=True, capture_output=True, text=True, timeout=timeout)
    return r.returncode, (r.stdout + r.stderr)

def main():
    pid, wt, k = sys.argv[1], sys.argv[2], sys.argv[3]
    checks = None
    if "--checks" in sys.argv:
        checks = sys.argv[sys.argv.index("--checks") + 1].split(",")
    diff = f"{wt}/variant{k}.diff"; demo = f"{wt}/demo{k}.py"
    assert os.path.exists(diff) and os.path.exists(demo), "deliverables missing"
    py = "/venv/bin/python"
    sh("git checkout -- xknx", wt)
    head = subprocess.run(["git", "-C", "/repo", "rev-parse", "HEAD"], capture_output=True, text=True).stdout.strip()
    sh(f"git checkout -q --detach {head}", wt)  # confirm against the current /repo HEAD (fix commits may have landed since the seed was written)
    demo_cmd = f"{py} -m pytest -q -p no:cacheprovider demo{k}.py" if "def test_" in open(demo).read() else f"{py} demo{k}.py"
    rc_clean, out_clean = sh(demo_cmd, wt)
    rc, out = sh(f"git apply --whitespace=nowarn variant{k}.diff", wt)
    if rc != 0:
        rc, out = sh(f"git apply -3 --whitespace=nowarn variant{k}.diff", wt)
        if rc != 0:
            print("APPLY FAILED", out); return 1
        sh("git reset -q", wt)
        print("(patch rebased onto the current HEAD with a 3-way apply)")
    rc, eff = sh("git diff HEAD -- xknx", wt)
    diff = f"{wt}/variant{k}.effective.diff"
    open(diff, "w").write(eff)
    rc_mut, out_mut = sh(demo_cmd, wt)
    rc_suite, out_suite = sh(f"{py} -m pytest -q -p no:cacheprovider --timeout=900 -x --deselect test/io_tests/knxip_interface_test.py::TestKNXIPInterface::test_start_automatic_connection --deselect test/io_tests/secure_session_test.py::TestSecureSession::test_lifecycle", wt)
    suite_tail = out_suite.strip().splitlines()[-1] if out_suite.strip() else ""
    sh("git checkout -- xknx", wt)
    print(f"demo clean rc={rc_clean}  demo changed rc={rc_mut}  suite rc={rc_suite} [{suite_tail}]")
    confirmed = rc_clean == 0 and rc_mut != 0 and rc_suite == 0
    # checks against /repo with the change applied
    rc, out = sh(f"git apply --whitespace=nowarn {diff}", "/repo")
    results = {}
    if rc != 0:
        print("APPLY TO /repo FAILED", out)
    else:
        try:
            man = json.load(open("/verif/MANIFEST.json"))
            ids = checks or [c["property_id"] for c in man["checks"]]
            for cid in ids:
                env = dict(os.environ, VERIF_EVIDENCE_DIR="/tmp/seed_ev")
                r = subprocess.run(["/verif/check", cid], capture_output=True, text=True, env=env)
                results[cid] = r.returncode
                if r.returncode != 0:
                    lines = [l for l in r.stdout.splitlines() if l.startswith(("  FAIL", "       ", "VIOLATION", "ANALYSIS-ERROR"))]
                    print(f"--- {cid} rc={r.returncode}"); print("\n".join(l[:240] for l in lines[:8]))
        finally:
            sh("git checkout -- .", "/repo")
            shutil.rmtree("/tmp/seed_ev", ignore_errors=True)
    caught = sorted(c for c, v in results.items() if v == 1)
    broken = sorted(c for c, v in results.items() if v == 2)
    print(f"confirmed={confirmed} caught_by={caught} analysis_error={broken}")
    dest = pathlib.Path(f"/verif/seeded/{pid}-{k}")
    if confirmed:
        dest.mkdir(parents=True, exist_ok=True)
        shutil.copy(diff, dest / "patch.diff"); shutil.copy(demo, dest / f"demo.py")
        rep = pathlib.Path(wt) / "SEED_REPORT.md"
        if rep.exists():
            shutil.copy(rep, dest / "SEED_REPORT.md")
        meta = {"property": pid, "variant": int(k), "confirmed_by": "tools/seed_eval.py in scratch worktree: demo passes on clean tree, fails with patch; full suite (minus the 2 sandbox failures) passes with patch",
                "demo_cmd": demo_cmd.replace(f"demo{k}.py", "demo.py"), "suite_result_with_patch": suite_tail,
                "caught_by": caught, "analysis_error": broken, "needs": "see SEED_REPORT.md (section for this variant)"}
        (dest / "meta.json").write_text(json.dumps(meta, indent=1) + "\n")
    return 0

sys.exit(main())
