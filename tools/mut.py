#!/venv/bin/python
"""Developer self-test helper: run a check against a scratch copy of /repo/xknx with one textual edit.

usage: tools/mut.py Cxx path/in/repo.py 'old' 'new' [--count N]   (exit code = check's)
The scratch copy lives under a fresh tempdir and is removed afterwards.
"""
import os, shutil, subprocess, sys, tempfile

def main():
    pid, rel, old, new = sys.argv[1:5]
    tmp = tempfile.mkdtemp(prefix="xkmut_")
    try:
        shutil.copytree("/repo/xknx", os.path.join(tmp, "xknx"), ignore=shutil.ignore_patterns("__pycache__"))
        p = os.path.join(tmp, rel)
        s = open(p).read()
        if s.count(old) != 1:
            print(f"MUT-ERROR: pattern occurs {s.count(old)} times"); return 3
        open(p, "w").write(s.replace(old, new))
        # the mutant must still be valid python
        compile(open(p).read(), p, "exec")
        env = dict(os.environ, VERIF_REPO=tmp, VERIF_EVIDENCE_DIR=os.path.join(tmp, "ev"))
        r = subprocess.run(["/verif/check", pid], env=env, capture_output=True, text=True)
        out = r.stdout.strip().splitlines()
        shown = 0
        for l in out:
            if l.startswith(("VIOLATION", "ANALYSIS-ERROR", "[")):
                print(l[:300])
            elif l.startswith(("  FAIL", "       ")) and shown < int(os.environ.get("MUT_SHOW", "9")):
                print(l[:260]); shown += 1
        print("rc=", r.returncode)
        if r.stderr.strip():
            print(r.stderr[-2000:])
        return r.returncode
    finally:
        shutil.rmtree(tmp, ignore_errors=True)

sys.exit(main())
