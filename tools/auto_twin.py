#!/usr/bin/env python3
"""see sa/autotwin.py"""
import runpy, sys
sys.path.insert(0, "/verif")
runpy.run_module("sa.autotwin", run_name="__main__")
