#!/usr/bin/env python3
"""Regenerate MANIFEST.json from tools/claims.json (single source of truth for claims / not-applicable)."""
import json, pathlib
V = pathlib.Path(__file__).resolve().parent.parent
claims = json.loads((V / "tools" / "claims.json").read_text())
props = [json.loads(l)["id"] for l in (V / "properties.jsonl").read_text().splitlines() if l.strip()]
checks, na = [], []
for pid in props:
    c = claims.get(pid)
    if c is None:
        na.append({"property_id": pid, "reason": "check not built yet (work in progress; see DESIGN.md for the planned rule)"})
    elif "not_applicable" in c:
        na.append({"property_id": pid, "reason": c["not_applicable"]})
    else:
        checks.append({
            "property_id": pid,
            "quick_cmd": f"./check {pid} --tier quick",
            "thorough_cmd": f"./check {pid} --tier thorough",
            "evidence_file": f"evidence/{pid}.json",
            "replay_cmd_template": "cat {path}",
            "engine": c.get("engine", "sa"),
            "level_claimed": {"category": "other", "text": c["text"], "design_ref": f"DESIGN.md §4 {pid}"},
            "level_note": c["note"],
            "technique": c["technique"],
        })
m = {
    "version": 1,
    "setup_cmd": "/venv/bin/python -B -c \"import ast, sys; sys.path.insert(0, '/verif'); import sa.loader, sa.cfg; print('sa ok')\"",
    "hooks": {
        "guard": "XKNX_VERIF",
        "enable": "none needed: static analysis reads /repo's sources; no instrumentation is compiled in",
        "baseline_off_cmd": "cd /repo && /venv/bin/python -m pytest -q -p no:cacheprovider --timeout=900",
        "source_commits": [],
        "add_only": True,
    },
    "engines": [
        {"name": "sa", "path": "sa/", "serves_properties": [c["property_id"] for c in checks],
         "kind_free_text": "repository-specific static analysis over Python ast: loader/class table/constant folding, hand-built CFG with exceptional edges and dominators, abstract path enumeration, ownership census, decision-table extraction, may-raise and bit-provenance analyses"}
    ],
    "checks": checks,
    "notes": "All checks are static (no xknx code is imported or executed). Exit 0 held / 1 VIOLATION / 2 ANALYSIS-ERROR (vanished anchor, floor not met, unsupported construct).",
    "not_applicable": na,
}
(V / "MANIFEST.json").write_text(json.dumps(m, indent=1) + "\n")
print(f"claimed {len(checks)}  not_applicable {len(na)}")
