#!/usr/bin/env python3
"""Print the prompt for a seeding sub-agent: property text + its scratch worktree. Nothing from /verif's machinery."""
import json, sys
pid, wt = sys.argv[1], sys.argv[2]
k1 = int(sys.argv[3]) if len(sys.argv) > 3 else 1
k2 = k1 + 1
ROUND2 = '' if k1 == 1 else (' Other engineers have already delivered the most obvious breakages for this property (a flipped comparison, a dropped check or a changed constant in the most central function). Find LESS OBVIOUS ones: helper functions, sibling implementations of the same interface, callers and wiring, initialisation / configuration / teardown paths, rarely taken branches, error paths, or a second site that must stay consistent with a first.')
for l in open('/verif/properties.jsonl'):
    p = json.loads(l)
    if p['id'] == pid:
        break
print(f"""You are helping to evaluate verification tooling for the open-source Python library XKNX/xknx (asynchronous KNX/IP library). You work ONLY inside the scratch git worktree {wt} (a checkout of the repository). Do not read, list or touch /verif or /repo; nothing there is for you.

Python: /venv/bin/python (3.12, all dependencies installed). From inside {wt}, `import xknx` resolves to {wt}/xknx. Run the test suite with:
  cd {wt} && /venv/bin/python -m pytest -q -p no:cacheprovider --timeout=900
(about 11 s; on the UNCHANGED tree 3893 tests pass and exactly 2 fail for sandbox reasons: test_start_automatic_connection and TestSecureSession::test_lifecycle. Ignore those two.)

PROPERTY ({p['id']}: {p['title']})
{p['statement']}
Quantified over: {p['quantifier']['text']}
Code areas involved: {', '.join(p['anchors']['files'])}

TASK
Produce TWO different, independent changes (variant {k1} and variant {k2}) to the library source under {wt}/xknx, each of which BREAKS the property above while (a) the package still imports/compiles, and (b) the existing test suite still passes exactly as before (same 2 pre-existing failures only, no new failures). Each change should look like something a developer could plausibly introduce (a refactor, an 'optimisation', an off-by-one, a reordered statement, a narrowed/widened condition, a guard moved, a handler changed ...), NOT an obviously malicious edit, and it must need something SPECIFIC to manifest: a particular interleaving or schedule, a fault at a particular point, a multi-step sequence of operations, an unusual input, a particular configuration, or two cooperating sites that each look fine alone. Changes that ordinary use would expose at once are not wanted. Prefer the two variants to break different clauses of the property and to touch different functions. Keep each change small (a few lines).{ROUND2}

For each variant k in ({k1}, {k2}) deliver, in {wt}:
  - variant<k>.diff : `git diff` output against HEAD containing ONLY the change to files under xknx/ (apply-able with `git apply` on a clean checkout)
  - demo<k>.py      : a demonstration (pytest-style test file runnable with `/venv/bin/python -m pytest -q -p no:cacheprovider demo<k>.py`, or a plain script exiting non-zero on failure) that FAILS with variant k applied and PASSES on the unchanged tree. It should exercise the real library code (real classes/functions, asyncio where needed, mocks only at the network boundary), showing the property violation through observable behaviour.
  - a section in SEED_REPORT.md: which clause of the property it breaks and why, what it needs in order to manifest, the exact commands you ran and their results (demo on changed tree = fail, demo on clean tree = pass, full suite on changed tree = only the 2 pre-existing failures).
You must actually run all of that yourself and only report what you observed. Work with one variant applied at a time: save each variant as its diff file first, then switch with `git apply variant<k>.diff` / `git apply -R variant<k>.diff` / `git checkout -- xknx`. NEVER use `git stash` (the stash is shared with other worktrees of this repository that other people are using concurrently); at the end leave the worktree's xknx/ directory CLEAN (no variant applied) with the four files and the report present (untracked). Do not commit anything. If after serious effort only one variant is possible, deliver one and say so.""")
