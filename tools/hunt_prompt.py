#!/usr/bin/env python3
"""Prompt for a defect-hunting sub-agent: property text + scratch worktree; asks for inputs / schedules / histories on
which the UNCHANGED library violates the property.  Nothing from /verif's machinery."""
import json, sys
pid, wt = sys.argv[1], sys.argv[2]
for l in open('/verif/properties.jsonl'):
    p = json.loads(l)
    if p['id'] == pid:
        break
print(f"""You are reviewing the open-source Python library XKNX/xknx (asynchronous KNX/IP library) for genuine defects. You work ONLY inside the scratch git worktree {wt} (a checkout of the repository). Do not read, list or touch /verif or /repo; do not use `git stash`; do not commit.

Python: /venv/bin/python (3.12, all dependencies installed). From inside {wt}, `import xknx` resolves to {wt}/xknx. The test suite runs with
  cd {wt} && /venv/bin/python -m pytest -q -p no:cacheprovider --timeout=900
(about 11 s; 3893 tests pass, exactly 2 fail for sandbox reasons: test_start_automatic_connection and TestSecureSession::test_lifecycle - ignore them).

PROPERTY ({p['id']}: {p['title']})
{p['statement']}
Quantified over: {p['quantifier']['text']}
Code areas involved: {', '.join(p['anchors']['files'])}

TASK
The property is meant to hold for EVERY input, schedule, fault point and history, not only the ones the test suite samples. Find concrete inputs / event schedules / operation histories on which the UNCHANGED library violates it. Read the code areas above and their callers carefully; think about: unusual but legal inputs and boundary values, event-loop interleavings (two things arriving in the same loop iteration, something arriving while a coroutine is suspended at an await, callbacks that re-enter or unregister, cancellation at each await), restart / reconnect / repeat-use histories, error paths and their cleanup, state that one path updates and a sibling path forgets, counters at their wrap-around. Do NOT modify the library.

For every defect k = 1, 2, ... (aim for up to 4, quality over quantity; zero is an acceptable, honest answer) deliver in {wt}:
  - hunt<k>.py : a pytest-style test file (`/venv/bin/python -m pytest -q -p no:cacheprovider hunt<k>.py`) or plain script exiting non-zero, which FAILS on the unchanged tree because the property is violated, exercising the real library code (real classes, asyncio, mocks only at the network boundary / clock). The assertion message must say what was observed and what the property requires.
  - a section in HUNT_REPORT.md: the clause violated, the exact input/schedule/history, the root cause (file, function, statement), why the existing tests miss it, how realistic the trigger is, and the smallest fix you would propose (as a diff snippet in the report only - do not apply it; if you try it out, revert it with `git checkout -- xknx`).
Only report what you actually ran and observed. Do not report behaviour that merely looks odd but does not contradict the property text. If an existing test explicitly pins the behaviour you consider wrong, say so. Leave {wt}/xknx CLEAN at the end.""")
