#!/bin/bash
# run every registered quick check on /repo (or $1) in parallel; print only the ones that do not pass
root=${1:-/repo}
ids=$(jq -r '.checks[].property_id' /verif/MANIFEST.json)
run() { if [ "$2" = "/repo" ]; then out=$(/verif/check $1 --tier quick 2>&1); else out=$(VERIF_REPO=$2 VERIF_EVIDENCE_DIR=$2/ev /verif/check $1 --tier quick 2>&1); fi; rc=$?; [ $rc -ne 0 ] && echo "$1 rc=$rc $(echo "$out" | grep -m1 'FAIL\|ANALYSIS-ERROR' | cut -c1-160)"; }
export -f run
echo $ids | tr ' ' '\n' | xargs -P 12 -I{} bash -c "run {} $root" | sort
echo "run_all done ($root)"
