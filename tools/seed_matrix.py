#!/usr/bin/env python3
"""Run every registered check against every stored seeded change, each on its own scratch copy of /repo/xknx
(VERIF_REPO), 16 seeds in parallel; /repo itself is not touched.  Updates seeded/<id>/meta.json caught_by /
analysis_error.  usage: tools/seed_matrix.py [seed-id ...] [--checks C01,C02]"""
import json, os, pathlib, shutil, subprocess, sys, tempfile
from concurrent.futures import ThreadPoolExecutor

V = pathlib.Path("/verif")
man = json.load(open(V / "MANIFEST.json"))
ids = [c["property_id"] for c in man["checks"]]
args = sys.argv[1:]
if "--checks" in args:
    i = args.index("--checks")
    ids = args[i + 1].split(",")
    del args[i:i + 2]
seeds = sorted(p.name for p in (V / "seeded").iterdir() if (p / "patch.diff").exists())
if args:
    seeds = [s for s in seeds if s in args or s.split('-')[0] in args]


def one(s: str):
    d = V / "seeded" / s
    tmp = pathlib.Path(tempfile.mkdtemp(prefix="xkseed_"))
    try:
        shutil.copytree("/repo/xknx", tmp / "xknx", ignore=shutil.ignore_patterns("__pycache__"))
        r = subprocess.run(["git", "apply", "--whitespace=nowarn", str(d / "patch.diff")], cwd=tmp, capture_output=True, text=True)
        if r.returncode != 0:
            return s, None, r.stderr.strip()[:200]
        res = {}
        for cid in ids:
            env = dict(os.environ, VERIF_REPO=str(tmp), VERIF_EVIDENCE_DIR=str(tmp / "ev"), VERIF_TIER="quick")
            res[cid] = subprocess.run([str(V / "check"), cid, "--tier", "quick"], env=env, capture_output=True, text=True).returncode
        return s, res, ""
    finally:
        shutil.rmtree(tmp, ignore_errors=True)


missed = []
with ThreadPoolExecutor(16) as ex:
    for s, res, err in ex.map(one, seeds):
        if res is None:
            print(s, "APPLY FAILED (run tools/seed_recheck.py to rebase):", err)
            continue
        caught = sorted(c for c, v in res.items() if v == 1)
        broken = sorted(c for c, v in res.items() if v == 2)
        mp = V / "seeded" / s / "meta.json"
        m = json.load(open(mp))
        if len(ids) == len(man["checks"]):
            m["caught_by"], m["analysis_error"] = caught, broken
            json.dump(m, open(mp, "w"), indent=1)
        if not caught:
            missed.append(s)
        print(f"{s:8s} target={m['property']} caught_by={caught} analysis_error={broken}", flush=True)
print("MISSED:", missed)
