#!/usr/bin/env python3
"""Re-confirm every stored seeded change against the CURRENT /repo HEAD in a scratch worktree: the demonstration passes
on the clean tree and fails with the (rebased) patch applied.  Records `reconfirmed_at` / `reconfirm` in meta.json.
usage: tools/seed_reconfirm.py [seed-id ...]"""
import json, pathlib, shutil, subprocess, sys
V = pathlib.Path("/verif")
WT = "/tmp/seed_reconfirm_wt"
seeds = sorted(p.name for p in (V / "seeded").iterdir() if (p / "patch.diff").exists())
if len(sys.argv) > 1:
    seeds = [s for s in seeds if s in sys.argv[1:] or s.split('-')[0] in sys.argv[1:]]
head = subprocess.run(["git", "-C", "/repo", "rev-parse", "--short", "HEAD"], capture_output=True, text=True).stdout.strip()
subprocess.run(["git", "-C", "/repo", "worktree", "remove", "--force", WT], capture_output=True)
subprocess.run(["git", "-C", "/repo", "worktree", "add", "-q", "--detach", WT, "HEAD"], check=True)
bad = []
try:
    for s in seeds:
        d = V / "seeded" / s
        m = json.loads((d / "meta.json").read_text())
        shutil.copy(d / "demo.py", f"{WT}/demo.py")
        cmd = m.get("demo_cmd", "/venv/bin/python -m pytest -q -p no:cacheprovider demo.py").split()
        def run():
            try:
                return subprocess.run(cmd, cwd=WT, capture_output=True, text=True, timeout=600).returncode
            except subprocess.TimeoutExpired:
                return 124
        rc_clean = run()
        ap = subprocess.run(["git", "apply", "--whitespace=nowarn", str(d / "patch.diff")], cwd=WT, capture_output=True, text=True)
        rc_mut = run() if ap.returncode == 0 else None
        subprocess.run(["git", "checkout", "-q", "--", "xknx"], cwd=WT)
        ok = rc_clean == 0 and rc_mut not in (0, None)
        m["reconfirm"] = {"head": head, "demo_clean_rc": rc_clean, "demo_patched_rc": rc_mut, "ok": ok}
        (d / "meta.json").write_text(json.dumps(m, indent=1) + "\n")
        print(f"{s:8s} clean={rc_clean} patched={rc_mut} {'ok' if ok else 'NOT CONFIRMED'}", flush=True)
        if not ok:
            bad.append(s)
finally:
    subprocess.run(["git", "-C", "/repo", "worktree", "remove", "--force", WT], capture_output=True)
print("NOT CONFIRMED:", bad)
