#!/usr/bin/env python3
"""Re-run all registered checks against every stored seeded change (patch applied to /repo, undone afterwards)
and update seeded/<id>/meta.json 'caught_by'.  usage: tools/seed_recheck.py [seed-id ...]"""
import json, os, pathlib, shutil, subprocess, sys
from concurrent.futures import ThreadPoolExecutor
V = pathlib.Path("/verif")
man = json.load(open(V / "MANIFEST.json"))
ids = [c["property_id"] for c in man["checks"]]
seeds = sorted(p.name for p in (V / "seeded").iterdir() if (p / "patch.diff").exists())
if len(sys.argv) > 1:
    seeds = [s for s in seeds if s in sys.argv[1:] or s.split('-')[0] in sys.argv[1:]]
assert subprocess.run(["git", "-C", "/repo", "status", "--porcelain"], capture_output=True, text=True).stdout.strip() == "", "/repo not clean"
summary = {}
for s in seeds:
    d = V / "seeded" / s
    r = subprocess.run(["git", "-C", "/repo", "apply", "--whitespace=nowarn", str(d / "patch.diff")], capture_output=True, text=True)
    if r.returncode != 0:
        r = subprocess.run(["git", "-C", "/repo", "apply", "-3", "--whitespace=nowarn", str(d / "patch.diff")], capture_output=True, text=True)
        if r.returncode != 0 or "with conflicts" in r.stderr:
            subprocess.run(["git", "-C", "/repo", "reset", "-q", "--hard", "HEAD"], check=True)
            print(s, "APPLY FAILED", r.stderr[:200]); continue
        subprocess.run(["git", "-C", "/repo", "reset", "-q"], check=True)
        # keep the stored patch applicable to the current HEAD
        eff = subprocess.run(["git", "-C", "/repo", "diff", "HEAD", "--", "xknx"], capture_output=True, text=True).stdout
        (d / "patch.diff").write_text(eff)
        print(s, "(patch rebased onto current HEAD)")
    try:
        def run(cid):
            env = dict(os.environ, VERIF_EVIDENCE_DIR=f"/tmp/seed_ev_{cid}")
            rc = subprocess.run([str(V / "check"), cid], capture_output=True, text=True, env=env).returncode
            shutil.rmtree(f"/tmp/seed_ev_{cid}", ignore_errors=True)
            return cid, rc
        with ThreadPoolExecutor(8) as ex:
            res = dict(ex.map(run, ids))
    finally:
        subprocess.run(["git", "-C", "/repo", "checkout", "--", "."], check=True)
    caught = sorted(c for c, v in res.items() if v == 1)
    broken = sorted(c for c, v in res.items() if v == 2)
    m = json.load(open(d / "meta.json"))
    m["caught_by"], m["analysis_error"] = caught, broken
    json.dump(m, open(d / "meta.json", "w"), indent=1)
    summary[s] = (caught, broken)
    print(f"{s:8s} target={m['property']} caught_by={caught} analysis_error={broken}")
missed = [s for s, (c, b) in summary.items() if not c]
print("MISSED:", missed)
