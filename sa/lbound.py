"""Integer lower bounds of expressions / return values (used for parse-loop progress and consumed-length rules).

`LowerBound.expr(an, e, at)` is a sound lower bound of the integer value of expression `e` evaluated at AST node
`at` of the function analysed by `an` (a mayraise._FuncAnalysis: types, CFG must-facts, class context), or NEG when
nothing is known.  Sources: folded constants; `len(..)`/octet subscripts >= 0; sums; dominating comparison guards
(`x < K` false => x >= K ...); single-assignment locals; instance attributes through the census of their writers;
calls through the min over the resolved callees' return statements (bounded depth).
"""

from __future__ import annotations

import ast

from .astx import attr_writes, call_name, walk_local
from .loader import ClassInfo, FuncInfo, Module
from .mayraise import MayRaise, _FuncAnalysis, kinds

NEG = -(10 ** 9)


def _cmp_lb(atom: str, val: bool, text: str, fold) -> int:
    """lower bound for `text` implied by atom (unparse text of a single comparison) having truth `val`."""
    try:
        e = ast.parse(atom, mode="eval").body
    except SyntaxError:
        return NEG
    if not isinstance(e, ast.Compare) or len(e.ops) != 1:
        return NEG
    l, r = ast.unparse(e.left), ast.unparse(e.comparators[0])
    op = type(e.ops[0])
    if r == text and l != text:
        l, r = r, l
        e_other = e.left
        op = {ast.Lt: ast.Gt, ast.Gt: ast.Lt, ast.LtE: ast.GtE, ast.GtE: ast.LtE}.get(op, op)
    elif l == text:
        e_other = e.comparators[0]
    else:
        return NEG
    k = fold(e_other)
    if not isinstance(k, int) or isinstance(k, bool):
        return NEG
    if not val:
        op = {ast.Lt: ast.GtE, ast.GtE: ast.Lt, ast.Gt: ast.LtE, ast.LtE: ast.Gt, ast.Eq: ast.NotEq, ast.NotEq: ast.Eq}.get(op, op)
    if op is ast.GtE or op is ast.Eq:
        return k
    if op is ast.Gt:
        return k + 1
    return NEG


class LowerBound:
    def __init__(self, mr: MayRaise, max_depth: int = 4) -> None:
        self.mr = mr
        self.repo = mr.repo
        self.max_depth = max_depth
        self.memo: dict[tuple[str, str], int] = {}
        self.trace: list[str] = []

    def analysis(self, fi: FuncInfo, ctx: ClassInfo | None = None) -> _FuncAnalysis:
        return _FuncAnalysis(self.mr, fi, ctx or fi.cls)

    # ------------------------------------------------------------ return values
    def ret(self, fi: FuncInfo, ctx: ClassInfo | None = None, depth: int = 0) -> int:
        ctx = ctx or fi.cls
        key = (fi.ref, ctx.ref if ctx else "")
        if key in self.memo:
            return self.memo[key]
        if depth > self.max_depth:
            return NEG
        self.memo[key] = NEG  # recursion guard
        an = self.analysis(fi, ctx)
        rets = [n for n in walk_local(fi.node) if isinstance(n, ast.Return)]
        if not rets:
            out = NEG
        else:
            out = min((self.expr(an, r.value, r, depth + 1) if r.value is not None else NEG) for r in rets)
        self.memo[key] = out
        self.trace.append(f"{fi.qualname}{'@' + ctx.name if ctx and ctx is not fi.cls else ''} returns >= {out if out > NEG else '?'}")
        return out

    def post_attr(self, fi: FuncInfo, attr_text: str, ctx: ClassInfo | None = None) -> int:
        """lower bound of `attr_text` (e.g. 'self.total_length') guaranteed at every normal return of fi."""
        an = self.analysis(fi, ctx)
        exits = [n for n in walk_local(fi.node) if isinstance(n, ast.Return)]
        if an.cfg.falls_off_end():
            return NEG  # implicit fall-through return: not modelled
        if not exits:
            return NEG
        return min(self.facts_lb(an, attr_text, r) for r in exits)

    # -------------------------------------------------------------- expressions
    def facts_lb(self, an: _FuncAnalysis, text: str, at: ast.AST) -> int:
        lb = NEG
        fold = lambda x: self.repo.fold(x, an.mod, an.ctx)  # noqa: E731
        for atom, val in an.facts(at):
            lb = max(lb, _cmp_lb(atom, val, text, fold))
        return lb

    def expr(self, an: _FuncAnalysis, e: ast.AST | None, at: ast.AST, depth: int = 0) -> int:
        if e is None:
            return NEG
        v = self.repo.fold(e, an.mod, an.ctx)  # type: ignore[arg-type]
        if isinstance(v, bool):
            return int(v)
        if isinstance(v, int):
            return v
        lb = self.facts_lb(an, ast.unparse(e), at)
        if isinstance(e, ast.BinOp):
            a, b = self.expr(an, e.left, at, depth), self.expr(an, e.right, at, depth)
            if isinstance(e.op, ast.Add) and a > NEG and b > NEG:
                lb = max(lb, a + b)
            elif isinstance(e.op, ast.Mult) and a >= 0 and b >= 0:
                lb = max(lb, a * b)
            elif isinstance(e.op, (ast.Mod, ast.BitAnd, ast.RShift, ast.BitOr, ast.LShift, ast.FloorDiv)) and a >= 0 and b >= 0:
                lb = max(lb, 0)
            return lb
        if isinstance(e, ast.IfExp):
            return max(lb, min(self.expr(an, e.body, at, depth), self.expr(an, e.orelse, at, depth)))
        if isinstance(e, ast.Subscript) and not isinstance(e.slice, ast.Slice):
            bt = kinds(an.typ(e.value))
            if bt and bt <= {"bytes", "bytearray"}:
                return max(lb, 0)
            return lb
        if isinstance(e, ast.Call):
            name = call_name(e)
            if name == "len" and len(e.args) == 1:
                lb = max(lb, 0)
                for ci in an.classes_of_type(an.typ(e.args[0])):
                    m = self.repo.lookup_method(ci, "__len__")
                    if m is not None and depth <= self.max_depth:
                        lb = max(lb, self.ret(m, ci, depth + 1))
                return lb
            if name in ("int.from_bytes", "abs", "ord"):
                return max(lb, 0)
            tg = [(f, c) for f, c in self.callees(an, e) if not any("abstractmethod" in d for d in f.decorators)]
            if tg and depth <= self.max_depth:
                return max(lb, min(self.ret(f, c, depth + 1) for f, c in tg))
            return lb
        if isinstance(e, ast.Name):
            defs = [n for n in walk_local(an.fi.node) if isinstance(n, (ast.Assign, ast.AnnAssign, ast.AugAssign, ast.For, ast.NamedExpr, ast.With, ast.AsyncWith))
                    and any(isinstance(t, ast.Name) and t.id == e.id and isinstance(t.ctx, ast.Store) for t in ast.walk(n))]
            if len(defs) == 1 and isinstance(defs[0], (ast.Assign, ast.AnnAssign)) and defs[0].value is not None:
                tgt = defs[0].targets[0] if isinstance(defs[0], ast.Assign) else defs[0].target
                if isinstance(tgt, ast.Name) and (not isinstance(defs[0], ast.Assign) or len(defs[0].targets) == 1):
                    lb = max(lb, self.expr(an, defs[0].value, defs[0], depth + 1))
            return lb
        if isinstance(e, ast.Attribute):
            # instance attribute: min over every writer in the owning class hierarchy
            owners: list[ClassInfo] = []
            if isinstance(e.value, ast.Name) and e.value.id == "self" and an.ctx is not None:
                owners = [an.ctx]
            else:
                owners = an.classes_of_type(an.typ(e.value))
            if owners and depth <= self.max_depth:
                vals: list[int] = []
                fam = {c.ref for o in owners for c in self.repo.mro(o)} | {c.ref for o in owners for c in self.repo.subclasses(o)}
                for w in attr_writes(self.repo, e.attr, include_mutators=False):
                    if w.func.cls is None or w.func.cls.ref not in fam:
                        if w.receiver != "self":
                            vals.append(NEG)  # a foreign writer through some other receiver: may alias
                        continue
                    st = w.stmt
                    if w.receiver == "self" and w.kind == "assign" and isinstance(st, (ast.Assign, ast.AnnAssign)) and st.value is not None \
                            and not (isinstance(st, ast.Assign) and (len(st.targets) != 1 or isinstance(st.targets[0], (ast.Tuple, ast.List)))):
                        wan = self.analysis(w.func, w.func.cls)
                        vals.append(self.expr(wan, st.value, st, depth + 1))
                    else:
                        vals.append(NEG)
                if vals:
                    lb = max(lb, min(vals))
            return lb
        return lb

    def callees(self, an: _FuncAnalysis, c: ast.Call) -> list[tuple[FuncInfo, ClassInfo | None]]:
        f = c.func
        repo = self.repo
        if isinstance(f, ast.Name):
            t = repo.resolve(an.mod.name, f.id)
            return [(t, None)] if isinstance(t, FuncInfo) else []
        if not isinstance(f, ast.Attribute):
            return []
        base = f.value
        out: list[tuple[FuncInfo, ClassInfo | None]] = []
        if isinstance(base, ast.Name) and base.id in ("self", "cls") and an.ctx is not None:
            m = repo.lookup_method(an.ctx, f.attr)
            if m is not None:
                out.append((m, an.ctx))
            for sub in repo.subclasses(an.ctx, strict=True):
                if f.attr in sub.methods:
                    out.append((sub.methods[f.attr], sub))
            return out
        tgt = repo.resolve_expr(an.mod, base)
        if isinstance(tgt, ClassInfo):
            m = repo.lookup_method(tgt, f.attr)
            return [(m, tgt)] if m is not None else []
        if isinstance(tgt, Module):
            t2 = repo.resolve(tgt.name, f.attr)
            return [(t2, None)] if isinstance(t2, FuncInfo) else []
        for ci in an.classes_of_type(an.typ(base)):
            m = repo.lookup_method(ci, f.attr)
            if m is not None:
                out.append((m, ci))
            for sub in repo.subclasses(ci, strict=True):
                if f.attr in sub.methods:
                    out.append((sub.methods[f.attr], sub))
        return out
