"""Statement-level control-flow graph for one Python function (hand-built).

Nodes: entry / exit (normal return) / raise (exceptional exit) / stmt (simple
statement) / test (atomic condition, edges 'true'/'false') / for (loop header,
edges 'iter'/'done') / with / with_exit / handler / join.
Compound conditions are split into short-circuit atoms so that every guard is an
edge.  `finally` bodies are copied per continuation kind (normal, exception,
return, break, continue).  Exceptional edges ('exc') leave every may-raise node
to the enclosing handlers / finally / the raise exit.
Nested function bodies, lambdas and comprehensions are opaque (own CFGs).
"""

from __future__ import annotations

import ast
from dataclasses import dataclass, field
from typing import Callable, Iterable

from .loader import AnalysisError


@dataclass
class Node:
    id: int
    kind: str
    ast: ast.AST | None = None
    succ: list[tuple[int, str]] = field(default_factory=list)
    pred: list[tuple[int, str]] = field(default_factory=list)
    copy_of: str = ""  # "" | "finally:<kind>"
    withs: tuple[ast.AST, ...] = ()  # enclosing with-statements (lexical)
    tries: tuple[ast.AST, ...] = ()  # enclosing try bodies (lexical, body part only)
    handlers: tuple[ast.AST, ...] = ()  # enclosing except handlers
    loops: tuple[ast.AST, ...] = ()

    @property
    def lineno(self) -> int:
        return getattr(self.ast, "lineno", 0)

    def text(self) -> str:
        if self.ast is None:
            return self.kind
        if self.kind == "for":
            a = self.ast
            return f"for {ast.unparse(a.target)} in {ast.unparse(a.iter)}"  # type: ignore[attr-defined]
        if self.kind == "with":
            return "with " + ", ".join(ast.unparse(i) for i in self.ast.items)  # type: ignore[attr-defined]
        if self.kind == "with_exit":
            return "end-with " + ", ".join(ast.unparse(i) for i in self.ast.items)  # type: ignore[attr-defined]
        if self.kind == "handler":
            t = self.ast.type  # type: ignore[attr-defined]
            return "except " + (ast.unparse(t) if t is not None else "")
        return ast.unparse(self.ast)


def _contains(node: ast.AST, types: tuple[type, ...]) -> bool:
    stack = [node]
    while stack:
        n = stack.pop()
        if isinstance(n, types):
            return True
        for c in ast.iter_child_nodes(n):
            if isinstance(c, (ast.FunctionDef, ast.AsyncFunctionDef, ast.Lambda)):
                continue
            stack.append(c)
    return False


def default_may_raise(node: ast.AST) -> bool:
    if isinstance(node, (ast.Raise, ast.Assert, ast.Delete, ast.Import, ast.ImportFrom)):
        return True
    if isinstance(node, (ast.Pass, ast.Break, ast.Continue, ast.Global, ast.Nonlocal)):
        return False
    if isinstance(node, ast.Assign) and any(isinstance(t, (ast.Tuple, ast.List)) for t in node.targets):
        if not isinstance(node.value, (ast.Tuple, ast.List)):
            return True
    return _contains(
        node,
        (ast.Call, ast.Await, ast.Subscript, ast.Yield, ast.YieldFrom, ast.BinOp, ast.JoinedStr),
    )


@dataclass
class _Ctx:
    exc: Callable[[], list[int]]
    ret: Callable[[], int]
    brk: Callable[[], int] | None
    cont: Callable[[], int] | None
    withs: tuple[ast.AST, ...] = ()
    tries: tuple[ast.AST, ...] = ()
    handlers: tuple[ast.AST, ...] = ()
    loops: tuple[ast.AST, ...] = ()
    copy_of: str = ""


Edges = list[tuple[int, str]]


class CFG:
    def __init__(
        self,
        func: ast.FunctionDef | ast.AsyncFunctionDef,
        may_raise: Callable[[ast.AST], bool] = default_may_raise,
    ) -> None:
        self.func = func
        self.may_raise = may_raise
        self.nodes: list[Node] = []
        self.entry = self._new("entry").id
        self.exit = self._new("exit").id
        self.raise_exit = self._new("raise").id
        ctx = _Ctx(exc=lambda: [self.raise_exit], ret=lambda: self.exit, brk=None, cont=None)
        out = self._stmts(func.body, [(self.entry, "next")], ctx)
        self._connect(out, self.exit)
        for n in self.nodes:
            for t, lab in n.succ:
                self.nodes[t].pred.append((n.id, lab))
        self._dom: dict[int, set[int]] | None = None

    # ------------------------------------------------------------- building
    def _new(self, kind: str, node: ast.AST | None = None, ctx: _Ctx | None = None) -> Node:
        n = Node(len(self.nodes), kind, node)
        if ctx is not None:
            n.withs, n.tries, n.handlers, n.loops, n.copy_of = ctx.withs, ctx.tries, ctx.handlers, ctx.loops, ctx.copy_of
        self.nodes.append(n)
        return n

    def _connect(self, incoming: Edges, target: int) -> None:
        for src, lab in incoming:
            if (target, lab) not in self.nodes[src].succ:
                self.nodes[src].succ.append((target, lab))

    def _exc_edges(self, n: Node, ctx: _Ctx, what: ast.AST | None = None) -> None:
        if self.may_raise(what if what is not None else n.ast):  # type: ignore[arg-type]
            for t in ctx.exc():
                if (t, "exc") not in n.succ:
                    n.succ.append((t, "exc"))

    def _stmts(self, stmts: list[ast.stmt], incoming: Edges, ctx: _Ctx) -> Edges:
        cur = incoming
        for st in stmts:
            cur = self._stmt(st, cur, ctx)
        return cur

    def _cond(self, e: ast.expr, incoming: Edges, ctx: _Ctx) -> tuple[Edges, Edges]:
        if isinstance(e, ast.BoolOp):
            t_out: Edges = []
            f_out: Edges = []
            cur = incoming
            for i, v in enumerate(e.values):
                t, f = self._cond(v, cur, ctx)
                last = i == len(e.values) - 1
                if isinstance(e.op, ast.And):
                    f_out += f
                    if last:
                        t_out += t
                    else:
                        cur = t
                else:
                    t_out += t
                    if last:
                        f_out += f
                    else:
                        cur = f
            return t_out, f_out
        if isinstance(e, ast.UnaryOp) and isinstance(e.op, ast.Not):
            t, f = self._cond(e.operand, incoming, ctx)
            return f, t
        if isinstance(e, ast.Constant):
            return (list(incoming), []) if e.value else ([], list(incoming))
        n = self._new("test", e, ctx)
        self._connect(incoming, n.id)
        self._exc_edges(n, ctx)
        return [(n.id, "true")], [(n.id, "false")]

    def _stmt(self, st: ast.stmt, incoming: Edges, ctx: _Ctx) -> Edges:
        if isinstance(st, ast.If):
            t, f = self._cond(st.test, incoming, ctx)
            return self._stmts(st.body, t, ctx) + self._stmts(st.orelse, f, ctx)
        if isinstance(st, ast.While):
            head = self._new("join", st, ctx)
            after = self._new("join", st, ctx)
            self._connect(incoming, head.id)
            lctx = _Ctx(ctx.exc, ctx.ret, lambda: after.id, lambda: head.id, ctx.withs, ctx.tries, ctx.handlers, ctx.loops + (st,), ctx.copy_of)
            t, f = self._cond(st.test, [(head.id, "next")], ctx)
            body_out = self._stmts(st.body, t, lctx)
            if body_out:
                tail = self._new("join", st, lctx)
                self._connect(body_out, tail.id)
                self._connect([(tail.id, "loop")], head.id)
            else_out = self._stmts(st.orelse, f, ctx)
            self._connect(else_out, after.id)
            return [(after.id, "next")]
        if isinstance(st, (ast.For, ast.AsyncFor)):
            head = self._new("for", st, ctx)
            after = self._new("join", st, ctx)
            self._connect(incoming, head.id)
            self._exc_edges(head, ctx, st.iter)
            lctx = _Ctx(ctx.exc, ctx.ret, lambda: after.id, lambda: head.id, ctx.withs, ctx.tries, ctx.handlers, ctx.loops + (st,), ctx.copy_of)
            body_out = self._stmts(st.body, [(head.id, "iter")], lctx)
            if body_out:
                tail = self._new("join", st, lctx)
                self._connect(body_out, tail.id)
                self._connect([(tail.id, "loop")], head.id)
            else_out = self._stmts(st.orelse, [(head.id, "done")], ctx)
            self._connect(else_out, after.id)
            return [(after.id, "next")]
        if isinstance(st, (ast.With, ast.AsyncWith)):
            enter = self._new("with", st, ctx)
            self._connect(incoming, enter.id)
            for t in ctx.exc():
                enter.succ.append((t, "exc"))
            wctx = _Ctx(ctx.exc, ctx.ret, ctx.brk, ctx.cont, ctx.withs + (st,), ctx.tries, ctx.handlers, ctx.loops, ctx.copy_of)
            body_out = self._stmts(st.body, [(enter.id, "next")], wctx)
            if not body_out:
                return []
            ex = self._new("with_exit", st, ctx)
            self._connect(body_out, ex.id)
            return [(ex.id, "next")]
        if isinstance(st, (ast.Try,)) or st.__class__.__name__ == "TryStar":
            return self._try(st, incoming, ctx)  # type: ignore[arg-type]
        if isinstance(st, ast.Match):
            raise AnalysisError(f"match statement not supported (line {st.lineno})")
        if isinstance(st, (ast.FunctionDef, ast.AsyncFunctionDef, ast.ClassDef)):
            n = self._new("stmt", st, ctx)
            self._connect(incoming, n.id)
            return [(n.id, "next")]
        if isinstance(st, ast.Assert):
            t, f = self._cond(st.test, incoming, ctx)
            n = self._new("stmt", ast.Raise(exc=ast.Name(id="AssertionError", ctx=ast.Load()), cause=None, lineno=st.lineno, col_offset=st.col_offset), ctx)
            self._connect(f, n.id)
            for tg in ctx.exc():
                n.succ.append((tg, "exc"))
            return t
        # simple statements
        n = self._new("stmt", st, ctx)
        self._connect(incoming, n.id)
        if isinstance(st, ast.Return):
            if st.value is not None:
                self._exc_edges(n, ctx, st.value)
            n.succ.append((ctx.ret(), "return"))
            return []
        if isinstance(st, ast.Raise):
            for t in ctx.exc():
                n.succ.append((t, "exc"))
            return []
        if isinstance(st, ast.Break):
            if ctx.brk is None:
                raise AnalysisError("break outside loop")
            n.succ.append((ctx.brk(), "break"))
            return []
        if isinstance(st, ast.Continue):
            if ctx.cont is None:
                raise AnalysisError("continue outside loop")
            n.succ.append((ctx.cont(), "continue"))
            return []
        self._exc_edges(n, ctx)
        return [(n.id, "next")]

    def _try(self, st: ast.Try, incoming: Edges, ctx: _Ctx) -> Edges:
        outer = ctx
        if st.finalbody:
            copies: dict[str, int] = {}

            def fin_copy(kind: str, cont: Callable[[], Iterable[int]], label: str) -> int:
                if kind not in copies:
                    j = self._new("join", st, outer)
                    copies[kind] = j.id
                    fctx = _Ctx(outer.exc, outer.ret, outer.brk, outer.cont, outer.withs, outer.tries, outer.handlers, outer.loops, f"finally:{kind}")
                    out = self._stmts(st.finalbody, [(j.id, "next")], fctx)
                    if out:
                        tail = self._new("join", st, fctx)
                        self._connect(out, tail.id)
                        for t in cont():
                            self._connect([(tail.id, label)], t)
                return copies[kind]

            after_join = self._new("join", st, outer)
            inner = _Ctx(
                exc=lambda: [fin_copy("exc", outer.exc, "exc")],
                ret=lambda: fin_copy("return", lambda: [outer.ret()], "return"),
                brk=(lambda: fin_copy("break", lambda: [outer.brk()], "break")) if outer.brk else None,  # type: ignore[misc]
                cont=(lambda: fin_copy("continue", lambda: [outer.cont()], "continue")) if outer.cont else None,  # type: ignore[misc]
                withs=outer.withs, tries=outer.tries, handlers=outer.handlers, loops=outer.loops, copy_of=outer.copy_of,
            )
        else:
            inner = outer

        handler_nodes: list[Node] = []
        catch_all = False
        for h in st.handlers:
            hn = self._new("handler", h, inner)
            handler_nodes.append(hn)
            if h.type is None or ast.unparse(h.type) in ("BaseException",):
                catch_all = True

        def body_exc() -> list[int]:
            tg = [h.id for h in handler_nodes]
            if not catch_all:
                tg += inner.exc()
            return tg

        bctx = _Ctx(body_exc, inner.ret, inner.brk, inner.cont, inner.withs, inner.tries + (st,), inner.handlers, inner.loops, inner.copy_of)
        body_out = self._stmts(st.body, incoming, bctx)
        else_out = self._stmts(st.orelse, body_out, inner) if st.orelse else body_out
        outs: Edges = list(else_out)
        for h, hn in zip(st.handlers, handler_nodes):
            hctx = _Ctx(inner.exc, inner.ret, inner.brk, inner.cont, inner.withs, inner.tries, inner.handlers + (h,), inner.loops, inner.copy_of)
            outs += self._stmts(h.body, [(hn.id, "next")], hctx)
        if st.finalbody:
            if outs:
                j = self._new("join", st, outer)
                self._connect(outs, j.id)
                fctx = _Ctx(outer.exc, outer.ret, outer.brk, outer.cont, outer.withs, outer.tries, outer.handlers, outer.loops, "finally:normal")
                return self._stmts(st.finalbody, [(j.id, "next")], fctx)
            return []
        return outs

    # -------------------------------------------------------------- queries
    def find(self, pred: Callable[[Node], bool]) -> list[Node]:
        return [n for n in self.nodes if pred(n)]

    def stmt_nodes(self, pred: Callable[[ast.AST], bool]) -> list[Node]:
        return [n for n in self.nodes if n.ast is not None and n.kind in ("stmt", "test", "for", "with") and pred(n.ast)]

    def nodes_of(self, a: ast.AST) -> list[Node]:
        return [n for n in self.nodes if n.ast is a]

    def reachable(
        self,
        start: Iterable[int],
        avoid: Iterable[int] = (),
        edge_ok: Callable[[int, int, str], bool] | None = None,
        include_start: bool = True,
    ) -> set[int]:
        avoid_s = set(avoid)
        seen: set[int] = set()
        stack = []
        for s in start:
            if include_start:
                if s not in avoid_s:
                    stack.append(s)
            else:
                for t, lab in self.nodes[s].succ:
                    if t not in avoid_s and (edge_ok is None or edge_ok(s, t, lab)):
                        stack.append(t)
        while stack:
            n = stack.pop()
            if n in seen:
                continue
            seen.add(n)
            for t, lab in self.nodes[n].succ:
                if t in avoid_s or t in seen:
                    continue
                if edge_ok is not None and not edge_ok(n, t, lab):
                    continue
                stack.append(t)
        return seen

    def dominators(self) -> dict[int, set[int]]:
        if self._dom is not None:
            return self._dom
        reach = self.reachable([self.entry])
        alln = set(reach)
        dom = {n: set(alln) for n in alln}
        dom[self.entry] = {self.entry}
        changed = True
        order = sorted(alln)
        while changed:
            changed = False
            for n in order:
                if n == self.entry:
                    continue
                preds = [p for p, _ in self.nodes[n].pred if p in alln]
                if not preds:
                    continue
                new = set.intersection(*(dom[p] for p in preds)) | {n}
                if new != dom[n]:
                    dom[n] = new
                    changed = True
        self._dom = dom
        return dom

    def dominates(self, a: int, b: int) -> bool:
        return a in self.dominators().get(b, set())

    def edge_dominates(self, src: int, label: str, target: int) -> bool:
        """Every entry->target path uses an edge (src, label)."""
        r = self.reachable([self.entry], edge_ok=lambda s, t, lab: not (s == src and lab == label))
        return target not in r

    def all_paths_hit(self, start: int, through: Iterable[int], ends: Iterable[int] | None = None, edge_ok: Callable[[int, int, str], bool] | None = None, include_start: bool = False) -> bool:
        """Every path from `start` to any of `ends` (default: exit & raise) passes a node of `through`."""
        ends_s = set(ends) if ends is not None else {self.exit, self.raise_exit}
        r = self.reachable([start], avoid=set(through), edge_ok=edge_ok, include_start=include_start)
        return not (r & ends_s)

    def falls_off_end(self) -> bool:
        """some path reaches the normal exit without a `return` statement (implicit `return None`)"""
        byid = {n.id: n for n in self.nodes}
        reach = self.reachable([self.entry])
        return any(p in reach and not isinstance(byid[p].ast, ast.Return) for p, _ in byid[self.exit].pred)

    # reaching definitions of local names: node id -> {name -> set of defining node ids}; -1 stands for "parameter / not
    # assigned yet".  Definitions are statement nodes storing to a plain Name (Assign/AnnAssign/AugAssign/for/with/except/walrus).
    def reaching_defs(self) -> dict[int, dict[str, frozenset[int]]]:
        if getattr(self, "_rd", None) is not None:
            return self._rd  # type: ignore[has-type]
        gen: dict[int, set[str]] = {}
        for n in self.nodes:
            if n.ast is None or n.kind not in ("stmt", "test", "for", "with", "handler"):
                continue
            names: set[str] = set()
            if n.kind == "for":
                roots: list[ast.AST] = [n.ast.target]  # type: ignore[attr-defined]
            elif n.kind == "with":
                roots = [i.optional_vars for i in n.ast.items if i.optional_vars is not None]  # type: ignore[attr-defined]
            elif n.kind == "handler":
                if n.ast.name:  # type: ignore[attr-defined]
                    names.add(n.ast.name)  # type: ignore[attr-defined]
                roots = []
            else:
                roots = [n.ast]
            for r in roots:
                stack = [r]
                while stack:
                    x = stack.pop()
                    if isinstance(x, (ast.FunctionDef, ast.AsyncFunctionDef, ast.Lambda, ast.ClassDef)) and x is not r:
                        continue
                    if isinstance(x, ast.Name) and isinstance(x.ctx, ast.Store):
                        names.add(x.id)
                    stack.extend(ast.iter_child_nodes(x))
            if names:
                gen[n.id] = names
        universe = set().union(*gen.values()) if gen else set()
        IN: dict[int, dict[str, frozenset[int]]] = {n.id: {} for n in self.nodes}
        OUT: dict[int, dict[str, frozenset[int]]] = {n.id: {} for n in self.nodes}
        IN[self.entry] = {nm: frozenset([-1]) for nm in universe}
        work = [self.entry]
        queued = {self.entry}
        while work:
            i = work.pop()
            queued.discard(i)
            if i != self.entry:
                merged: dict[str, frozenset[int]] = {}
                for p_, _lab in self.nodes[i].pred:
                    for nm, ds in OUT[p_].items():
                        merged[nm] = merged.get(nm, frozenset()) | ds
                IN[i] = merged
            cur = dict(IN[i])
            for nm in gen.get(i, ()):
                cur[nm] = frozenset([i])
            if cur != OUT[i]:
                OUT[i] = cur
                for t, _lab in self.nodes[i].succ:
                    if t not in queued:
                        queued.add(t)
                        work.append(t)
        self._rd = IN
        return IN

    def symbolic(self, at: int, e: ast.AST, depth: int = 12) -> ast.AST:
        """e as seen at node `at`, with every local whose single reaching definition is a plain `name = rhs` replaced by
        rhs (itself evaluated at its definition).  Locals with several reaching definitions become `φ_<name>`;
        parameters and names never assigned stay.  Sound only for rhs without side effects between definition and use -
        callers compare shapes, they do not execute."""
        import copy
        rd = self.reaching_defs()
        byid = self.nodes
        me = self

        class T(ast.NodeTransformer):
            def __init__(self, at: int, depth: int) -> None:
                self.at, self.depth = at, depth

            def visit_Lambda(self, node):  # own scope
                return node

            def visit_Name(self, node: ast.Name):
                if not isinstance(node.ctx, ast.Load):
                    return node
                ds = rd[self.at].get(node.id)
                if not ds or ds == frozenset([-1]):
                    return node
                if len(ds) > 1:
                    # `name = None` definitions cannot be the one seen where `name is not None` holds
                    mf = me.__dict__.get("_sym_mf")
                    if mf is None:
                        mf = me.__dict__["_sym_mf"] = me.must_facts()
                    fs = mf.get(self.at, frozenset())
                    if (f"{node.id} is not None", True) in fs or (f"{node.id} is None", False) in fs:
                        def is_none_def(d_: int) -> bool:
                            st_ = byid[d_].ast if d_ >= 0 else None
                            return isinstance(st_, (ast.Assign, ast.AnnAssign)) and isinstance(st_.value, ast.Constant) and st_.value.value is None
                        ds = frozenset(d_ for d_ in ds if not is_none_def(d_))
                if len(ds) != 1 or self.depth <= 0:
                    return ast.Name(id=f"φ_{node.id}", ctx=ast.Load())
                (d,) = ds
                st = byid[d].ast
                if byid[d].kind == "stmt" and isinstance(st, (ast.Assign, ast.AnnAssign)) and st.value is not None:
                    ts = st.targets if isinstance(st, ast.Assign) else [st.target]
                    if len(ts) == 1 and isinstance(ts[0], ast.Name) and ts[0].id == node.id:
                        return T(d, self.depth - 1).visit(copy.deepcopy(st.value))
                return ast.Name(id=f"φ_{node.id}", ctx=ast.Load())
        return ast.fix_missing_locations(T(at, depth).visit(copy.deepcopy(e)))

    def normal_only(self, s: int, t: int, lab: str) -> bool:
        return lab != "exc"

    # must-facts: atoms (by unparse text) known true/false on every path to a node
    def must_facts(self, kill_on_call: bool = False, edge_ok: Callable[[int, int, str], bool] | None = None) -> dict[int, frozenset[tuple[str, bool]]]:
        """Atoms (unparse text, truth) established on every entry->node path.  `edge_ok` removes edges
        (paths the caller has shown infeasible / irrelevant) before the dataflow."""
        reach = self.reachable([self.entry], edge_ok=edge_ok)
        TOP = None
        facts: dict[int, frozenset | None] = {n: TOP for n in reach}
        facts[self.entry] = frozenset()
        work = [self.entry]
        atoms_names: dict[str, set[str]] = {}

        def names_of(text: str, node: ast.AST) -> set[str]:
            if text not in atoms_names:
                s: set[str] = set()
                for x in ast.walk(node):
                    if isinstance(x, ast.Name):
                        s.add(x.id)
                    elif isinstance(x, ast.Attribute):
                        s.add(chain(x))
                atoms_names[text] = s
            return atoms_names[text]

        def out_facts(n: Node, f: frozenset, lab: str) -> frozenset:
            cur = set(f)
            # kills
            a = n.ast
            killed: set[str] = set()
            if n.kind in ("stmt", "for", "with", "test") and a is not None:
                for x in ast.walk(a):
                    if isinstance(x, (ast.Name, ast.Attribute)) and isinstance(getattr(x, "ctx", None), (ast.Store, ast.Del)):
                        killed.add(chain(x))
                    elif isinstance(x, ast.NamedExpr):
                        killed.add(chain(x.target))
            if n.kind == "handler" and a is not None and getattr(a, "name", None):
                killed.add(a.name)  # type: ignore[attr-defined]
            if killed or (kill_on_call and a is not None and _contains(a, (ast.Call, ast.Await))):
                keep = set()
                for text, val in cur:
                    nm = atoms_names.get(text, set())
                    if nm & killed:
                        continue
                    if kill_on_call and a is not None and _contains(a, (ast.Call, ast.Await)) and any("." in k for k in nm):
                        continue
                    keep.add((text, val))
                cur = keep
            if n.kind == "test" and lab in ("true", "false") and a is not None:
                text = ast.unparse(a)
                names_of(text, a)
                # do not record facts for atoms that themselves assign (walrus) their own names... still sound: evaluated after assignment
                cur.add((text, lab == "true"))
            return frozenset(cur)

        while work:
            nid = work.pop()
            f = facts[nid]
            assert f is not None
            n = self.nodes[nid]
            for t, lab in n.succ:
                if t not in facts:
                    continue
                if edge_ok is not None and not edge_ok(nid, t, lab):
                    continue
                nf = out_facts(n, f, lab)
                old = facts[t]
                new = nf if old is None else (old & nf)
                if old is None or new != old:
                    facts[t] = new
                    work.append(t)
        return {k: (v if v is not None else frozenset()) for k, v in facts.items()}


def chain(e: ast.AST) -> str:
    """Dotted access chain text ('self._x.y') or unparse."""
    try:
        return ast.unparse(e)
    except Exception:  # noqa: BLE001
        return "?"
