"""Static-analysis machinery for the xknx property set (see DESIGN.md)."""
