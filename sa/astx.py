"""AST helper vocabulary shared by the rules."""

from __future__ import annotations

import ast
from dataclasses import dataclass
from typing import Callable, Iterator

from .loader import FuncInfo, Repo


def walk_local(node: ast.AST, include_root: bool = True) -> Iterator[ast.AST]:
    """ast.walk that does not descend into nested function/lambda/class bodies."""
    stack = [node]
    first = True
    while stack:
        n = stack.pop()
        if not first and isinstance(n, (ast.FunctionDef, ast.AsyncFunctionDef, ast.Lambda, ast.ClassDef)):
            continue
        if include_root or not first:
            yield n
        first = False
        stack.extend(reversed(list(ast.iter_child_nodes(n))))


def calls(node: ast.AST) -> Iterator[ast.Call]:
    for n in walk_local(node):
        if isinstance(n, ast.Call):
            yield n


def dotted(e: ast.AST) -> str:
    if isinstance(e, ast.Name):
        return e.id
    if isinstance(e, ast.Attribute):
        return dotted(e.value) + "." + e.attr
    if isinstance(e, ast.Call):
        return dotted(e.func) + "()"
    if isinstance(e, ast.Subscript):
        return dotted(e.value) + "[]"
    if isinstance(e, ast.Await):
        return dotted(e.value)
    return ast.unparse(e)


def call_name(c: ast.Call) -> str:
    return dotted(c.func)


def method_name(c: ast.Call) -> str:
    f = c.func
    if isinstance(f, ast.Attribute):
        return f.attr
    if isinstance(f, ast.Name):
        return f.id
    return ""


def calls_named(node: ast.AST, name: str) -> list[ast.Call]:
    """Calls whose last attribute / function name equals `name`."""
    return [c for c in calls(node) if method_name(c) == name]


def has_call(node: ast.AST, name: str) -> bool:
    return bool(calls_named(node, name))


def stmt_of(func: ast.AST, target: ast.AST) -> ast.stmt | None:
    """Innermost simple statement of `func` containing `target`."""
    best: ast.stmt | None = None
    for n in walk_local(func):
        if isinstance(n, ast.stmt) and not isinstance(n, (ast.If, ast.While, ast.For, ast.AsyncFor, ast.With, ast.AsyncWith, ast.Try, ast.FunctionDef, ast.AsyncFunctionDef)):
            for x in ast.walk(n):
                if x is target:
                    best = n
    return best


def parents(root: ast.AST) -> dict[ast.AST, ast.AST]:
    out: dict[ast.AST, ast.AST] = {}
    for n in ast.walk(root):
        for c in ast.iter_child_nodes(n):
            out[c] = n
    return out


@dataclass
class Write:
    func: FuncInfo
    stmt: ast.AST
    kind: str  # assign | augassign | del | subscript-assign | subscript-del | mutcall:<name>
    receiver: str
    node: ast.AST


MUTATORS = {"append", "extend", "insert", "remove", "pop", "clear", "add", "discard", "update", "setdefault", "popitem", "sort", "reverse", "appendleft", "popleft"}


def attr_writes(repo: Repo, attr: str, funcs: list[FuncInfo] | None = None, include_mutators: bool = True) -> list[Write]:
    """All write sites of an attribute named `attr` (any receiver) in the repo (or the given functions)."""
    out: list[Write] = []
    for fi in funcs if funcs is not None else repo.all_functions():
        for n in walk_local(fi.node):
            if isinstance(n, (ast.Assign, ast.AnnAssign, ast.AugAssign)):
                tgts = n.targets if isinstance(n, ast.Assign) else [n.target]
                if isinstance(n, ast.AnnAssign) and n.value is None:
                    continue
                flat: list[ast.AST] = []
                for t in tgts:
                    flat.extend(t.elts if isinstance(t, (ast.Tuple, ast.List)) else [t])
                for t in flat:
                    if isinstance(t, ast.Attribute) and t.attr == attr:
                        out.append(Write(fi, n, "augassign" if isinstance(n, ast.AugAssign) else "assign", dotted(t.value), t))
                    elif isinstance(t, ast.Subscript) and isinstance(t.value, ast.Attribute) and t.value.attr == attr:
                        out.append(Write(fi, n, "subscript-assign", dotted(t.value.value), t))
            elif isinstance(n, ast.Delete):
                for t in n.targets:
                    if isinstance(t, ast.Attribute) and t.attr == attr:
                        out.append(Write(fi, n, "del", dotted(t.value), t))
                    elif isinstance(t, ast.Subscript) and isinstance(t.value, ast.Attribute) and t.value.attr == attr:
                        out.append(Write(fi, n, "subscript-del", dotted(t.value.value), t))
            elif include_mutators and isinstance(n, ast.Call) and isinstance(n.func, ast.Attribute) and n.func.attr in MUTATORS:
                recv = n.func.value
                if isinstance(recv, ast.Subscript):
                    recv = recv.value
                if isinstance(recv, ast.Attribute) and recv.attr == attr:
                    out.append(Write(fi, n, f"mutcall:{n.func.attr}", dotted(recv.value), n))
            elif isinstance(n, ast.NamedExpr):
                pass
    return out


def call_sites(repo: Repo, name: str, funcs: list[FuncInfo] | None = None) -> list[tuple[FuncInfo, ast.Call]]:
    out = []
    for fi in funcs if funcs is not None else repo.all_functions():
        for c in calls(fi.node):
            if method_name(c) == name:
                out.append((fi, c))
    return out


_NEG = {ast.Eq: ast.NotEq, ast.NotEq: ast.Eq, ast.Lt: ast.GtE, ast.GtE: ast.Lt, ast.Gt: ast.LtE, ast.LtE: ast.Gt,
        ast.Is: ast.IsNot, ast.IsNot: ast.Is, ast.In: ast.NotIn, ast.NotIn: ast.In}
_SWAP = {ast.Lt: ast.Gt, ast.Gt: ast.Lt, ast.LtE: ast.GtE, ast.GtE: ast.LtE, ast.Eq: ast.Eq, ast.NotEq: ast.NotEq, ast.Is: ast.Is, ast.IsNot: ast.IsNot}
_SYM = {ast.Eq: "==", ast.NotEq: "!=", ast.Lt: "<", ast.LtE: "<=", ast.Gt: ">", ast.GtE: ">=", ast.Is: "is", ast.IsNot: "is not", ast.In: "in", ast.NotIn: "not in"}


def norm_cmp(e: ast.AST, truth: bool = True) -> tuple[str, str, str] | None:
    """Normalise a single comparison atom under a truth value: (lhs, op, rhs) with op folded by polarity."""
    if not isinstance(e, ast.Compare) or len(e.ops) != 1:
        return None
    op = type(e.ops[0])
    if not truth:
        op = _NEG[op]
    return (ast.unparse(e.left), _SYM[op], ast.unparse(e.comparators[0]))


def cmp_matches(e: ast.AST, truth: bool, lhs: Callable[[str], bool], op: str, rhs: Callable[[str], bool]) -> bool:
    """Does atom `e` with truth value `truth` state `lhs op rhs` (either orientation)?"""
    n = norm_cmp(e, truth)
    if n is None:
        return False
    l, o, r = n
    if o == op and lhs(l) and rhs(r):
        return True
    inv = {"<": ">", ">": "<", "<=": ">=", ">=": "<=", "==": "==", "!=": "!=", "is": "is", "is not": "is not"}
    if o in inv and inv[o] == op and lhs(r) and rhs(l):
        return True
    return False


def is_none_test(e: ast.AST, truth: bool, expr_pred: Callable[[str], bool]) -> bool | None:
    """If atom states `X is None` (True) / `X is not None` (False) for X matching pred, return which; else None."""
    n = norm_cmp(e, truth)
    if n is None:
        # bare truthiness `if x:` => not None
        if isinstance(e, (ast.Name, ast.Attribute)) and expr_pred(ast.unparse(e)):
            return (not truth)
        return None
    l, o, r = n
    if r == "None" and expr_pred(l):
        if o == "is":
            return True
        if o == "is not":
            return False
    return None


def isinstance_test(e: ast.AST) -> tuple[str, list[str]] | None:
    if isinstance(e, ast.Call) and isinstance(e.func, ast.Name) and e.func.id == "isinstance" and len(e.args) == 2:
        t = e.args[1]
        names = [ast.unparse(x) for x in (t.elts if isinstance(t, ast.Tuple) else [t])]
        return ast.unparse(e.args[0]), names
    return None


def enclosing_with_items(node_withs: tuple[ast.AST, ...]) -> list[str]:
    out = []
    for w in node_withs:
        for it in w.items:  # type: ignore[attr-defined]
            out.append(ast.unparse(it.context_expr))
    return out


def contains(node: ast.AST, pred: Callable[[ast.AST], bool]) -> bool:
    return any(pred(n) for n in walk_local(node))


def awaits_in(node: ast.AST) -> list[ast.Await]:
    return [n for n in walk_local(node) if isinstance(n, ast.Await)]


def local_names(fn: ast.AST) -> list[str]:
    """names bound by assignment-like statements in the function's own scope (not parameters, imports, nested defs,
    comprehension targets, global/nonlocal), in order of first binding."""
    a = fn.args  # type: ignore[attr-defined]
    params = {x.arg for x in a.posonlyargs + a.args + a.kwonlyargs} | ({a.vararg.arg} if a.vararg else set()) | ({a.kwarg.arg} if a.kwarg else set())
    excluded = set(params)
    order: list[str] = []
    comp_targets: set[int] = set()
    for n in walk_local(fn):
        if isinstance(n, ast.comprehension):
            comp_targets.update(id(t) for t in ast.walk(n.target))
    for n in walk_local(fn):
        if isinstance(n, (ast.Global, ast.Nonlocal)):
            excluded.update(n.names)
        elif isinstance(n, (ast.Import, ast.ImportFrom)):
            excluded.update((al.asname or al.name).split(".")[0] for al in n.names)
        elif isinstance(n, ast.Name) and isinstance(n.ctx, ast.Store) and id(n) not in comp_targets:
            if n.id not in order:
                order.append(n.id)
        elif isinstance(n, ast.ExceptHandler) and n.name and n.name not in order:
            order.append(n.name)
    return [n for n in order if n not in excluded]


def canon_locals(fn: ast.AST, prefix: str = "v") -> tuple[ast.AST, dict[str, str]]:
    """a deep copy of the function with its own locals renamed v0, v1, ... in order of first binding (so that text
    comparisons do not depend on how locals are called), and the mapping original -> canonical."""
    import copy
    names = sorted(local_names(fn), key=lambda s: _first_store(fn, s))
    m = {n: f"{prefix}{i}" for i, n in enumerate(names)}
    out = copy.deepcopy(fn)
    for n in ast.walk(out):
        if isinstance(n, ast.Name) and n.id in m:
            n.id = m[n.id]
        elif isinstance(n, ast.ExceptHandler) and n.name in m:
            n.name = m[n.name]
    return out, m


def _first_store(fn: ast.AST, name: str) -> tuple[int, int]:
    best = (10 ** 9, 0)
    for n in walk_local(fn):
        if (isinstance(n, ast.Name) and isinstance(n.ctx, ast.Store) and n.id == name) or (isinstance(n, ast.ExceptHandler) and n.name == name):
            best = min(best, (n.lineno, n.col_offset))
    return best


def inline_locals(fn: ast.AST, e: ast.AST, keep_calls: tuple = (), depth: int = 6) -> ast.AST:
    """e with every local that has exactly one binding (a plain assignment) replaced by its right-hand side —
    comparison of expressions up to naming and statement splitting."""
    import copy
    stores: dict[str, list] = {}
    bare = {id(n.target) for n in walk_local(fn) if isinstance(n, ast.AnnAssign) and n.value is None}  # `x: T` binds nothing
    for n in walk_local(fn):
        if isinstance(n, ast.Name) and isinstance(n.ctx, ast.Store) and id(n) not in bare:
            stores.setdefault(n.id, []).append(n)
    defs: dict[str, ast.AST] = {}
    for n in walk_local(fn):
        if isinstance(n, (ast.Assign, ast.AnnAssign)) and n.value is not None:
            ts = n.targets if isinstance(n, ast.Assign) else [n.target]
            if len(ts) == 1 and isinstance(ts[0], ast.Name) and len(stores.get(ts[0].id, [])) == 1:
                if isinstance(n.value, ast.Call) and call_name(n.value) in keep_calls:
                    continue
                defs[ts[0].id] = n.value

    class T(ast.NodeTransformer):
        def visit_Name(self, node: ast.Name):
            if isinstance(node.ctx, ast.Load) and node.id in defs:
                return copy.deepcopy(defs[node.id])
            return node
    out = copy.deepcopy(e)
    for _ in range(depth):
        before = ast.dump(out)
        out = T().visit(out) if not (isinstance(out, ast.Name) and out.id in defs) else copy.deepcopy(defs[out.id])
        if ast.dump(out) == before:
            break
    return ast.fix_missing_locations(out)
