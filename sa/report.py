"""Obligation bookkeeping, known-findings, evidence and exit codes."""

from __future__ import annotations

import ast
import json
import os
import sys
import time
from dataclasses import dataclass, field
from pathlib import Path
from typing import Any

from .loader import AnalysisError, FuncInfo

VERIF = Path(__file__).resolve().parent.parent
EVIDENCE_DIR = Path(os.environ.get("VERIF_EVIDENCE_DIR", VERIF / "evidence"))
KNOWN = VERIF / "known_findings.json"


@dataclass
class Obligation:
    rule: str
    site: str
    ok: bool
    detail: str
    key: str
    status: str = ""  # discharged | violation | known


class _UndefHolder:
    """memo holder for the module-wide undefined-name tables (MayRaise.undefined_names only needs a __dict__)"""


_UNDEF = _UndefHolder()


@dataclass
class Check:
    pid: str
    tier: str = "quick"
    obligations: list[Obligation] = field(default_factory=list)
    analysed: dict[str, int] = field(default_factory=dict)
    analysed_units: list[str] = field(default_factory=list)
    assumptions: list[str] = field(default_factory=list)
    rules: list[str] = field(default_factory=list)
    notes: list[str] = field(default_factory=list)
    extra: dict[str, Any] = field(default_factory=dict)
    t0: float = field(default_factory=time.time)

    # --- recording -------------------------------------------------------
    def rule(self, text: str) -> None:
        if text not in self.rules:
            self.rules.append(text)

    def assume(self, text: str) -> None:
        if text not in self.assumptions:
            self.assumptions.append(text)

    def unit(self, fi: FuncInfo | str) -> None:
        ref = fi if isinstance(fi, str) else fi.ref
        if ref not in self.analysed_units:
            self.analysed_units.append(ref)
            if not isinstance(fi, str):
                # whatever a rule concludes from the shape of a function is void where the function reads a global name
                # nothing binds: that statement raises NameError when it is reached (a `raise SomeError(...)` whose class
                # was never imported, a logger that does not exist).  Compiler symbol tables, not a text search.
                try:
                    from .mayraise import MayRaise
                    und = MayRaise.undefined_names(_UNDEF, fi)
                except Exception:  # noqa: BLE001
                    und = frozenset()
                if und:
                    self.ob("analysed-unit-reads-an-undefined-name", fi.site(), False, f"{fi.qualname} reads {sorted(und)}: no import, assignment, def or class of the module binds it and it is no builtin - the statement raises NameError when reached", key=f"undefined-name|{fi.qualname}|{','.join(sorted(und))}")

    def count(self, what: str, n: int = 1) -> None:
        self.analysed[what] = self.analysed.get(what, 0) + n

    def ob(self, rule: str, site: str, ok: bool, detail: str, key: str | None = None) -> bool:
        """Record one obligation. `key` identifies the construct for known-findings (no line numbers)."""
        k = key if key is not None else f"{rule}|{_strip_line(site)}"
        self.obligations.append(Obligation(rule, site, bool(ok), detail, k))
        return bool(ok)

    def floor(self, what: str, n: int, minimum: int) -> None:
        """Instance-count floor: fewer matched instances than confirmed by hand = broken analysis."""
        self.analysed[what] = n
        if n < minimum:
            raise AnalysisError(f"floor not met for {what}: matched {n} < {minimum} confirmed by hand")

    # --- finishing -------------------------------------------------------
    def finish(self) -> int:
        known = _load_known(self.pid)
        viol: list[Obligation] = []
        known_hit: list[tuple[Obligation, dict]] = []
        for o in self.obligations:
            if o.ok:
                o.status = "discharged"
                continue
            hit = next((k for k in known if k["key"] == o.key), None)
            if hit is not None:
                o.status = "known"
                known_hit.append((o, hit))
            else:
                o.status = "violation"
                viol.append(o)
        wall = time.time() - self.t0
        total = len(self.obligations)
        discharged = sum(1 for o in self.obligations if o.ok)
        distinct = len({o.key for o in self.obligations})
        samples = [
            {"rule": o.rule, "site": o.site, "status": o.status, "detail": o.detail}
            for o in _sample(self.obligations)
        ]
        ev = {
            "property_id": self.pid,
            "tier": self.tier,
            "seed": int(os.environ.get("VERIF_SEED", "0") or 0),
            "level": "other",
            "coverage": {
                "explanation": "Static analysis of /repo's current working tree (ast; no xknx code is imported or run). Rules applied: "
                + " || ".join(self.rules),
                "evaluations": max(total, 1),
                "distinct_nontrivial": distinct,
                "rule": "one obligation per (rule instance, construct) found in the analysed functions; distinct = distinct construct keys",
                "obligations": total,
                "discharged": discharged,
                "samples": samples,
                "analysed": self.analysed,
                "analysed_units": self.analysed_units,
                "trusted_base": ["CPython ast parser", "sa/ engines (hand-built CFG, dominators, tables)"],
                "known_findings": [{"key": o.key, "site": o.site, "what": k.get("what", "")} for o, k in known_hit],
                "violations": [{"rule": o.rule, "site": o.site, "detail": o.detail, "key": o.key} for o in viol],
                "notes": self.notes,
                **self.extra,
            },
            "assumptions": self.assumptions,
            "wall_s": round(wall, 3),
            "violations": len(viol),
        }
        EVIDENCE_DIR.mkdir(parents=True, exist_ok=True)
        (EVIDENCE_DIR / f"{self.pid}.json").write_text(json.dumps(ev, indent=1, default=str) + "\n")
        print(
            f"[{self.pid}] tier={self.tier} units={len(self.analysed_units)} obligations={total} "
            f"discharged={discharged} known={len(known_hit)} violations={len(viol)} wall={wall:.2f}s"
        )
        for k, v in sorted(self.analysed.items()):
            print(f"  analysed {k}: {v}")
        seen_known: set[str] = set()
        for o, k in known_hit:
            if o.key in seen_known:
                continue
            seen_known.add(o.key)
            print(f"KNOWN-FINDING: property={self.pid} {k.get('what', o.detail)} [{o.site}]")
        if viol:
            vdir = EVIDENCE_DIR / "violations"
            vdir.mkdir(parents=True, exist_ok=True)
            rp = vdir / f"{self.pid}.json"
            rp.write_text(
                json.dumps(
                    [{"rule": o.rule, "site": o.site, "detail": o.detail, "key": o.key} for o in viol],
                    indent=1,
                )
                + "\n"
            )
            for o in viol:
                print(f"  FAIL rule={o.rule} site={o.site}\n       {o.detail}\n       key={o.key}")
            print(f"VIOLATION property={self.pid} replay={rp}")
            return 1
        return 0


def _strip_line(site: str) -> str:
    parts = site.split(":")
    if len(parts) >= 3 and parts[1].isdigit():
        return ":".join([parts[0]] + parts[2:])
    return site


def _sample(obs: list[Obligation]) -> list[Obligation]:
    bad = [o for o in obs if not o.ok]
    good = [o for o in obs if o.ok]
    per_rule: dict[str, Obligation] = {}
    for o in good:
        per_rule.setdefault(o.rule, o)
    out = bad[:10] + list(per_rule.values())[:25]
    return out or obs[:5]


def _load_known(pid: str) -> list[dict]:
    if not KNOWN.exists():
        return []
    data = json.loads(KNOWN.read_text())
    return [k for k in data.get("findings", []) if k.get("property") == pid and k.get("status", "open") == "open"]


def canon(node: ast.AST) -> str:
    """Canonical statement text (no line numbers, whitespace-normalised)."""
    return " ".join(ast.unparse(node).split())


def run_check(pid: str, fn, tier: str) -> int:
    chk = Check(pid, tier)
    try:
        fn(chk)
        return chk.finish()
    except AnalysisError as exc:
        print(f"ANALYSIS-ERROR property={pid} {exc}")
        return 2
    except Exception as exc:  # noqa: BLE001
        import traceback

        traceback.print_exc()
        print(f"ANALYSIS-ERROR property={pid} internal error: {type(exc).__name__}: {exc}")
        return 2
