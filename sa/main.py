"""CLI: ./check <property id> [--tier quick|thorough]"""

from __future__ import annotations

import argparse
import importlib
import os
import sys

from .loader import AnalysisError, Repo
from .report import run_check


def main(argv: list[str] | None = None) -> int:
    ap = argparse.ArgumentParser()
    ap.add_argument("pid")
    ap.add_argument("--tier", default=os.environ.get("VERIF_TIER", "quick"), choices=["quick", "thorough"])
    args = ap.parse_args(argv)
    pid = args.pid.upper()
    try:
        mod = importlib.import_module(f"sa.props.{pid.lower()}")
    except ModuleNotFoundError:
        print(f"ANALYSIS-ERROR property={pid} no checker module")
        return 2

    def fn(chk):
        repo = Repo()
        chk.count("modules_parsed", len(repo.modules))
        mod.run(chk, repo)
        if args.tier == "thorough" and not os.environ.get("VERIF_NO_SELFTEST"):
            from .thorough import self_test
            self_test(chk, pid)

    return run_check(pid, fn, args.tier)


if __name__ == "__main__":
    import signal
    signal.signal(signal.SIGPIPE, signal.SIG_DFL)
    rc = main()
    sys.stdout.flush()
    os._exit(rc)
