#!/usr/bin/env python3
"""Behaviour-preserving whole-package twins of /repo/xknx for false-alarm hunting.
  rename : every function-local variable (not parameters, not imports, not global/nonlocal) gets the suffix `_rn`
  format : every module re-emitted with ast.unparse (comments dropped, parenthesisation / quoting / line numbers change)
usage: python -m sa.autotwin <mode> <dest-dir>     (creates <dest-dir>/xknx); used by the thorough tier"""
import ast, os, pathlib, shutil, sys


class Renamer(ast.NodeTransformer):
    def __init__(self) -> None:
        self.stack: list[dict[str, str]] = []

    def _locals(self, fn) -> dict[str, str]:
        params = {a.arg for a in fn.args.posonlyargs + fn.args.args + fn.args.kwonlyargs}
        if fn.args.vararg:
            params.add(fn.args.vararg.arg)
        if fn.args.kwarg:
            params.add(fn.args.kwarg.arg)
        excluded, stores = set(params), set()

        def walk(n, top=True):
            for ch in ast.iter_child_nodes(n):
                if isinstance(ch, (ast.FunctionDef, ast.AsyncFunctionDef, ast.ClassDef, ast.Lambda)):
                    if not isinstance(ch, ast.Lambda):
                        excluded.add(ch.name)
                    continue
                if isinstance(ch, (ast.Global, ast.Nonlocal)):
                    excluded.update(ch.names)
                if isinstance(ch, (ast.Import, ast.ImportFrom)):
                    excluded.update((a.asname or a.name).split(".")[0] for a in ch.names)
                if isinstance(ch, ast.Name) and isinstance(ch.ctx, ast.Store):
                    stores.add(ch.id)
                if isinstance(ch, ast.ExceptHandler) and ch.name:
                    stores.add(ch.name)
                if isinstance(ch, (ast.MatchAs, ast.MatchStar)) and ch.name:
                    excluded.add(ch.name)
                walk(ch, False)
        walk(fn)
        # comprehension targets are their own scope: leave them alone (exclude), they may shadow
        for n in ast.walk(fn):
            if isinstance(n, ast.comprehension):
                for t in ast.walk(n.target):
                    if isinstance(t, ast.Name):
                        excluded.add(t.id)
        return {s: s + "_rn" for s in stores - excluded if not s.startswith("__")}

    def visit_FunctionDef(self, node):
        # names free in nested functions keep the outer mapping; own locals shadow
        outer = self.stack[-1] if self.stack else {}
        own = self._locals(node)
        params = {a.arg for a in node.args.posonlyargs + node.args.args + node.args.kwonlyargs} | ({node.args.vararg.arg} if node.args.vararg else set()) | ({node.args.kwarg.arg} if node.args.kwarg else set())
        nonloc = {n for st in ast.walk(node) if isinstance(st, ast.Nonlocal) for n in st.names}
        m = {k: v for k, v in outer.items() if k not in params or k in nonloc}
        m.update(own)
        # decorators / defaults / annotations are evaluated in the enclosing scope
        node.decorator_list = [self.visit(d) for d in node.decorator_list]
        self.stack.append(m)
        node.body = [self.visit(s) for s in node.body]
        self.stack.pop()
        return node

    visit_AsyncFunctionDef = visit_FunctionDef

    def visit_ClassDef(self, node):
        # a class body inside a function sees the function's locals by closure only for free names; keep the mapping
        self.generic_visit(node)
        return node

    def visit_Lambda(self, node):
        params = {a.arg for a in node.args.posonlyargs + node.args.args + node.args.kwonlyargs}
        outer = self.stack[-1] if self.stack else {}
        self.stack.append({k: v for k, v in outer.items() if k not in params})
        node.body = self.visit(node.body)
        self.stack.pop()
        return node

    def visit_Name(self, node):
        if self.stack and node.id in self.stack[-1]:
            node.id = self.stack[-1][node.id]
        return node

    def visit_ExceptHandler(self, node):
        if self.stack and node.name and node.name in self.stack[-1]:
            node.name = self.stack[-1][node.name]
        self.generic_visit(node)
        return node


class KwReverse(ast.NodeTransformer):
    """keyword arguments of every call in reverse order (the `**mapping` entries keep their place at the end)"""

    def visit_Call(self, node: ast.Call):
        self.generic_visit(node)
        named = [k for k in node.keywords if k.arg is not None]
        star = [k for k in node.keywords if k.arg is None]
        if len(named) > 1 and not star:
            node.keywords = list(reversed(named))
        return node


class CmpSwap(ast.NodeTransformer):
    """`a == b` -> `b == a`, `a != b` -> `b != a`, `a is b` -> `b is a` for single comparisons whose operands are names,
    attributes, constants or subscripts of those (no calls: evaluation order is untouched)"""

    @staticmethod
    def _simple(e: ast.AST) -> bool:
        return all(isinstance(x, (ast.Name, ast.Attribute, ast.Constant, ast.Subscript, ast.Load, ast.UnaryOp, ast.USub, ast.Slice)) for x in ast.walk(e))

    def visit_Compare(self, node: ast.Compare):
        self.generic_visit(node)
        if len(node.ops) == 1 and isinstance(node.ops[0], (ast.Eq, ast.NotEq, ast.Is, ast.IsNot)) and self._simple(node.left) and self._simple(node.comparators[0]) and not (isinstance(node.comparators[0], ast.Constant) and node.comparators[0].value is None):
            node.left, node.comparators = node.comparators[0], [node.left]
        return node


class IfSwap(ast.NodeTransformer):
    """`if c: A else: B` -> `if not c: B else: A` (only when there is a real else block, not an elif chain)"""

    def visit_If(self, node: ast.If):
        self.generic_visit(node)
        if node.orelse and not (len(node.orelse) == 1 and isinstance(node.orelse[0], ast.If)):
            node.test = ast.UnaryOp(op=ast.Not(), operand=node.test)
            node.body, node.orelse = node.orelse, node.body
        return node


class Elseify(ast.NodeTransformer):
    """`if c: ...return/raise` followed by more statements -> the following statements become the else block"""

    def _block(self, stmts: list[ast.stmt]) -> list[ast.stmt]:
        out: list[ast.stmt] = []
        i = 0
        while i < len(stmts):
            st = stmts[i]
            if isinstance(st, ast.If) and not st.orelse and st.body and isinstance(st.body[-1], (ast.Return, ast.Raise)) and i + 1 < len(stmts) and not any(isinstance(x, (ast.FunctionDef, ast.AsyncFunctionDef, ast.ClassDef)) for x in stmts[i + 1:]):
                st.orelse = self._block(stmts[i + 1:])
                out.append(st)
                return out
            out.append(st)
            i += 1
        return out

    def visit_FunctionDef(self, node):
        self.generic_visit(node)
        node.body = self._block(node.body)
        return node

    visit_AsyncFunctionDef = visit_FunctionDef


def make_twin(mode: str, src: pathlib.Path, dest: pathlib.Path) -> None:
    """copy src/xknx to dest/xknx, rewriting every module (mode: 'rename' | 'format')"""
    shutil.copytree(src / "xknx", dest / "xknx", ignore=shutil.ignore_patterns("__pycache__"))
    for p in (dest / "xknx").rglob("*.py"):
        t = ast.parse(p.read_text())
        if mode == "rename":
            t = Renamer().visit(t)
        elif mode == "kwreverse":
            t = KwReverse().visit(t)
        elif mode == "cmpswap":
            t = CmpSwap().visit(t)
        elif mode == "ifswap":
            t = IfSwap().visit(t)
        elif mode == "elseify":
            t = Elseify().visit(t)
        ast.fix_missing_locations(t)
        out = ast.unparse(t) + "\n"
        compile(out, str(p), "exec")
        p.write_text(out)


if __name__ == "__main__":
    make_twin(sys.argv[1], pathlib.Path(os.environ.get("VERIF_REPO", "/repo")), pathlib.Path(sys.argv[2]))
