"""`match` statements rewritten into the if/elif chains they mean (for the pattern kinds with a direct reading), so that
the CFG, the abstract machine and the may-raise engine see ordinary tests and assignments.

  case <value>            ->  subject == <value>
  case None/True/False    ->  subject is <c>
  case _                  ->  True
  case name               ->  True, and `name = subject` at the start of the body   (a CAPTURE, not a comparison)
  case C(attr=<p>, ...)   ->  isinstance(subject, C) and <p on subject.attr> ...      (sub-patterns recursively)
  case p1 | p2            ->  <p1> or <p2>        (without captures)
  case <p> if <guard>     ->  <p> and <guard with captured names replaced by what they capture>
Positional class sub-patterns, sequence, mapping and star patterns raise AnalysisError (not guessed)."""

from __future__ import annotations

import ast
import copy


class Unsupported(Exception):
    pass


def _pattern(p: ast.pattern, subj: ast.expr) -> tuple[ast.expr, list[tuple[str, ast.expr]]]:
    """(condition, captures [(name, expression captured)])"""
    T = ast.Constant(value=True)
    if isinstance(p, ast.MatchValue):
        return ast.Compare(left=copy.deepcopy(subj), ops=[ast.Eq()], comparators=[p.value]), []
    if isinstance(p, ast.MatchSingleton):
        return ast.Compare(left=copy.deepcopy(subj), ops=[ast.Is()], comparators=[ast.Constant(value=p.value)]), []
    if isinstance(p, ast.MatchAs):
        if p.pattern is None:
            return T, ([(p.name, copy.deepcopy(subj))] if p.name else [])
        c, caps = _pattern(p.pattern, subj)
        return c, caps + ([(p.name, copy.deepcopy(subj))] if p.name else [])
    if isinstance(p, ast.MatchClass):
        if p.patterns:
            raise Unsupported("positional class sub-patterns (__match_args__)")
        conds: list[ast.expr] = [ast.Call(func=ast.Name(id="isinstance", ctx=ast.Load()), args=[copy.deepcopy(subj), p.cls], keywords=[])]
        caps: list[tuple[str, ast.expr]] = []
        for attr, sub in zip(p.kwd_attrs, p.kwd_patterns):
            c, cc = _pattern(sub, ast.Attribute(value=copy.deepcopy(subj), attr=attr, ctx=ast.Load()))
            if not (isinstance(c, ast.Constant) and c.value is True):
                conds.append(c)
            caps += cc
        return (conds[0] if len(conds) == 1 else ast.BoolOp(op=ast.And(), values=conds)), caps
    if isinstance(p, ast.MatchOr):
        parts = [_pattern(q, subj) for q in p.patterns]
        if any(c for _, c in parts):
            raise Unsupported("captures inside an or-pattern")
        return ast.BoolOp(op=ast.Or(), values=[c for c, _ in parts]), []
    raise Unsupported(type(p).__name__)


class _Subst(ast.NodeTransformer):
    def __init__(self, m: dict[str, ast.expr]) -> None:
        self.m = m

    def visit_Name(self, n: ast.Name):
        if isinstance(n.ctx, ast.Load) and n.id in self.m:
            return copy.deepcopy(self.m[n.id])
        return n


class MatchDesugar(ast.NodeTransformer):
    def __init__(self) -> None:
        self.k = 0

    def visit_Match(self, node: ast.Match):
        self.generic_visit(node)
        self.k += 1
        sname = f"__match_subject_{node.lineno}_{self.k}"
        subj = ast.Name(id=sname, ctx=ast.Load())
        head: list[ast.stmt] = [ast.Assign(targets=[ast.Name(id=sname, ctx=ast.Store())], value=node.subject, lineno=node.lineno)]
        chain: ast.If | None = None
        last: ast.If | None = None
        for case in node.cases:
            cond, caps = _pattern(case.pattern, subj)
            if case.guard is not None:
                g = _Subst(dict(caps)).visit(copy.deepcopy(case.guard))
                cond = g if (isinstance(cond, ast.Constant) and cond.value is True) else ast.BoolOp(op=ast.And(), values=[cond, g])
            binds: list[ast.stmt] = [ast.Assign(targets=[ast.Name(id=n, ctx=ast.Store())], value=e, lineno=case.pattern.lineno) for n, e in caps]
            node_if = ast.If(test=cond, body=binds + case.body, orelse=[])
            ast.copy_location(node_if, case.pattern)
            if chain is None:
                chain = node_if
            else:
                assert last is not None
                last.orelse = [node_if]
            last = node_if
        out = head + ([chain] if chain is not None else [])
        for n in out:
            ast.copy_location(n, node)
            ast.fix_missing_locations(n)
        return out


def _const_like(e: ast.AST) -> bool:
    """a constant, an ALL_CAPS name, or an attribute chain rooted in a Capitalised name (class / enum constant)"""
    if isinstance(e, ast.Constant):
        return True
    if isinstance(e, ast.UnaryOp) and isinstance(e.operand, ast.Constant):
        return True
    if isinstance(e, ast.Name):
        return e.id.isupper() or (e.id[:1].isupper() and not e.id.isupper())
    if isinstance(e, ast.Attribute):
        r: ast.AST = e
        while isinstance(r, ast.Attribute):
            r = r.value
        return isinstance(r, ast.Name) and r.id[:1].isupper()
    return False


def _pure_operand(e: ast.AST) -> bool:
    return all(isinstance(x, (ast.Name, ast.Attribute, ast.Constant, ast.Subscript, ast.Slice, ast.UnaryOp, ast.USub, ast.UAdd, ast.Not, ast.expr_context)) for x in ast.walk(e))


class CanonCompare(ast.NodeTransformer):
    """`==`, `!=`, `is`, `is not` are symmetric: one operand order for the analyses, whatever the source says.
    The constant-like operand goes right; two non-constants are ordered by their text.  Only call-free operands are
    reordered (evaluation order of calls stays as written)."""

    def visit_Compare(self, node: ast.Compare):
        self.generic_visit(node)
        if len(node.ops) == 1 and isinstance(node.ops[0], (ast.Eq, ast.NotEq, ast.Is, ast.IsNot)):
            a, b = node.left, node.comparators[0]
            if _pure_operand(a) and _pure_operand(b):
                ca, cb = _const_like(a), _const_like(b)
                swap = (ca and not cb) or (ca == cb and ast.unparse(a) > ast.unparse(b))
                if swap:
                    node.left, node.comparators = b, [a]
        return node


def desugar(tree: ast.Module) -> ast.Module:
    if any(isinstance(n, ast.Match) for n in ast.walk(tree)):
        tree = ast.fix_missing_locations(MatchDesugar().visit(tree))
    return CanonCompare().visit(tree)
