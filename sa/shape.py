"""E10 helpers: normalise expressions for sibling call-shape comparison and def-use lookups."""

from __future__ import annotations

import ast
import copy
from typing import Iterable

from .astx import walk_local
from .loader import FuncInfo


def single_assignments(func: ast.AST) -> dict[str, ast.expr]:
    """name -> value for locals assigned exactly once by a plain `name = expr` (no tuple targets)."""
    counts: dict[str, int] = {}
    vals: dict[str, ast.expr] = {}
    for n in walk_local(func):
        if isinstance(n, ast.Assign):
            for t in n.targets:
                for x in ast.walk(t):
                    if isinstance(x, ast.Name):
                        counts[x.id] = counts.get(x.id, 0) + 1
                if isinstance(t, ast.Name):
                    vals[t.id] = n.value
        elif isinstance(n, (ast.AnnAssign, ast.AugAssign)):
            if isinstance(n.target, ast.Name):
                counts[n.target.id] = counts.get(n.target.id, 0) + (1 if getattr(n, "value", None) is not None else 0)
                if isinstance(n, ast.AnnAssign) and n.value is not None:
                    vals[n.target.id] = n.value
                if isinstance(n, ast.AugAssign):
                    counts[n.target.id] += 1
        elif isinstance(n, ast.NamedExpr):
            counts[n.target.id] = counts.get(n.target.id, 0) + 1
            vals[n.target.id] = n.value
        elif isinstance(n, (ast.For, ast.AsyncFor)):
            for x in ast.walk(n.target):
                if isinstance(x, ast.Name):
                    counts[x.id] = counts.get(x.id, 0) + 2
        elif isinstance(n, (ast.With, ast.AsyncWith)):
            for it in n.items:
                if it.optional_vars is not None:
                    for x in ast.walk(it.optional_vars):
                        if isinstance(x, ast.Name):
                            counts[x.id] = counts.get(x.id, 0) + 2
    return {k: v for k, v in vals.items() if counts.get(k) == 1}


class _Inliner(ast.NodeTransformer):
    def __init__(self, defs: dict[str, ast.expr], rename: dict[str, str], depth: int = 0) -> None:
        self.defs = defs
        self.rename = rename
        self.depth = depth

    def visit_Name(self, node: ast.Name) -> ast.AST:
        if isinstance(node.ctx, ast.Load):
            if node.id in self.defs and self.depth < 12:
                sub = copy.deepcopy(self.defs[node.id])
                return _Inliner(self.defs, self.rename, self.depth + 1).visit(sub)
            if node.id in self.rename:
                return ast.parse(self.rename[node.id], mode="eval").body
        return node

    def visit_Attribute(self, node: ast.Attribute) -> ast.AST:
        text = ast.unparse(node)
        if text in self.rename:
            return ast.parse(self.rename[text], mode="eval").body
        return self.generic_visit(node)


def normalise(expr: ast.expr, defs: dict[str, ast.expr] | None = None, rename: dict[str, str] | None = None) -> str:
    e = copy.deepcopy(expr)
    e = _Inliner(defs or {}, rename or {}).visit(e)
    return " ".join(ast.unparse(e).split())


def bind_call(call: ast.Call, callee: FuncInfo | ast.FunctionDef, skip_self: bool = False) -> dict[str, ast.expr]:
    node = callee.node if isinstance(callee, FuncInfo) else callee
    params = [a.arg for a in node.args.posonlyargs + node.args.args]
    if skip_self and params and params[0] in ("self", "cls"):
        params = params[1:]
    out: dict[str, ast.expr] = {}
    for p, a in zip(params, call.args):
        out[p] = a
    for k in call.keywords:
        if k.arg:
            out[k.arg] = k.value
    return out


def names_in(expr: ast.AST) -> set[str]:
    out: set[str] = set()
    for n in ast.walk(expr):
        if isinstance(n, ast.Name):
            out.add(n.id)
        elif isinstance(n, ast.Attribute):
            out.add(ast.unparse(n))
    return out


def param_flows_to_return(func: ast.FunctionDef | ast.AsyncFunctionDef) -> dict[str, bool]:
    """For a function whose returns are expressions over params/single-assignment locals: does each param reach every return value?"""
    defs = single_assignments(func)
    params = [a.arg for a in func.args.args if a.arg not in ("self", "cls")]
    rets = [n for n in walk_local(func) if isinstance(n, ast.Return) and n.value is not None]
    out = {}
    for p in params:
        ok = bool(rets)
        for r in rets:
            text = normalise(r.value, defs)  # type: ignore[arg-type]
            ok = ok and p in names_in(ast.parse(text, mode="eval"))
        out[p] = ok
    return out
