"""Repository loader: parses every xknx/**/*.py of the tree under analysis.

Nothing is imported or executed; everything is `ast`.  Provides module / class /
function tables, import resolution (incl. package re-exports), a linearised MRO,
and constant folding of class/module level literals and enum members.
"""

from __future__ import annotations

import ast
import os
from dataclasses import dataclass, field
from pathlib import Path
from typing import Any, Iterator


class AnalysisError(Exception):
    """Anchor vanished / unsupported construct: the run is broken, not passing."""


REPO_ROOT = Path(os.environ.get("VERIF_REPO", "/repo"))


class _NoFold(Exception):
    pass


NOFOLD = object()


@dataclass
class FuncInfo:
    name: str
    qualname: str  # Class.method or function
    module: "Module"
    cls: "ClassInfo | None"
    node: ast.FunctionDef | ast.AsyncFunctionDef

    @property
    def is_async(self) -> bool:
        return isinstance(self.node, ast.AsyncFunctionDef)

    @property
    def ref(self) -> str:
        return f"{self.module.name}:{self.qualname}"

    @property
    def decorators(self) -> list[str]:
        return [ast.unparse(d) for d in self.node.decorator_list]

    def site(self, node: ast.AST | None = None) -> str:
        n = node if node is not None else self.node
        return f"{self.module.relpath}:{getattr(n, 'lineno', 0)}:{self.qualname}"

    def __hash__(self) -> int:
        return hash(self.ref)

    def __eq__(self, o: object) -> bool:
        return isinstance(o, FuncInfo) and o.ref == self.ref


@dataclass
class ClassInfo:
    name: str
    module: "Module"
    node: ast.ClassDef
    methods: dict[str, FuncInfo] = field(default_factory=dict)
    attrs: dict[str, ast.expr] = field(default_factory=dict)  # class-level name = expr
    annotations: dict[str, ast.expr] = field(default_factory=dict)
    base_exprs: list[ast.expr] = field(default_factory=list)
    bases: list["ClassInfo"] = field(default_factory=list)
    ext_bases: list[str] = field(default_factory=list)  # unresolved (stdlib) bases

    @property
    def ref(self) -> str:
        return f"{self.module.name}:{self.name}"

    def __hash__(self) -> int:
        return hash(self.ref)

    def __eq__(self, o: object) -> bool:
        return isinstance(o, ClassInfo) and o.ref == self.ref

    def __repr__(self) -> str:
        return f"<class {self.ref}>"


@dataclass
class Module:
    name: str
    path: Path
    relpath: str
    tree: ast.Module
    source: str
    is_package: bool
    imports: dict[str, tuple[str, str | None]] = field(default_factory=dict)
    functions: dict[str, FuncInfo] = field(default_factory=dict)
    classes: dict[str, ClassInfo] = field(default_factory=dict)
    assigns: dict[str, ast.expr] = field(default_factory=dict)

    @property
    def package(self) -> str:
        return self.name if self.is_package else self.name.rpartition(".")[0]


class Repo:
    def __init__(self, root: Path | None = None, package: str = "xknx") -> None:
        self.root = Path(root) if root else REPO_ROOT
        self.package = package
        self.modules: dict[str, Module] = {}
        self._mro_cache: dict[str, list[ClassInfo]] = {}
        self._load()
        self._link()

    # ------------------------------------------------------------------ load
    def _load(self) -> None:
        pkg_root = self.root / self.package
        if not pkg_root.is_dir():
            raise AnalysisError(f"package directory missing: {pkg_root}")
        for path in sorted(pkg_root.rglob("*.py")):
            rel = path.relative_to(self.root)
            parts = list(rel.with_suffix("").parts)
            is_pkg = parts[-1] == "__init__"
            if is_pkg:
                parts = parts[:-1]
            name = ".".join(parts)
            src = path.read_text(encoding="utf-8")
            try:
                tree = ast.parse(src, filename=str(path))
                try:
                    from .desugar import Unsupported as _U, desugar
                    tree = desugar(tree)
                except _U as err:
                    raise AnalysisError(f"{path}: match pattern outside the supported fragment: {err}") from err
            except SyntaxError as exc:  # a tree that does not parse is not analysable
                raise AnalysisError(f"syntax error in {rel}: {exc}") from exc
            mod = Module(name, path, str(rel), tree, src, is_pkg)
            self.modules[name] = mod
            self._index_module(mod)

    def _index_module(self, mod: Module) -> None:
        def visit_body(body: list[ast.stmt], in_type_checking: bool = False) -> None:
            for st in body:
                if isinstance(st, ast.Import):
                    for a in st.names:
                        mod.imports[(a.asname or a.name).split(".")[0]] = (
                            a.name if a.asname else a.name.split(".")[0],
                            None,
                        )
                elif isinstance(st, ast.ImportFrom):
                    base = st.module or ""
                    if st.level:
                        pkg = mod.package.split(".")
                        if st.level > 1:
                            pkg = pkg[: -(st.level - 1)]
                        base = ".".join(pkg + ([st.module] if st.module else []))
                    for a in st.names:
                        mod.imports[a.asname or a.name] = (base, a.name)
                elif isinstance(st, (ast.FunctionDef, ast.AsyncFunctionDef)):
                    mod.functions[st.name] = FuncInfo(st.name, st.name, mod, None, st)
                elif isinstance(st, ast.ClassDef):
                    self._index_class(mod, st)
                elif isinstance(st, ast.Assign):
                    for t in st.targets:
                        if isinstance(t, ast.Name):
                            mod.assigns[t.id] = st.value
                elif isinstance(st, ast.AnnAssign):
                    if isinstance(st.target, ast.Name) and st.value is not None:
                        mod.assigns[st.target.id] = st.value
                elif isinstance(st, ast.If):
                    visit_body(st.body)
                    visit_body(st.orelse)
                elif isinstance(st, ast.Try):
                    visit_body(st.body)
                    for h in st.handlers:
                        visit_body(h.body)

        visit_body(mod.tree.body)

    def _index_class(self, mod: Module, node: ast.ClassDef, prefix: str = "") -> None:
        ci = ClassInfo(prefix + node.name, mod, node, base_exprs=list(node.bases))
        mod.classes[ci.name] = ci
        for st in node.body:
            if isinstance(st, (ast.FunctionDef, ast.AsyncFunctionDef)):
                # property setters etc. share a name: keep first getter, store others suffixed
                key = st.name
                if key in ci.methods:
                    alt = f"{st.name}@{len([k for k in ci.methods if k.split('@')[0] == st.name])}"
                    prev = ci.methods[key]
                    if any("overload" in ast.unparse(d) for d in prev.node.decorator_list):
                        ci.methods[alt] = prev  # typing overload stub: the implementation takes the plain name
                    else:
                        key = alt
                ci.methods[key] = FuncInfo(st.name, f"{ci.name}.{st.name}", mod, ci, st)
            elif isinstance(st, ast.Assign):
                for t in st.targets:
                    if isinstance(t, ast.Name):
                        ci.attrs[t.id] = st.value
                    elif isinstance(t, ast.Tuple):
                        if isinstance(st.value, ast.Tuple) and len(st.value.elts) == len(t.elts):
                            for tt, vv in zip(t.elts, st.value.elts):
                                if isinstance(tt, ast.Name):
                                    ci.attrs[tt.id] = vv
            elif isinstance(st, ast.AnnAssign) and isinstance(st.target, ast.Name):
                ci.annotations[st.target.id] = st.annotation
                if st.value is not None:
                    ci.attrs[st.target.id] = st.value
            elif isinstance(st, ast.ClassDef):
                self._index_class(mod, st, prefix=ci.name + ".")

    def _link(self) -> None:
        for mod in self.modules.values():
            for ci in mod.classes.values():
                for b in ci.base_exprs:
                    tgt = self.resolve_expr(mod, b)
                    if isinstance(tgt, ClassInfo):
                        ci.bases.append(tgt)
                    else:
                        ci.ext_bases.append(ast.unparse(b))

    # --------------------------------------------------------------- resolve
    def resolve(self, modname: str, name: str, _depth: int = 0) -> Any:
        """Resolve a top-level name of a module to ClassInfo/FuncInfo/Module/('const', expr, Module)."""
        if _depth > 12:
            return None
        mod = self.modules.get(modname)
        if mod is None:
            return None
        if name in mod.classes:
            return mod.classes[name]
        if name in mod.functions:
            return mod.functions[name]
        if name in mod.assigns:
            return ("const", mod.assigns[name], mod)
        if name in mod.imports:
            base, attr = mod.imports[name]
            if attr is None:
                return self.modules.get(base)
            sub = f"{base}.{attr}"
            if sub in self.modules and not (
                base in self.modules and self._defines(self.modules[base], attr)
            ):
                return self.modules[sub]
            if base in self.modules:
                return self.resolve(base, attr, _depth + 1)
            return None
        # star imports
        for st in mod.tree.body:
            if isinstance(st, ast.ImportFrom) and any(a.name == "*" for a in st.names):
                pass
        return None

    @staticmethod
    def _defines(mod: Module, name: str) -> bool:
        return name in mod.classes or name in mod.functions or name in mod.assigns or name in mod.imports

    def resolve_expr(self, mod: Module, expr: ast.expr) -> Any:
        """Resolve Name / dotted Attribute / Subscript(Generic[...]) to a repo entity."""
        if isinstance(expr, ast.Subscript):
            return self.resolve_expr(mod, expr.value)
        if isinstance(expr, ast.Name):
            return self.resolve(mod.name, expr.id)
        if isinstance(expr, ast.Attribute):
            base = self.resolve_expr(mod, expr.value)
            if isinstance(base, Module):
                return self.resolve(base.name, expr.attr)
            if isinstance(base, ClassInfo):
                nested = base.module.classes.get(f"{base.name}.{expr.attr}")
                if nested:
                    return nested
                m = self.lookup_method(base, expr.attr)
                if m:
                    return m
                a = self.class_attr_expr(base, expr.attr)
                if a is not None:
                    return ("classattr", a[0], a[1], expr.attr)
            return None
        return None

    # ------------------------------------------------------------- accessors
    def module(self, name: str) -> Module:
        if name not in self.modules:
            raise AnalysisError(f"anchor module vanished: {name}")
        return self.modules[name]

    def cls(self, modname: str, clsname: str) -> ClassInfo:
        mod = self.module(modname)
        if clsname not in mod.classes:
            raise AnalysisError(f"anchor class vanished: {modname}:{clsname}")
        return mod.classes[clsname]

    def func(self, modname: str, qualname: str) -> FuncInfo:
        mod = self.module(modname)
        if "." in qualname:
            cname, _, fname = qualname.rpartition(".")
            ci = mod.classes.get(cname)
            if ci is None or fname not in ci.methods:
                raise AnalysisError(f"anchor function vanished: {modname}:{qualname}")
            return ci.methods[fname]
        if qualname not in mod.functions:
            raise AnalysisError(f"anchor function vanished: {modname}:{qualname}")
        return mod.functions[qualname]

    def has_func(self, modname: str, qualname: str) -> bool:
        try:
            self.func(modname, qualname)
            return True
        except AnalysisError:
            return False

    def all_classes(self) -> Iterator[ClassInfo]:
        for m in self.modules.values():
            yield from m.classes.values()

    def all_functions(self) -> Iterator[FuncInfo]:
        for m in self.modules.values():
            yield from m.functions.values()
            for c in m.classes.values():
                yield from c.methods.values()

    def nested_functions(self, fi: FuncInfo) -> list[FuncInfo]:
        out = []
        for n in ast.walk(fi.node):
            if n is not fi.node and isinstance(n, (ast.FunctionDef, ast.AsyncFunctionDef)):
                out.append(FuncInfo(n.name, f"{fi.qualname}.<locals>.{n.name}", fi.module, fi.cls, n))
        return out

    # ------------------------------------------------------------------- MRO
    def mro(self, ci: ClassInfo) -> list[ClassInfo]:
        if ci.ref in self._mro_cache:
            return self._mro_cache[ci.ref]
        seqs = [self.mro(b)[:] for b in ci.bases] + [ci.bases[:]]
        res = [ci]
        while True:
            seqs = [s for s in seqs if s]
            if not seqs:
                break
            for s in seqs:
                cand = s[0]
                if not any(cand in t[1:] for t in seqs):
                    break
            else:
                raise AnalysisError(f"inconsistent MRO for {ci.ref}")
            res.append(cand)
            for s in seqs:
                if s and s[0] == cand:
                    del s[0]
        self._mro_cache[ci.ref] = res
        return res

    def is_subclass(self, ci: ClassInfo, of: ClassInfo) -> bool:
        return of in self.mro(ci)

    def subclasses(self, of: ClassInfo, strict: bool = False) -> list[ClassInfo]:
        return [c for c in self.all_classes() if of in self.mro(c) and not (strict and c == of)]

    def ext_base_names(self, ci: ClassInfo) -> set[str]:
        out: set[str] = set()
        for c in self.mro(ci):
            out.update(c.ext_bases)
        return out

    def is_enum(self, ci: ClassInfo) -> bool:
        return any(b.split(".")[-1] in ("Enum", "IntEnum", "IntFlag", "Flag", "StrEnum") for b in self.ext_base_names(ci))

    def lookup_method(self, ci: ClassInfo, name: str) -> FuncInfo | None:
        for c in self.mro(ci):
            if name in c.methods:
                return c.methods[name]
        return None

    def class_attr_expr(self, ci: ClassInfo, name: str) -> tuple[ast.expr, ClassInfo] | None:
        for c in self.mro(ci):
            if name in c.attrs:
                return c.attrs[name], c
        return None

    # ------------------------------------------------------- constant folding
    def fold(self, expr: ast.expr, mod: Module, cls: ClassInfo | None = None, _depth: int = 0, body: bool = False) -> Any:
        """Fold a literal expression; returns NOFOLD when not a constant.  `body=True`: the expression sits in the class
        body of `cls` (bare names see class attributes); otherwise it sits in a method (bare names are locals/globals,
        `self.X` is a constant only when X is not an instance field)."""
        try:
            return self._fold(expr, mod, cls, _depth, body)
        except _NoFold:
            return NOFOLD

    def is_instance_attr(self, ci: ClassInfo, name: str) -> bool:
        """X may differ per instance: dataclass-style annotated field (no ClassVar/Final) or assigned through `self.X`
        somewhere in the class family."""
        key = (ci.ref, name)
        memo = self.__dict__.setdefault("_inst_attr_memo", {})
        if key in memo:
            return memo[key]
        fam = list(self.mro(ci)) + [c for c in self.subclasses(ci, strict=True)]
        res = False
        for c in fam:
            ann = c.annotations.get(name)
            if ann is not None:
                at = ast.unparse(ann)
                if "ClassVar" not in at and "Final" not in at:
                    res = True
            for m in c.methods.values():
                for n in ast.walk(m.node):
                    if isinstance(n, ast.Attribute) and n.attr == name and isinstance(n.ctx, (ast.Store, ast.Del)) and isinstance(n.value, ast.Name) and n.value.id == "self":
                        res = True
        memo[key] = res
        return res

    def _fold(self, e: ast.expr, mod: Module, cls: ClassInfo | None, d: int, body: bool = False) -> Any:
        if d > 20:
            raise _NoFold
        if isinstance(e, ast.Constant):
            return e.value
        if isinstance(e, (ast.Tuple, ast.List)):
            vals = [self._fold(x, mod, cls, d + 1, body) for x in e.elts]
            return tuple(vals) if isinstance(e, ast.Tuple) else vals
        if isinstance(e, ast.Set):
            return frozenset(self._fold(x, mod, cls, d + 1, body) for x in e.elts)
        if isinstance(e, ast.UnaryOp):
            v = self._fold(e.operand, mod, cls, d + 1, body)
            if isinstance(e.op, ast.USub):
                return -v
            if isinstance(e.op, ast.UAdd):
                return +v
            if isinstance(e.op, ast.Invert):
                return ~v
            if isinstance(e.op, ast.Not):
                return not v
        if isinstance(e, ast.BinOp):
            a = self._fold(e.left, mod, cls, d + 1, body)
            b = self._fold(e.right, mod, cls, d + 1, body)
            ops = {
                ast.Add: lambda: a + b, ast.Sub: lambda: a - b, ast.Mult: lambda: a * b,
                ast.Div: lambda: a / b, ast.FloorDiv: lambda: a // b, ast.Mod: lambda: a % b,
                ast.Pow: lambda: a ** b, ast.LShift: lambda: a << b, ast.RShift: lambda: a >> b,
                ast.BitOr: lambda: a | b, ast.BitAnd: lambda: a & b, ast.BitXor: lambda: a ^ b,
            }
            f = ops.get(type(e.op))
            if f is None:
                raise _NoFold
            try:
                return f()
            except Exception as exc:  # noqa: BLE001
                raise _NoFold from exc
        if isinstance(e, (ast.GeneratorExp, ast.ListComp, ast.SetComp)) and len(e.generators) == 1 and not e.generators[0].ifs and isinstance(e.generators[0].target, ast.Name) and isinstance(e.generators[0].iter, ast.Name):
            # `x.value for x in SomeEnum` / `x for x in SomeEnum`: the members of a repository enum, in definition order
            tgt = self.resolve(mod.name, e.generators[0].iter.id)
            var = e.generators[0].target.id
            if isinstance(tgt, ClassInfo) and self.is_enum(tgt):
                members = self.enum_members(tgt)
                if isinstance(e.elt, ast.Attribute) and e.elt.attr == "value" and isinstance(e.elt.value, ast.Name) and e.elt.value.id == var:
                    vals = list(members.values())
                elif isinstance(e.elt, ast.Name) and e.elt.id == var:
                    vals = [EnumMember(tgt.ref, k, v) for k, v in members.items()]
                else:
                    raise _NoFold
                return frozenset(vals) if isinstance(e, ast.SetComp) else vals
            raise _NoFold
        if isinstance(e, ast.Call):
            fn = ast.unparse(e.func)
            if fn == "float" and len(e.args) == 1:
                return float(self._fold(e.args[0], mod, cls, d + 1, body))
            if fn == "int" and len(e.args) == 1:
                return int(self._fold(e.args[0], mod, cls, d + 1, body))
            if fn in ("frozenset", "set", "tuple") and len(e.args) == 1:
                v = self._fold(e.args[0], mod, cls, d + 1, body)
                return frozenset(v) if fn != "tuple" else tuple(v)
            if fn == "bytes.fromhex" and len(e.args) == 1:
                return bytes.fromhex(self._fold(e.args[0], mod, cls, d + 1, body))
            raise _NoFold
        if isinstance(e, ast.Name):
            if cls is not None and body:
                hit = self.class_attr_expr(cls, e.id)
                if hit is not None and hit[0] is not e:
                    return self._fold(hit[0], hit[1].module, hit[1], d + 1, True)
            tgt = self.resolve(mod.name, e.id)
            if isinstance(tgt, tuple) and tgt[0] == "const":
                return self._fold(tgt[1], tgt[2], None, d + 1)
            raise _NoFold
        if isinstance(e, ast.Attribute):
            # Enum.MEMBER.value / Enum.MEMBER / Class.CONST / module.CONST
            if e.attr == "value":
                inner = self.resolve_expr(mod, e.value)
                if isinstance(inner, tuple) and inner[0] == "classattr":
                    return self._fold(inner[1], inner[2].module, inner[2], d + 1, True)
            tgt = self.resolve_expr(mod, e)
            if isinstance(tgt, tuple) and tgt[0] == "const":
                return self._fold(tgt[1], tgt[2], None, d + 1)
            if isinstance(tgt, tuple) and tgt[0] == "classattr":
                owner: ClassInfo = tgt[2]
                if self.is_enum(owner):
                    return EnumMember(owner.ref, tgt[3], self.fold(tgt[1], owner.module, owner, d + 1, True))
                return self._fold(tgt[1], owner.module, owner, d + 1, True)
            if isinstance(e.value, ast.Name) and e.value.id in ("self", "cls") and cls is not None:
                hit = self.class_attr_expr(cls, e.attr)
                if hit is not None and not (e.value.id == "self" and self.is_instance_attr(cls, e.attr)):
                    return self._fold(hit[0], hit[1].module, hit[1], d + 1, True)
            raise _NoFold
        raise _NoFold

    def const(self, ci: ClassInfo, name: str) -> Any:
        hit = self.class_attr_expr(ci, name)
        if hit is None:
            return NOFOLD
        return self.fold(hit[0], hit[1].module, ci, body=True)

    def module_const(self, modname: str, name: str) -> Any:
        tgt = self.resolve(modname, name)
        if isinstance(tgt, tuple) and tgt[0] == "const":
            return self.fold(tgt[1], tgt[2])
        return NOFOLD

    def enum_members(self, ci: ClassInfo) -> dict[str, Any]:
        """name -> folded value (auto() -> running int) for an Enum class."""
        out: dict[str, Any] = {}
        auto_n = 0
        for name, expr in ci.attrs.items():
            if name.startswith("_"):
                continue
            if isinstance(expr, ast.Call) and ast.unparse(expr.func) in ("auto", "enum.auto"):
                auto_n += 1
                out[name] = auto_n
            else:
                out[name] = self.fold(expr, ci.module, ci, body=True)
        return out


@dataclass(frozen=True)
class EnumMember:
    enum: str
    name: str
    value: Any = field(compare=False, default=None)

    def __repr__(self) -> str:
        return f"{self.enum.split(':')[-1]}.{self.name}"
