"""Thorough tier: the quick check, then a self-test of the checker against one-edit variants of the CURRENT tree.

Variants come from two committed sources: (1) /verif/seeded/<id>/patch.diff — changes written independently by
sub-agents, each confirmed to break its property while passing the upstream suite; (2) tools/mutants.json — hand
mutants (`expect: violation`) and behaviour-preserving twins (`expect: silent`).  Each variant is applied to a scratch
copy of /repo/xknx under a temporary directory (removed afterwards) and the same static check is run on it — nothing is
executed from the repository.  Results are evidence about the checker (kill ratio, silent twins); a surviving mutant is
reported as CHECKER-WEAK, a noisy twin as CHECKER-NOISY — neither is a violation of the property.
"""

from __future__ import annotations

import json
import os
import shutil
import subprocess
import tempfile
from concurrent.futures import ThreadPoolExecutor
from pathlib import Path

VERIF = Path(__file__).resolve().parent.parent
REPO = Path(os.environ.get("VERIF_REPO", "/repo"))


def _run_variant(pid: str, kind: str, name: str, spec: dict) -> dict:
    tmp = Path(tempfile.mkdtemp(prefix="xkthor_"))
    try:
        shutil.copytree(REPO / "xknx", tmp / "xknx", ignore=shutil.ignore_patterns("__pycache__"))
        if kind == "autotwin":
            shutil.rmtree(tmp / "xknx")
            from .autotwin import make_twin
            make_twin(spec["mode"], REPO, tmp)
        elif kind == "seed":
            r = subprocess.run(["git", "apply", "--whitespace=nowarn", str(spec["patch"])], cwd=tmp, capture_output=True, text=True)
            if r.returncode != 0:
                return {"name": name, "kind": kind, "result": "not-applicable", "detail": r.stderr.strip()[:160]}
        else:
            p = tmp / spec["file"]
            s = p.read_text()
            if s.count(spec["old"]) != 1:
                return {"name": name, "kind": kind, "result": "not-applicable", "detail": f"pattern occurs {s.count(spec['old'])} times"}
            p.write_text(s.replace(spec["old"], spec["new"]))
            try:
                compile(p.read_text(), str(p), "exec")
            except SyntaxError as err:
                return {"name": name, "kind": kind, "result": "not-applicable", "detail": f"does not compile: {err}"}
        env = dict(os.environ, VERIF_REPO=str(tmp), VERIF_EVIDENCE_DIR=str(tmp / "ev"), VERIF_TIER="quick")
        r = subprocess.run([str(VERIF / "check"), pid, "--tier", "quick"], env=env, capture_output=True, text=True)
        first = next((l.strip() for l in r.stdout.splitlines() if l.startswith("  FAIL") or l.startswith("ANALYSIS-ERROR")), "")
        out = {"name": name, "kind": kind, "expect": spec.get("expect", "violation"), "rc": r.returncode, "first_report": first[:200]}
        if kind == "autotwin":
            try:
                out["obligations"] = json.loads((tmp / "ev" / f"{pid}.json").read_text())["coverage"]["obligations"]
            except (OSError, KeyError, ValueError):
                out["obligations"] = None
        return out
    finally:
        shutil.rmtree(tmp, ignore_errors=True)


def self_test(chk, pid: str) -> None:
    jobs: list[tuple[str, str, dict]] = []
    sd = VERIF / "seeded"
    if sd.exists():
        for d in sorted(sd.iterdir()):
            meta, patch = d / "meta.json", d / "patch.diff"
            if not (meta.exists() and patch.exists()):
                continue
            m = json.loads(meta.read_text())
            if m.get("property") == pid or pid in m.get("caught_by", []):
                jobs.append(("seed", d.name, {"patch": patch, "expect": "violation", "target": m.get("property")}))
    mj = VERIF / "tools" / "mutants.json"
    if mj.exists():
        for i, mt in enumerate(json.loads(mj.read_text()).get(pid, [])):
            jobs.append(("mutant", mt.get("name", f"m{i}"), mt))
    # whole-package behaviour-preserving twins: every function-local renamed; every module re-emitted by ast.unparse
    jobs.append(("autotwin", "twin-rename-all-locals", {"mode": "rename", "expect": "silent"}))
    jobs.append(("autotwin", "twin-reformat-all-modules", {"mode": "format", "expect": "silent"}))
    jobs.append(("autotwin", "twin-reverse-keyword-arguments", {"mode": "kwreverse", "expect": "silent"}))
    jobs.append(("autotwin", "twin-swap-symmetric-comparisons", {"mode": "cmpswap", "expect": "silent"}))
    jobs.append(("autotwin", "twin-invert-if-else", {"mode": "ifswap", "expect": "silent"}))
    jobs.append(("autotwin", "twin-early-return-to-else", {"mode": "elseify", "expect": "silent"}))
    with ThreadPoolExecutor(max_workers=min(16, len(jobs))) as ex:
        res = list(ex.map(lambda j: _run_variant(pid, *j), jobs))
    want_v = [r for r in res if r.get("expect", "violation") == "violation" and "rc" in r]
    want_s = [r for r in res if r.get("expect") == "silent" and "rc" in r]
    killed = [r for r in want_v if r["rc"] == 1]
    weak = [r for r in want_v if r["rc"] != 1]
    noisy = [r for r in want_s if r["rc"] != 0]
    # a twin must also give the same number of obligations (a rule silently matching nothing is as wrong as an alarm)
    drift = [r for r in want_s if r.get("kind") == "autotwin" and r["rc"] == 0 and r.get("obligations") not in (None, len(chk.obligations))]
    for r in drift:
        print(f"  CHECKER-NOISY {pid}: twin {r['name']} yields {r['obligations']} obligations, the tree itself {len(chk.obligations)} (a rule depends on naming / layout)")
    chk.extra["self_test"] = {
        "variants": len(res), "mutants_killed": len(killed), "mutants_total": len(want_v), "twins_silent": len(want_s) - len(noisy), "twins_total": len(want_s),
        "checker_weak": [{"name": r["name"], "rc": r["rc"]} for r in weak], "checker_noisy": [{"name": r["name"], "rc": r["rc"], "report": r.get("first_report", "")} for r in noisy],
        "not_applicable": [r for r in res if r.get("result") == "not-applicable"],
        "killed": [{"name": r["name"], "report": r.get("first_report", "")} for r in killed],
    }
    chk.count("self-test variants analysed", len(res))
    chk.count("self-test mutants killed", len(killed))
    print(f"  self-test: {len(killed)}/{len(want_v)} variants reported, {len(want_s) - len(noisy)}/{len(want_s)} behaviour-preserving twins silent")
    for r in weak:
        print(f"  CHECKER-WEAK {pid}: variant {r['name']} not reported (rc={r['rc']})")
    for r in noisy:
        print(f"  CHECKER-NOISY {pid}: twin {r['name']} reported (rc={r['rc']}) {r.get('first_report', '')[:120]}")
