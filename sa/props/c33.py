"""C33 — outgoing telegrams in order, one at a time, never stall the queue.

 (a) pairing: abstract path enumeration of one iteration of `_telegram_consumer` and of
     `_outgoing_rate_limiter` over {telegram None / INCOMING / OUTGOING} x {processing outcome:
     ok / CommunicationError / XKNXException / other Exception}: every dequeued telegram gets exactly
     one `telegrams.task_done()` (directly, or after the hand-off through `outgoing_queue`, where the
     limiter also marks its own queue done exactly once); the loops end only on the None sentinel.
 (b) order / one at a time: both queues are FIFO asyncio.Queue; the limiter awaits the processing
     in-line (no task spawned for it); a single consumer/limiter pair is created in start().
 (c) internal addresses: send_telegram is control-dependent on `not isinstance(dest,
     InternalGroupAddress)`; devices.process and the callbacks are not.
 (d) rate: with a rate limit, the previous pacing task is awaited before the next send and a new
     `sleep(1 / rate_limit)` task is started per non-internal telegram (shape only; spacing itself
     is a clock quantity and not decided).
"""

from __future__ import annotations

import ast

from ..absmachine import AbsMachine, Obj, Outcome, Raise, UNKNOWN, class_isinstance
from ..astx import attr_writes, call_name, calls, method_name, walk_local
from ..cfg import CFG
from ..exctable import ExcTable
from ..explore import Explorer
from ..loader import AnalysisError, EnumMember, Repo
from ..report import Check

TQ = "xknx.core.telegram_queue"
DIR = "xknx.telegram.telegram:TelegramDirection"


def _loop_head(cfg: CFG) -> int:
    heads = [n for n in cfg.nodes if n.kind == "join" and isinstance(n.ast, ast.While) and not n.loops and any(l in ("loop", "continue") for _, l in n.pred)]
    if len(heads) != 1:
        raise AnalysisError("expected exactly one outer loop")
    return heads[0].id


def _enum_hook(repo, fi):
    def hook(e, env):
        if isinstance(e, ast.Attribute):
            v = repo.fold(e, fi.module, fi.cls)
            if isinstance(v, EnumMember):
                return v
        return UNKNOWN
    return hook


def check_consumer(chk: Check, repo: Repo) -> None:
    fi = repo.func(TQ, "TelegramQueue._telegram_consumer")
    chk.unit(fi)
    cfg = CFG(fi.node)
    exc = ExcTable(repo)
    head = _loop_head(cfg)
    dirs = list(repo.enum_members(repo.cls("xknx.telegram.telegram", "TelegramDirection")))
    chk.ob("directions", fi.site(), sorted(dirs) == ["INCOMING", "OUTGOING"], f"TelegramDirection members {dirs} (both handled below; a new member needs a branch)", key="directions")
    cases = [("None", None)] + [(d, Obj("Telegram", d, (("direction", EnumMember(DIR, d)),))) for d in dirs]
    for label, tg in cases:
        def call_model(c: ast.Call, env, tg=tg):
            n = call_name(c)
            if n == "self.xknx.telegrams.get":
                return [Outcome("GET", tg)]
            if n == "self.xknx.telegrams.task_done":
                return [Outcome("DONE", None)]
            if n == "self.outgoing_queue.put_nowait":
                if c.args and isinstance(c.args[0], ast.Constant) and c.args[0].value is None:
                    arg = "None"
                else:
                    v = am_box["am"].ev(c.args[0], env, {})  # what is handed over, by value (not by the name of the local)
                    arg = "telegram" if (tg is not None and v == tg) else f"other:{ast.unparse(c.args[0])}"
                return [Outcome(f"HANDOFF({arg})", None)]
            if n == "self.outgoing_queue.join":
                # the wait can be cancelled (a stop() under wait_for while a send is slow)
                return [Outcome("JOIN_OUT", None), Outcome("JOIN_OUT:cancelled", Raise("CancelledError"))]
            if n == "self.xknx.telegrams.empty":
                return [Outcome("EMPTY:yes", True), Outcome("EMPTY:no", False)]
            if n == "self.xknx.telegrams.put_nowait":
                return [Outcome("REQUEUE(" + ("None" if c.args and isinstance(c.args[0], ast.Constant) and c.args[0].value is None else "other") + ")", None)]
            if n == "self.process_telegram_incoming":
                return [Outcome("IN:ok", None), Outcome("IN:xknx", Raise("XKNXException")), Outcome("IN:comm", Raise("CommunicationError")), Outcome("IN:other", Raise("ValueError"))]
            if n == "self.process_telegram_outgoing":
                return [Outcome("OUT:direct", None)]
            if n.endswith("set_decoded_data"):
                return [Outcome("DECODE", None)]
            return None

        am_box: dict = {}
        am = AbsMachine(cfg, exc, call_model, _enum_hook(repo, fi))
        am_box["am"] = am
        paths = Explorer(cfg, repo, am.step).run(head, [head], {})
        for p in paths:
            tr = tuple(t for t in p.env.get("trace", ()) if not t.startswith("raise:"))
            end = "head" if p.end == head else p.end_kind
            done = tr.count("DONE")
            handoff = [t for t in tr if t.startswith("HANDOFF(") and t != "HANDOFF(None)"]
            problems = []
            if tr.count("GET") != 1 or tr[0] != "GET":
                problems.append("not exactly one get() at the start of the iteration")
            if label == "None":
                # the sentinel ends the run only when nothing was queued behind it (by a device or a callback while the
                # queue was being stopped): those telegrams are processed first - the sentinel goes behind them - else
                # they are never sent nor marked done and join() hangs after stop() returned
                late = "EMPTY:no" in tr
                empt = [i for i, t in enumerate(tr) if t.startswith("EMPTY:")]
                if "JOIN_OUT:cancelled" in tr:
                    # taken out of the queue, the sentinel counts as unfinished until it is marked done: a cancellation
                    # that strikes the consumer while it waits must not leave the counter at one (join() / stop() of the
                    # restarted queue would hang although it is empty)
                    if done != 1:
                        problems.append("cancelled while waiting for the outgoing queue: the sentinel it took is never marked done - the counter stays at 1 and join()/stop() hang after a restart")
                elif done != 1:
                    problems.append("the sentinel is marked done exactly once")
                elif empt and "JOIN_OUT" not in tr[:empt[0]]:
                    # telegrams still in the outgoing queue are sent, then given to devices and callbacks, which may
                    # queue follow-ups: "nothing behind the sentinel" is known only once the outgoing queue is drained
                    problems.append("the sentinel looks for telegrams queued behind it before the outgoing queue is drained: a follow-up queued by a device or callback for a telegram still in flight arrives after the look and is never processed nor marked done")
                elif "EMPTY:yes" not in tr and not late:
                    problems.append("the sentinel ends the loop without looking for telegrams queued behind it: they are never processed nor marked done")
                elif late and (end != "head" or "REQUEUE(None)" not in tr or "HANDOFF(None)" in tr):
                    problems.append("telegrams behind the sentinel: the sentinel must be queued again behind them and the loop go on (the limiter is not stopped yet)")
                elif not late and (end != "exit" or "HANDOFF(None)" not in tr or tr.count("JOIN_OUT") < 1 or not (tr.index("HANDOFF(None)") < len(tr) - 1 - tr[::-1].index("JOIN_OUT"))):
                    problems.append("nothing behind the sentinel: stop the limiter (hand-off of None), wait for it, end the loop")
            else:
                if end != "head":
                    problems.append(f"consumer loop ends ({end}) on a telegram: later telegrams would never be marked done")
                if done + len(handoff) != 1:
                    problems.append(f"{done} task_done + {len(handoff)} hand-offs for one dequeued telegram (must be exactly one)")
                if label == "OUTGOING" and (len(handoff) != 1 or "OUT:direct" in tr):
                    problems.append("outgoing telegrams must be handed to the rate limiter queue, not sent from the consumer")
                if label == "INCOMING" and not any(t.startswith("IN:") for t in tr):
                    problems.append("incoming telegram not processed")
                if handoff and handoff[0] != "HANDOFF(telegram)":
                    problems.append(f"hand-off of {handoff[0]} instead of the dequeued telegram")
            chk.ob("consumer-iteration", fi.site(), not problems, f"telegram={label}: trace {list(tr)} -> {end}" + (": " + "; ".join(problems) if problems else ""), key=f"consumer|{label}|{tr}|{end}" if problems else f"consumer|{label}|{[t for t in tr if t.startswith('IN:')]}")
    # statements between get() and the protecting try: only the eager decode (its no-raise is C07's / the may-raise engine's obligation)
    chk.assume("GroupAddressDPT.set_decoded_data does not raise (decided by C07: DPT decoding is total and its errors are handled inside set_decoded_data)")


def check_limiter(chk: Check, repo: Repo) -> None:
    fi = repo.func(TQ, "TelegramQueue._outgoing_rate_limiter")
    chk.unit(fi)
    cfg = CFG(fi.node)
    exc = ExcTable(repo)
    head = _loop_head(cfg)
    for label, tg in [("None", None), ("group", Obj("Telegram", "g", (("destination_address", Obj("GroupAddress", "ga")),))), ("internal", Obj("Telegram", "i", (("destination_address", Obj("InternalGroupAddress", "iga")),)))]:
        for rate in (0, 20):
            for prev in (None, Obj("Task", "prev")):
                def call_model(c: ast.Call, env, tg=tg):
                    n = call_name(c)
                    if n == "self.outgoing_queue.get":
                        return [Outcome("GET", tg)]
                    if n == "self.outgoing_queue.task_done":
                        return [Outcome("DONE_OUT", None)]
                    if n == "self.xknx.telegrams.task_done":
                        return [Outcome("DONE", None)]
                    if n == "self.process_telegram_outgoing":
                        return [Outcome("OUT:ok", None), Outcome("OUT:comm", Raise("CommunicationError")), Outcome("OUT:xknx", Raise("ConversionError")), Outcome("OUT:other", Raise("ValueError"))]
                    if n == "asyncio.create_task":
                        return [Outcome(f"SPAWN({ast.unparse(c.args[0])})", Obj("Task", "new"))]
                    if n == "self._rate_limiter.cancel":
                        return [Outcome("CANCEL_PACER", None)]
                    if n in ("logger.warning", "logger.error", "logger.exception"):
                        return [Outcome(None, None)]
                    return None

                am = AbsMachine(cfg, exc, call_model)
                am.isinstance_fn = class_isinstance(repo)
                base = am.step

                def step(node, env):
                    a = node.ast
                    if node.kind == "stmt" and isinstance(a, ast.Expr) and isinstance(a.value, ast.Await) and ast.unparse(a.value.value) == "self._rate_limiter":
                        e1 = dict(env); e1["trace"] = tuple(env.get("trace", ())) + ("AWAIT_PACER",)
                        # the wait can be cancelled (stop() under wait_for): whatever was taken from the queue is marked done
                        e2 = dict(env); e2["trace"] = tuple(env.get("trace", ())) + ("AWAIT_PACER:cancelled",); e2["#raised"] = "CancelledError"
                        return [("next", e1), (f"goto:{am._exc_target(node, 'CancelledError')}", e2)]
                    return base(node, env)

                env = {"self.xknx.rate_limit": rate, "self._rate_limiter": prev, **{f"{h.name}.should_log": True for h in ast.walk(fi.node) if isinstance(h, ast.ExceptHandler) and h.name}}
                paths = Explorer(cfg, repo, step).run(head, [head], env)
                for p in paths:
                    tr = tuple(t for t in p.env.get("trace", ()) if not t.startswith("raise:"))
                    end = "head" if p.end == head else p.end_kind
                    problems = []
                    if label == "None":
                        if end != "exit" or tr.count("DONE_OUT") != 1 or tr.count("DONE") != 0:
                            problems.append("sentinel must be marked done on the outgoing queue only and end the loop")
                    elif "AWAIT_PACER:cancelled" in tr:
                        # the run is being cancelled: the only obligation left is the bookkeeping (checked below in the same words)
                        if tr.count("DONE_OUT") != 1 or tr.count("DONE") != 1:
                            problems.append("cancelled while waiting for the pause: the telegram it took from the queue is never marked done - join()/stop() of the restarted queue hang")
                    else:
                        if end != "head":
                            problems.append(f"limiter loop ends ({end}) on a telegram")
                        if tr.count("DONE_OUT") != 1 or tr.count("DONE") != 1:
                            problems.append(f"task_done counts: outgoing_queue {tr.count('DONE_OUT')}, telegrams {tr.count('DONE')} (each must be exactly 1, whatever the send outcome)")
                        outs = [i for i, t in enumerate(tr) if t.startswith("OUT:")]
                        if len(outs) != 1:
                            problems.append("telegram must be processed exactly once, in-line")
                        spawns = [i for i, t in enumerate(tr) if t.startswith("SPAWN(")]
                        if any("process_telegram" in tr[i] for i in spawns):
                            problems.append("processing spawned as a task: telegrams could overtake each other")
                        if rate and label == "group":
                            # the pause of 1 / rate_limit lies between the END of one send and the start of the next: the send
                            # itself can wait (CEMIHandler's send lock behind a management frame, a reconnect) - a pause started
                            # before it would be used up there and two telegrams would reach the interface back to back
                            pac = [i for i in spawns if "sleep(1 / self.xknx.rate_limit)" in tr[i]]
                            if len(pac) != 1 or not outs or pac[0] < outs[0]:
                                problems.append("exactly one pacing task sleep(1 / rate_limit) must be started after the send, whatever its outcome (a pause started before a send that has to wait is used up while it waits)")
                            if prev is not None and ("AWAIT_PACER" not in tr or tr.index("AWAIT_PACER") > (outs[0] if outs else 0)):
                                problems.append("the previous pacing task must be awaited before the next send")
                        if "AWAIT_PACER:cancelled" in tr and (tr.count("DONE_OUT") != 1 or tr.count("DONE") != 1):
                            problems.append("cancelled while waiting for the pause: the telegram it took from the queue is never marked done")
                        if (not rate or label == "internal") and (spawns or "AWAIT_PACER" in tr):
                            problems.append("pacing applied although no rate limit / internal address")
                        if "CANCEL_PACER" in tr and not any(t.startswith("SPAWN(") and "sleep(1 / self.xknx.rate_limit)" in t for t in tr[len(tr) - tr[::-1].index("CANCEL_PACER"):]):
                            problems.append("the pacing task is cancelled while telegrams are still flowing (the next send would not be spaced / would await a cancelled task)")
                        pacer_after = p.env.get("self._rate_limiter")
                        if rate and label == "group" and repr(pacer_after) != repr(Obj("Task", "new")):
                            problems.append(f"after a paced send the stored pacing task is {pacer_after!r}, not the one just started: the next send would not wait 1/rate (whatever the send outcome)")
                        if (not rate or label == "internal") and repr(pacer_after) != repr(prev):
                            problems.append(f"pacing task slot changed to {pacer_after!r} without pacing")
                    chk.ob("limiter-iteration", fi.site(), not problems, f"telegram={label} rate_limit={rate} pacer={'running' if prev else 'none'}: trace {list(tr)} -> {end}" + (": " + "; ".join(problems) if problems else ""),
                           key=f"limiter|{label}|{rate}|{bool(prev)}|{tr}|{end}" if problems else f"limiter|{label}|{rate}|{bool(prev)}|{[t for t in tr if t.startswith('OUT:')]}")


def check_processing(chk: Check, repo: Repo) -> None:
    for qual, want_order in (("TelegramQueue.process_telegram_outgoing", None), ("TelegramQueue.process_telegram_incoming", None)):
        fi = repo.func(TQ, qual)
        chk.unit(fi)
        cfg = CFG(fi.node)
        exc = ExcTable(repo)
        for dst in ("GroupAddress", "InternalGroupAddress", "IndividualAddress"):
            def call_model(c: ast.Call, env):
                n = call_name(c)
                if n.endswith("cemi_handler.send_telegram"):
                    return [Outcome("SEND", None)]
                if n.endswith("devices.process"):
                    return [Outcome("DEVICES", None)]
                if n == "self._run_telegram_received_cbs":
                    return [Outcome("CALLBACKS", None)]
                return None
            p0 = fi.node.args.args[1].arg
            am = AbsMachine(cfg, exc, call_model)
            am.isinstance_fn = class_isinstance(repo)
            paths = Explorer(cfg, repo, am.step).run(cfg.entry, [], {f"{p0}.destination_address": Obj(dst, "d")})
            got = {(tuple(p.env.get("trace", ())), p.end_kind) for p in paths}
            if qual.endswith("outgoing"):
                sends = () if dst == "InternalGroupAddress" else ("SEND",)
                ok = len(got) == 1 and all(e == "exit" and tr[: len(sends)] == sends and sorted(tr[len(sends):]) == ["CALLBACKS", "DEVICES"] for tr, e in got)
            else:
                ok = len(got) == 1 and all(e == "exit" and sorted(tr) == ["CALLBACKS", "DEVICES"] for tr, e in got)
            chk.ob("processing-shape", fi.site(), ok, f"{qual.split('.')[1]} dest={dst}: {sorted(got)} (send iff not internal and outgoing; devices and callbacks exactly once)", key=f"proc|{qual}|{dst}" + ("" if ok else f"|{sorted(got)}"))


def check_rate_division(chk: Check, repo: Repo) -> None:
    """`xknx.rate_limit` is a plain attribute an application may change while a send is suspended: every `1 / rate_limit`
    of the limiter is evaluated where the attribute is known to be non-zero AT THAT STATEMENT (a test before the await
    says nothing about it afterwards) - a ZeroDivisionError there ends the limiter before it marked the telegram done."""
    f = repo.func(TQ, "TelegramQueue._outgoing_rate_limiter")
    cfg = CFG(f.node)
    # facts about attributes are dropped at every call / await in between (kill_on_call): what is left was tested right here
    mf = cfg.must_facts(kill_on_call=True)
    n_div = 0
    for n in cfg.nodes:
        if n.ast is None or n.kind != "stmt":
            continue
        for d in [x for x in ast.walk(n.ast) if isinstance(x, ast.BinOp) and isinstance(x.op, ast.Div) and ast.unparse(x.right) == "self.xknx.rate_limit"]:
            n_div += 1
            facts = mf[n.id]
            ok = ("self.xknx.rate_limit", True) in facts
            chk.ob("rate-division-is-guarded-where-it-happens", f.site(d), ok, f"`{ast.unparse(d)}` under a test of self.xknx.rate_limit with no await in between" if ok else f"`{ast.unparse(d)}` relies on a test of rate_limit made before an await (or on none): a rate limit switched off while the send was suspended raises ZeroDivisionError here, before the telegram is marked done", key="limiter|rate-division")
    chk.floor("rate divisions in the limiter", n_div, 1)


def _start_clears_slot(repo: Repo, w) -> bool:
    """start() may empty the slot before it creates the consumer pair (a pause cancelled together with the previous run
    would end the new limiter at its first `await`): an assignment of None that dominates the `asyncio.gather(...)`"""
    if w.func.qualname != "TelegramQueue.start" or not (isinstance(w.stmt, ast.Assign) and isinstance(w.stmt.value, ast.Constant) and w.stmt.value.value is None):
        return False
    cfg = CFG(w.func.node)
    me = [n for n in cfg.nodes if n.ast is w.stmt]
    mk = [n for n in cfg.nodes if n.ast is not None and n.kind == "stmt" and any(call_name(c) == "asyncio.gather" for c in calls(n.ast))]
    return len(me) == 1 and len(mk) == 1 and cfg.dominates(me[0].id, mk[0].id)


def check_pacer_owner(chk: Check, repo: Repo) -> None:
    sites = [(f, c) for f in repo.all_functions() for c in calls(f.node) if call_name(c).endswith("_rate_limiter.cancel")]
    for f, c in sites:
        chk.ob("pacer-cancel-owner", f.site(c), f.qualname == "TelegramQueue._outgoing_rate_limiter", f"`{call_name(c)}()` in {f.qualname}: the pacing task may only be cancelled by the limiter itself on the sentinel (a cancelled pacer awaited by the limiter would kill it and stall the queue)", key=f"pacer-cancel|{f.qualname}")
    ws = [w for w in attr_writes(repo, "_rate_limiter", include_mutators=False) if w.func.module.name == TQ]
    for w in ws:
        chk.ob("pacer-slot-writer", w.func.site(w.stmt), w.func.qualname in ("TelegramQueue.__init__", "TelegramQueue._outgoing_rate_limiter") or _start_clears_slot(repo, w), f"`{ast.unparse(w.stmt)[:70]}` in {w.func.qualname}", key=f"pacer-slot|{w.func.qualname}")


def check_structure(chk: Check, repo: Repo) -> None:
    # FIFO queues
    for modname, qual, attr in ((TQ, "TelegramQueue.__init__", "outgoing_queue"), ("xknx.xknx", "XKNX.__init__", "telegrams")):
        f = repo.func(modname, qual)
        ws = [w for w in attr_writes(repo, attr, include_mutators=False) if w.receiver == "self" and w.func.cls == f.cls]
        ok = len(ws) == 1 and ws[0].func == f and isinstance(ws[0].stmt.value, ast.Call) and call_name(ws[0].stmt.value) == "asyncio.Queue" and not ws[0].stmt.value.args and not ws[0].stmt.value.keywords
        chk.ob("fifo-queue", f.site(), ok, f"{attr} is one unbounded FIFO asyncio.Queue() created in __init__", key=f"fifo|{attr}")
    st = repo.func(TQ, "TelegramQueue.start")
    chk.unit(st)
    g = [c for c in calls(st.node) if call_name(c) == "asyncio.gather"]
    names = sorted(call_name(a) for c in g for a in c.args if isinstance(a, ast.Call))
    chk.ob("single-consumer-pair", st.site(), len(g) == 1 and names == ["self._outgoing_rate_limiter", "self._telegram_consumer"], f"start() gathers exactly one consumer and one limiter ({names})", key="single-consumer-pair")
    spawn_sites = [(f, c) for f in repo.all_functions() for c in calls(f.node) if method_name(c) in ("_telegram_consumer", "_outgoing_rate_limiter")]
    chk.ob("single-consumer-pair", st.site(), all(f.qualname == "TelegramQueue.start" for f, _ in spawn_sites) and len(spawn_sites) == 2, f"consumer/limiter coroutines are created only in start() ({[f.qualname for f, _ in spawn_sites]})", key="consumer-spawn-sites")
    sp = repo.func(TQ, "TelegramQueue.stop")
    chk.unit(sp)
    cfgs = CFG(sp.node)
    put = [n for n in cfgs.nodes if n.kind == "stmt" and n.ast is not None and any(call_name(c) == "self.xknx.telegrams.put_nowait" and c.args and isinstance(c.args[0], ast.Constant) and c.args[0].value is None for c in calls(n.ast))]
    aw = [n for n in cfgs.nodes if n.kind == "stmt" and n.ast is not None and isinstance(getattr(n.ast, "value", None), ast.Await) and ast.unparse(n.ast.value.value) == "self._consumer_task"]
    smf = cfgs.must_facts()
    # one sentinel per run: a second, overlapping stop() only waits - its sentinel would stay in the queue (join() never
    # returns, the consumer of the next start() ends at once)
    # the flag: an attribute set to True next to the put, where it was known to be False
    sets = [n for n in cfgs.nodes if n.kind == "stmt" and isinstance(n.ast, ast.Assign) and isinstance(n.ast.targets[0], ast.Attribute) and ast.unparse(n.ast.targets[0].value) == "self" and isinstance(n.ast.value, ast.Constant) and n.ast.value.value is True
            and (ast.unparse(n.ast.targets[0]), False) in smf[n.id]]
    flag = sets[0].ast.targets[0].attr if len(sets) == 1 else None
    resets = [w for w in attr_writes(repo, flag, include_mutators=False) if w.func.qualname == "TelegramQueue.start" and isinstance(w.stmt, ast.Assign) and isinstance(w.stmt.value, ast.Constant) and w.stmt.value.value is False] if flag else []
    once = len(put) == 1 and flag is not None and (cfgs.dominates(sets[0].id, put[0].id) or (cfgs.dominates(put[0].id, sets[0].id) and (f"self.{flag}", False) in smf[put[0].id])) and bool(resets)
    chk.ob("stop-sentinel", sp.site(), len(put) == 1 and len(aw) == 1 and cfgs.all_paths_hit(cfgs.entry, [aw[0].id] + [n.id for n in cfgs.nodes if n.kind == "stmt" and isinstance(n.ast, ast.Return)], [cfgs.exit], edge_ok=cfgs.normal_only), "stop() queues the None sentinel and awaits the consumer pair on every path on which a consumer runs", key="stop-sentinel")
    chk.ob("one-stop-sentinel-per-run", sp.site(), once, f"stop() queues its sentinel under `not self.{flag}`, raises the flag with it, and start() clears it" if once else "every stop() that finds the consumer running queues a sentinel: of two overlapping stop() calls one sentinel stays in the queue - join() never returns and the consumer of the next start() ends at once", key="stop-sentinel|once")


def check_restart(chk: Check, repo: Repo) -> None:
    """A stopped queue can be started again: the limiter loop may not leave a cancelled pause in the slot it awaits at
    the top of the next pacing (`await self._rate_limiter` on a cancelled task raises CancelledError in the awaiter,
    which ends the loop — nothing is marked done any more and join()/stop() hang).  Every `.cancel()` of the slot is
    followed, on every path to the end of the coroutine, by a reset of the slot."""
    f = repo.func(TQ, "TelegramQueue._outgoing_rate_limiter")
    cfg = CFG(f.node)
    awaited = [n for n in walk_local(f.node) if isinstance(n, ast.Await) and isinstance(n.value, ast.Attribute) and ast.unparse(n.value.value) == "self"]
    slots = sorted({a.value.attr for a in awaited})
    chk.count("task slots awaited by the limiter", len(slots))
    chk.floor("task slots awaited by the limiter", len(slots), 1)
    for slot in slots:
        cancels = [n.id for n in cfg.nodes if n.ast is not None and n.kind == "stmt" and any(isinstance(c, ast.Call) and call_name(c) == f"self.{slot}.cancel" for c in ast.walk(n.ast))]
        resets = [n.id for n in cfg.nodes if n.kind == "stmt" and isinstance(n.ast, ast.Assign) and ast.unparse(n.ast.targets[0]) == f"self.{slot}"]
        ok = all(cfg.all_paths_hit(c, resets, [cfg.exit], edge_ok=cfg.normal_only, include_start=False) for c in cancels)
        foreign = [w.func.qualname for w in attr_writes(repo, slot, include_mutators=False) if w.func.qualname not in ("TelegramQueue.__init__", f.qualname) and not _start_clears_slot(repo, w)]
        # the other way a cancelled pause gets into the slot: the run is cancelled while the pause is pending (a stop()
        # under wait_for) - start() then has to empty the slot before the new limiter awaits it
        st_ = repo.func(TQ, "TelegramQueue.start")
        cleared = any(_start_clears_slot(repo, w) for w in attr_writes(repo, slot, include_mutators=False))
        chk.ob("cancelled-pause-is-not-left-in-the-slot", st_.site(), cleared, f"TelegramQueue.start() empties self.{slot} before it creates the consumer pair" if cleared else f"TelegramQueue.start() leaves self.{slot} as the previous run left it: a pause cancelled together with that run is awaited by the new limiter, which ends with CancelledError - every outgoing telegram stalls", key=f"restart|{slot}|start")
        cancel_elsewhere = [g.qualname for g in repo.all_functions() if g is not f and g.module.name == TQ and any(call_name(c) == f"self.{slot}.cancel" for c in calls(g.node))]
        chk.ob("cancelled-pause-is-not-left-in-the-slot", f.site(), ok and not foreign and not cancel_elsewhere, f"self.{slot}: {len(cancels)} cancel site(s) in the limiter, each followed by a reset of the slot before the coroutine ends ({ok}); other writers {foreign}; cancelled elsewhere {cancel_elsewhere}", key=f"restart|{slot}")


def check_stop(chk: Check, repo: Repo) -> None:
    """Stopping always returns and leaves the queue usable: (1) the stop sentinel is pushed only when a consumer is
    running to take it (a sentinel left behind ends the consumer of the next start() at once); (2) XKNX.stop() stops
    the producer of incoming telegrams (the interface) before the queue's consumer, so nothing is queued behind the
    sentinel."""
    f = repo.func(TQ, "TelegramQueue.stop")
    chk.unit(f)
    cfg = CFG(f.node)
    mf = cfg.must_facts()
    puts = [n for n in cfg.nodes if n.ast is not None and n.kind == "stmt" and any(call_name(c).endswith("telegrams.put_nowait") and c.args and isinstance(c.args[0], ast.Constant) and c.args[0].value is None for c in calls(n.ast))]
    ok = len(puts) == 1
    if ok:
        facts = set(mf[puts[0].id])
        running = (("self._consumer_task is None", False) in facts or ("self._consumer_task is not None", True) in facts or ("self._consumer_task", True) in facts) and ("self._consumer_task.done()", False) in facts
        ok = running
    chk.ob("stop-sentinel-only-for-a-running-consumer", f.site(), ok, "TelegramQueue.stop() pushes its None sentinel only where a consumer task exists and is not done" if ok else "TelegramQueue.stop() pushes its None sentinel although no consumer may be running (start() failed before it, or stop() called twice): the sentinel stays queued, the consumer of the next start() takes it and ends at once — nothing is sent any more and join()/stop() hang", key="stop|sentinel")
    xs = repo.func("xknx.xknx", "XKNX.stop")
    chk.unit(xs)
    xcfg = CFG(xs.node)
    def at(name: str) -> list[int]:
        return [n.id for n in xcfg.nodes if n.ast is not None and n.kind == "stmt" and any(call_name(c) == name for c in calls(n.ast))]
    iface, queue, join = at("self.knxip_interface.stop"), at("self.telegram_queue.stop"), at("self.join")
    after_iface = xcfg.reachable(iface, include_start=False) if iface else set()
    ok2 = len(iface) == 1 and len(queue) == 1 and len(join) == 1 and xcfg.dominates(iface[0], queue[0]) and join[0] not in after_iface and iface[0] in xcfg.reachable(join, include_start=False)
    # ... and waits for the queue only if something takes telegrams out of it (start() may have failed before the queue
    # was started, or this is a second stop())
    xmf = xcfg.must_facts()
    guarded = len(join) == 1 and any(v and a in ("self.telegram_queue.running", "self.telegram_queue.running()") for a, v in xmf[join[0]])
    chk.ob("stop-drains-only-a-running-queue", xs.site(), guarded, "XKNX.stop() waits for the telegrams to be processed only while the telegram queue runs" if guarded else "XKNX.stop() awaits join() unconditionally: with a telegram pending and no consumer running (start() failed before the queue was started, second stop()) it never returns", key="stop|drain-guard")
    chk.ob("producer-stops-before-the-consumer", xs.site(), ok2, "XKNX.stop(): join() (drain), then the interface, then the telegram queue" if ok2 else "XKNX.stop() ends the queue's consumer before the interface that feeds it: a frame received meanwhile lands behind the stop sentinel and is never marked done (a later join()/stop() hangs)", key="stop|order")


def check_unguarded_steps(chk: Check, repo: Repo) -> None:
    """"never stall": the consumer task ends with whatever escapes a statement of its loop that is not inside the
    isolating try - every later telegram then stays in the queue.  The one such call that runs repository code on the
    telegram's content is the eager decode (GroupAddressDPT.set_decoded_data): it raises nothing (E1 may-raise analysis
    down to the datapoint decoders, whose declared errors it handles)."""
    from .e1_common import check_entry, engine, finish
    tq = repo.func("xknx.core.telegram_queue", "TelegramQueue._telegram_consumer")
    cfg = CFG(tq.node)
    unguarded = sorted({call_name(c) for n in cfg.nodes if n.kind == "stmt" and n.ast is not None and n.loops and not n.tries and not n.handlers for c in ast.walk(n.ast) if isinstance(c, ast.Call) and "set_decoded_data" in call_name(c)})
    if not unguarded:
        chk.ob("consumer-steps-outside-the-guard-raise-nothing", tq.site(), True, "the eager decode runs inside the isolating try", key="unguarded|none")
        return
    mr = engine(repo)
    sd = repo.func("xknx.core.group_address_dpt", "GroupAddressDPT.set_decoded_data")
    # "every queued telegram" includes hand-built ones: nothing about the telegram's shape may be asserted here
    check_entry(chk, mr, sd, (), label="eager decode in the consumer loop", rule="consumer-steps-outside-the-guard-raise-nothing")
    finish(chk, mr)


def run(chk: Check, repo: Repo) -> None:
    check_stop(chk, repo)
    check_restart(chk, repo)
    check_consumer(chk, repo)
    check_limiter(chk, repo)
    check_rate_division(chk, repo)
    check_processing(chk, repo)
    check_pacer_owner(chk, repo)
    check_structure(chk, repo)
    check_unguarded_steps(chk, repo)
    # "one at a time": the next telegram is handed over only after the confirmation wait of the previous one - which is a
    # wait only if the event was cleared before this frame's hand-over (C14's confirmation obligations, shared)
    from .c14 import check_confirmation
    check_confirmation(chk, repo)
    chk.rule("E4 pairing by abstract path enumeration of one loop iteration of the consumer and the rate limiter over telegram kind x processing outcome (incl. exceptional exits through finally)")
    chk.rule("E5/E4 structure: FIFO queues, single consumer pair, in-line processing, sentinel shutdown")
    chk.assume("asyncio.Queue is FIFO; does not decide the measured 1/r spacing (event-loop clock)")
