"""Rules shared by several properties."""

from __future__ import annotations

import ast

from ..astx import call_name, walk_local
from ..loader import FuncInfo, Repo
from ..report import Check

MUTATORS = ("append", "remove", "pop", "clear", "insert", "extend", "discard", "add")


def is_snapshot_of(it: ast.AST, what=lambda e: True) -> bool:
    """tuple(X) / list(X) / sorted(X) / X.copy() / X[:] with X satisfying `what`"""
    return (isinstance(it, ast.Call) and call_name(it) in ("tuple", "list", "sorted") and len(it.args) == 1 and what(it.args[0])) or \
           (isinstance(it, ast.Call) and isinstance(it.func, ast.Attribute) and it.func.attr == "copy" and what(it.func.value)) or \
           (isinstance(it, ast.Subscript) and isinstance(it.slice, ast.Slice) and it.slice.lower is None and it.slice.upper is None and what(it.value))


def dispatch_iterates_a_snapshot(chk: Check, repo: Repo, fi: FuncInfo, attr: str, what: str, key: str) -> None:
    """A dispatch loop that calls user callbacks must not walk the live registry those callbacks can change (the
    unregister functions exist for exactly that): with `for cb in self.<registry>` a callback that removes itself
    shifts the list and the next callback is skipped — it misses an event it is registered for.  Accepted forms of the
    iterable: tuple(..) / list(..) / sorted(..) / <registry>.copy() / <registry>[:] of the registry attribute."""
    chk.unit(fi)
    loops = []
    for n in walk_local(fi.node):
        if isinstance(n, (ast.For, ast.AsyncFor)):
            names = {ast.unparse(x) for x in ast.walk(n.iter) if isinstance(x, ast.Attribute)}
            if f"self.{attr}" in names:
                loops.append(n)
    chk.count(f"dispatch loops over {attr}", len(loops))
    chk.floor(f"dispatch loops over {attr}", len(loops), 1)
    mutating = sorted({f.qualname for f in repo.all_functions() if f.cls is not None and fi.cls is not None and (repo.is_subclass(f.cls, fi.cls) or repo.is_subclass(fi.cls, f.cls)) for c in ast.walk(f.node) if isinstance(c, ast.Call) and isinstance(c.func, ast.Attribute) and c.func.attr in ("remove", "pop", "clear", "discard") and ast.unparse(c.func.value) == f"self.{attr}"})
    for lp in loops:
        it = lp.iter
        snap = (isinstance(it, ast.Call) and call_name(it) in ("tuple", "list", "sorted") and len(it.args) == 1 and ast.unparse(it.args[0]) == f"self.{attr}") or \
               (isinstance(it, ast.Call) and isinstance(it.func, ast.Attribute) and it.func.attr == "copy" and ast.unparse(it.func.value) == f"self.{attr}") or \
               (isinstance(it, ast.Subscript) and isinstance(it.slice, ast.Slice) and it.slice.lower is None and it.slice.upper is None and ast.unparse(it.value) == f"self.{attr}")
        calls_element = isinstance(lp.target, ast.Name) and any(isinstance(c, ast.Call) and ((isinstance(c.func, ast.Name) and c.func.id == lp.target.id) or (isinstance(c.func, ast.Attribute) and isinstance(c.func.value, ast.Name) and c.func.value.id == lp.target.id)) for b in lp.body for c in ast.walk(b))
        ok = snap or not calls_element or not mutating
        chk.ob("dispatch-iterates-a-snapshot-of-the-registry", fi.site(lp), ok, f"{fi.qualname}: `for {ast.unparse(lp.target)} in {ast.unparse(it)}` calls {what}; the registry is shrunk by {mutating}" + ("" if ok else " — a callback that unregisters itself during the dispatch makes the next one miss this event"), key=key)


def kdf_parameters(chk: Check, repo: Repo, entries: list[str]) -> None:
    """Key derivations agree with the oracle table (oracles/kdf.json): PBKDF2-HMAC with the tabled hash, output length,
    iteration count and salt; the password is turned into octets with the tabled codec (latin-1 for IP Secure
    passwords — a utf-8 encoding gives other octets for every character above U+007F, hence other keys and MACs than
    the peer computes).  A structural agreement of constants, not a statement about the cipher."""
    import json
    from pathlib import Path
    table = json.loads((Path(__file__).resolve().parents[2] / "oracles" / "kdf.json").read_text())
    enc_alias = {"latin-1": "latin-1", "latin1": "latin-1", "iso-8859-1": "latin-1", "iso8859-1": "latin-1", "latin_1": "latin-1", "l1": "latin-1", "utf-8": "utf-8", "utf8": "utf-8"}
    for ref in entries:
        want = table[ref]
        mod, name = ref.split(":")
        f = repo.func(mod, name)
        chk.unit(f)
        ks = [c for c in ast.walk(f.node) if isinstance(c, ast.Call) and call_name(c) == "PBKDF2HMAC"]
        got: dict = {}
        if len(ks) == 1:
            kw = {k.arg: k.value for k in ks[0].keywords}
            alg = kw.get("algorithm")
            got["hash"] = call_name(alg).split(".")[-1] if isinstance(alg, ast.Call) else None
            got["length"] = repo.fold(kw["length"], f.module, None) if "length" in kw else None
            got["iterations"] = repo.fold(kw["iterations"], f.module, None) if "iterations" in kw else None
            salt = repo.fold(kw["salt"], f.module, None) if "salt" in kw else None
            got["salt"] = salt.decode("ascii", "replace") if isinstance(salt, bytes) else None
        ders = [c for c in ast.walk(f.node) if isinstance(c, ast.Call) and isinstance(c.func, ast.Attribute) and c.func.attr == "derive" and len(c.args) == 1]
        enc = "?"
        if len(ders) == 1:
            a = ders[0].args[0]
            if isinstance(a, ast.Call) and isinstance(a.func, ast.Attribute) and a.func.attr == "encode":
                e0 = a.args[0] if a.args else next((k.value for k in a.keywords if k.arg == "encoding"), None)
                ev_ = repo.fold(e0, f.module, None) if e0 is not None else "utf-8"
                enc = enc_alias.get(str(ev_).lower(), str(ev_))
            elif isinstance(a, ast.Name) and a.id in {x.arg for x in f.node.args.args}:
                enc = None  # octets are passed in
        got["encoding"] = enc
        exp = {k: want[k] for k in ("hash", "length", "iterations", "salt", "encoding")}
        chk.ob("key-derivation-parameters-agree-with-the-specification", f.site(), got == exp, f"{name}: {got}; required {exp}", key=f"kdf|{name}")
