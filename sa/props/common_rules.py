"""Rules shared by several properties."""

from __future__ import annotations

import ast

from ..astx import call_name, walk_local
from ..loader import FuncInfo, Repo
from ..report import Check

MUTATORS = ("append", "remove", "pop", "clear", "insert", "extend", "discard", "add")


def is_snapshot_of(it: ast.AST, what=lambda e: True) -> bool:
    """tuple(X) / list(X) / sorted(X) / X.copy() / X[:] with X satisfying `what`"""
    return (isinstance(it, ast.Call) and call_name(it) in ("tuple", "list", "sorted") and len(it.args) == 1 and what(it.args[0])) or \
           (isinstance(it, ast.Call) and isinstance(it.func, ast.Attribute) and it.func.attr == "copy" and what(it.func.value)) or \
           (isinstance(it, ast.Subscript) and isinstance(it.slice, ast.Slice) and it.slice.lower is None and it.slice.upper is None and what(it.value))


def dispatch_iterates_a_snapshot(chk: Check, repo: Repo, fi: FuncInfo, attr: str, what: str, key: str) -> None:
    """A dispatch loop that calls user callbacks must not walk the live registry those callbacks can change (the
    unregister functions exist for exactly that): with `for cb in self.<registry>` a callback that removes itself
    shifts the list and the next callback is skipped — it misses an event it is registered for.  Accepted forms of the
    iterable: tuple(..) / list(..) / sorted(..) / <registry>.copy() / <registry>[:] of the registry attribute."""
    chk.unit(fi)
    loops = []
    for n in walk_local(fi.node):
        if isinstance(n, (ast.For, ast.AsyncFor)):
            names = {ast.unparse(x) for x in ast.walk(n.iter) if isinstance(x, ast.Attribute)}
            if f"self.{attr}" in names:
                loops.append(n)
    chk.count(f"dispatch loops over {attr}", len(loops))
    chk.floor(f"dispatch loops over {attr}", len(loops), 1)
    mutating = sorted({f.qualname for f in repo.all_functions() if f.cls is not None and fi.cls is not None and (repo.is_subclass(f.cls, fi.cls) or repo.is_subclass(fi.cls, f.cls)) for c in ast.walk(f.node) if isinstance(c, ast.Call) and isinstance(c.func, ast.Attribute) and c.func.attr in ("remove", "pop", "clear", "discard") and ast.unparse(c.func.value) == f"self.{attr}"})
    for lp in loops:
        it = lp.iter
        snap = (isinstance(it, ast.Call) and call_name(it) in ("tuple", "list", "sorted") and len(it.args) == 1 and ast.unparse(it.args[0]) == f"self.{attr}") or \
               (isinstance(it, ast.Call) and isinstance(it.func, ast.Attribute) and it.func.attr == "copy" and ast.unparse(it.func.value) == f"self.{attr}") or \
               (isinstance(it, ast.Subscript) and isinstance(it.slice, ast.Slice) and it.slice.lower is None and it.slice.upper is None and ast.unparse(it.value) == f"self.{attr}")
        calls_element = isinstance(lp.target, ast.Name) and any(isinstance(c, ast.Call) and ((isinstance(c.func, ast.Name) and c.func.id == lp.target.id) or (isinstance(c.func, ast.Attribute) and isinstance(c.func.value, ast.Name) and c.func.value.id == lp.target.id)) for b in lp.body for c in ast.walk(b))
        ok = snap or not calls_element or not mutating
        chk.ob("dispatch-iterates-a-snapshot-of-the-registry", fi.site(lp), ok, f"{fi.qualname}: `for {ast.unparse(lp.target)} in {ast.unparse(it)}` calls {what}; the registry is shrunk by {mutating}" + ("" if ok else " — a callback that unregisters itself during the dispatch makes the next one miss this event"), key=key)


def kdf_parameters(chk: Check, repo: Repo, entries: list[str]) -> None:
    """Key derivations agree with the oracle table (oracles/kdf.json): PBKDF2-HMAC with the tabled hash, output length,
    iteration count and salt; the password is turned into octets with the tabled codec (latin-1 for IP Secure
    passwords — a utf-8 encoding gives other octets for every character above U+007F, hence other keys and MACs than
    the peer computes).  A structural agreement of constants, not a statement about the cipher."""
    import json
    from pathlib import Path
    table = json.loads((Path(__file__).resolve().parents[2] / "oracles" / "kdf.json").read_text())
    enc_alias = {"latin-1": "latin-1", "latin1": "latin-1", "iso-8859-1": "latin-1", "iso8859-1": "latin-1", "latin_1": "latin-1", "l1": "latin-1", "utf-8": "utf-8", "utf8": "utf-8"}
    for ref in entries:
        want = table[ref]
        mod, name = ref.split(":")
        f = repo.func(mod, name)
        chk.unit(f)
        ks = [c for c in ast.walk(f.node) if isinstance(c, ast.Call) and call_name(c) == "PBKDF2HMAC"]
        got: dict = {}
        if len(ks) == 1:
            kw = {k.arg: k.value for k in ks[0].keywords}
            alg = kw.get("algorithm")
            got["hash"] = call_name(alg).split(".")[-1] if isinstance(alg, ast.Call) else None
            got["length"] = repo.fold(kw["length"], f.module, None) if "length" in kw else None
            got["iterations"] = repo.fold(kw["iterations"], f.module, None) if "iterations" in kw else None
            salt = repo.fold(kw["salt"], f.module, None) if "salt" in kw else None
            got["salt"] = salt.decode("ascii", "replace") if isinstance(salt, bytes) else None
        ders = [c for c in ast.walk(f.node) if isinstance(c, ast.Call) and isinstance(c.func, ast.Attribute) and c.func.attr == "derive" and len(c.args) == 1]
        enc = "?"
        if len(ders) == 1:
            a = ders[0].args[0]
            if isinstance(a, ast.Call) and isinstance(a.func, ast.Attribute) and a.func.attr == "encode":
                e0 = a.args[0] if a.args else next((k.value for k in a.keywords if k.arg == "encoding"), None)
                ev_ = repo.fold(e0, f.module, None) if e0 is not None else "utf-8"
                enc = enc_alias.get(str(ev_).lower(), str(ev_))
            elif isinstance(a, ast.Name) and a.id in {x.arg for x in f.node.args.args}:
                enc = None  # octets are passed in
        got["encoding"] = enc
        exp = {k: want[k] for k in ("hash", "length", "iterations", "salt", "encoding")}
        chk.ob("key-derivation-parameters-agree-with-the-specification", f.site(), got == exp, f"{name}: {got}; required {exp}", key=f"kdf|{name}")


def refusal_during_connect_is_heard(chk: Check, repo: Repo) -> None:
    """A device may answer the connect telegram (refuse with T_Disconnect) while the sender still awaits the local
    confirmation of that telegram.  To hear it the connection has to be in Management's table before the connect is
    awaited (else the answer is an unhandled telegram), and the connected flag has to be set before the send (else
    connect() overwrites the refusal afterwards).  A connection that fails to open is taken out of the table again."""
    from ..cfg import CFG
    from ..astx import calls
    mc = repo.func("xknx.management.management", "Management.connect")
    chk.unit(mc)
    cfg = CFG(mc.node)
    awaits = [n for n in cfg.nodes if n.kind == "stmt" and n.ast is not None and any(isinstance(x, ast.Await) and isinstance(x.value, ast.Call) and isinstance(x.value.func, ast.Attribute) and x.value.func.attr == "connect" for x in ast.walk(n.ast))]
    stores = [n for n in cfg.nodes if n.kind == "stmt" and isinstance(n.ast, ast.Assign) and any(isinstance(t, ast.Subscript) and ast.unparse(t.value) == "self._connections" for t in n.ast.targets)]
    removes = [n.id for n in cfg.nodes if n.kind == "stmt" and n.ast is not None and ((isinstance(n.ast, ast.Delete) and any(isinstance(t, ast.Subscript) and ast.unparse(t.value) == "self._connections" for t in n.ast.targets)) or any(call_name(c) in ("self._connections.pop",) for c in calls(n.ast)))]
    ok = len(awaits) == 1 and len(stores) == 1 and cfg.dominates(stores[0].id, awaits[0].id)
    chk.ob("connection-is-registered-before-it-connects", mc.site(), ok, "Management.connect stores the connection in its table " + ("before" if ok else "only after") + " awaiting P2PConnection.connect() - telegrams of the device arriving during that await " + ("reach it" if ok else "are unhandled"), key="mgmt-connect|registered-first")
    if ok:
        # every exceptional way out of the await passes a removal
        exc_succ = [t for t, lab in awaits[0].succ if lab == "exc"]
        leak = cfg.reachable(exc_succ, avoid=set(removes)) & {cfg.raise_exit, cfg.exit} if exc_succ else set()
        chk.ob("connection-is-registered-before-it-connects", mc.site(), bool(exc_succ) and not leak, "a connection that fails to open (any exception, including cancellation) is removed from the table again", key="mgmt-connect|removed-on-failure")
    pc = repo.func("xknx.management.management", "P2PConnection.connect")
    chk.unit(pc)
    cfg2 = CFG(pc.node)
    sends = [n for n in cfg2.nodes if n.kind == "stmt" and n.ast is not None and any(isinstance(x, ast.Await) and isinstance(x.value, ast.Call) and call_name(x.value).endswith("send_telegram") for x in ast.walk(n.ast))]
    sets = [n for n in cfg2.nodes if n.kind == "stmt" and isinstance(n.ast, ast.Assign) and any(ast.unparse(t) == "self._connected" for t in n.ast.targets) and isinstance(n.ast.value, ast.Constant) and n.ast.value.value is True]
    after = [n for n in sets if sends and not cfg2.dominates(n.id, sends[0].id)]
    ok2 = len(sends) == 1 and bool(sets) and not after
    chk.ob("connected-flag-is-set-before-the-connect-telegram", pc.site(), ok2, "P2PConnection.connect sets _connected = True " + ("before awaiting the send: a T_Disconnect processed meanwhile resets it for good" if ok2 else "after the awaited send: it overwrites a refusal (T_Disconnect) processed during the await"), key="p2p-connect|flag-first")
    if ok2:
        resets = [n.id for n in cfg2.nodes if n.kind == "stmt" and isinstance(n.ast, ast.Assign) and any(ast.unparse(t) == "self._connected" for t in n.ast.targets) and isinstance(n.ast.value, ast.Constant) and n.ast.value.value is False]
        exc_succ = [t for t, lab in sends[0].succ if lab == "exc"]
        handlers = [t for t in exc_succ if cfg2.nodes[t].kind == "handler"]
        bad = [h for h in handlers if not cfg2.all_paths_hit(h, resets, ends=[cfg2.raise_exit, cfg2.exit])]
        chk.ob("connected-flag-is-set-before-the-connect-telegram", pc.site(), bool(handlers) and not bad, "a failed send resets the flag in every handler", key="p2p-connect|reset-on-failure")


def override_implies_no_dpt_class(chk: Check, repo: Repo) -> None:
    """RemoteValue.process takes the eagerly decoded value whenever its transcoder *is* the remote value's dpt_class.
    A RemoteValue subclass with a from_knx of its own (scaling ranges, inversion, step conversion) must therefore have
    no dpt_class - else the generic decode replaces its own and the device reports another value than the telegram it
    sent encodes (C38: depends on the table; C39: the command does not loop back)."""
    from ..astx import attr_writes
    RV = "xknx.remote_value.remote_value"
    base = repo.cls(RV, "RemoteValue")
    subs = repo.subclasses(base, strict=True)
    chk.floor("remote_value_subclasses", len(subs), 25)
    inst_writers = {w.func.cls.name: w for w in attr_writes(repo, "dpt_class", include_mutators=False) if w.func.cls is not None and w.receiver == "self"}
    n_over = 0
    for k in subs:
        fk = repo.lookup_method(k, "from_knx")
        if fk is None or fk.cls == base:
            continue
        n_over += 1
        hit = repo.class_attr_expr(k, "dpt_class")
        cls_val = ast.unparse(hit[0]) if hit else "None"
        inst = [c.name for c in repo.mro(k) if c.name in inst_writers]
        ok = cls_val == "None" and not inst
        chk.ob("override-implies-no-dpt-class", fk.site(), ok, f"{k.name}.from_knx is overridden by {fk.cls.name}; class dpt_class = {cls_val}; per-instance dpt_class writers in MRO: {inst}", key=f"override|{k.name}")
    chk.count("from_knx_overrides", n_over)
