"""Rules shared by several properties."""

from __future__ import annotations

import ast

from ..astx import call_name, walk_local
from ..loader import FuncInfo, Repo
from ..report import Check

MUTATORS = ("append", "remove", "pop", "clear", "insert", "extend", "discard", "add")


def dispatch_iterates_a_snapshot(chk: Check, repo: Repo, fi: FuncInfo, attr: str, what: str, key: str) -> None:
    """A dispatch loop that calls user callbacks must not walk the live registry those callbacks can change (the
    unregister functions exist for exactly that): with `for cb in self.<registry>` a callback that removes itself
    shifts the list and the next callback is skipped — it misses an event it is registered for.  Accepted forms of the
    iterable: tuple(..) / list(..) / sorted(..) / <registry>.copy() / <registry>[:] of the registry attribute."""
    chk.unit(fi)
    loops = []
    for n in walk_local(fi.node):
        if isinstance(n, (ast.For, ast.AsyncFor)):
            names = {ast.unparse(x) for x in ast.walk(n.iter) if isinstance(x, ast.Attribute)}
            if f"self.{attr}" in names:
                loops.append(n)
    chk.count(f"dispatch loops over {attr}", len(loops))
    chk.floor(f"dispatch loops over {attr}", len(loops), 1)
    mutating = sorted({f.qualname for f in repo.all_functions() if f.cls is not None and fi.cls is not None and (repo.is_subclass(f.cls, fi.cls) or repo.is_subclass(fi.cls, f.cls)) for c in ast.walk(f.node) if isinstance(c, ast.Call) and isinstance(c.func, ast.Attribute) and c.func.attr in ("remove", "pop", "clear", "discard") and ast.unparse(c.func.value) == f"self.{attr}"})
    for lp in loops:
        it = lp.iter
        snap = (isinstance(it, ast.Call) and call_name(it) in ("tuple", "list", "sorted") and len(it.args) == 1 and ast.unparse(it.args[0]) == f"self.{attr}") or \
               (isinstance(it, ast.Call) and isinstance(it.func, ast.Attribute) and it.func.attr == "copy" and ast.unparse(it.func.value) == f"self.{attr}") or \
               (isinstance(it, ast.Subscript) and isinstance(it.slice, ast.Slice) and it.slice.lower is None and it.slice.upper is None and ast.unparse(it.value) == f"self.{attr}")
        calls_element = isinstance(lp.target, ast.Name) and any(isinstance(c, ast.Call) and ((isinstance(c.func, ast.Name) and c.func.id == lp.target.id) or (isinstance(c.func, ast.Attribute) and isinstance(c.func.value, ast.Name) and c.func.value.id == lp.target.id)) for b in lp.body for c in ast.walk(b))
        ok = snap or not calls_element or not mutating
        chk.ob("dispatch-iterates-a-snapshot-of-the-registry", fi.site(lp), ok, f"{fi.qualname}: `for {ast.unparse(lp.target)} in {ast.unparse(it)}` calls {what}; the registry is shrunk by {mutating}" + ("" if ok else " — a callback that unregisters itself during the dispatch makes the next one miss this event"), key=key)
