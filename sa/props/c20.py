"""C20 — KNX/IP frame parsing terminates and fails only with declared errors.

 (a) E1 may-raise analysis of KNXIPFrame.from_knx (header, every body class reached through the `body: KNXIPBody`
     dispatch, HPAI, CRI/CRD, DIBs, SRPs, tunnelling features): only CouldNotParseKNXIP (incl. its subclass
     IncompleteKNXIPFrame) can leave it.
 (b) E11 progress: every `while raw[pos:]` parse loop below the entry advances `pos` on every iteration by a value
     whose lower bound (return-value / guard analysis, sa/lbound.py) is >= 1, so iterations and the list the loop
     grows are bounded by the input length; no recursion below the entry.
 (c) consumed length: the body is cut as data[pos_body:header.total_length], the remainder is
     data[header.total_length:], both dominated by `len(data) >= header.total_length` and by
     header.total_length >= HEADERLENGTH (else the "remainder" would overlap the frame); IncompleteKNXIPFrame is
     raised only directly under a `len(data) < <announced length>` test.
 (d) E3 dispatch agreement: every arm `service_type_ident == KNXIPServiceType.X` builds the body class whose
     SERVICE_TYPE is X; every body class has exactly one arm.
"""

from __future__ import annotations

import ast

from ..astx import call_name, calls, walk_local
from ..cfg import CFG
from ..lbound import NEG, LowerBound
from ..loader import NOFOLD, AnalysisError, EnumMember, FuncInfo, Repo
from ..mayraise import MayRaise
from ..report import Check, canon
from .c12 import address_reviewed
from .e1_common import check_entry, engine, finish

M = "xknx.knxip.knxip"
DECLARED = ("CouldNotParseKNXIP",)


def loop_progress(chk: Check, repo: Repo, mr: MayRaise, lbd: LowerBound, funcs: list[FuncInfo], min_loops: int) -> None:
    """`while <buf>[<pos>:]` loops: pos only grows, by >= 1 on every iteration."""
    n_loops = 0
    for fi in sorted(funcs, key=lambda f: f.ref):
        for w in [n for n in walk_local(fi.node) if isinstance(n, ast.While)]:
            n_loops += 1
            t = w.test
            if not (isinstance(t, ast.Subscript) and isinstance(t.slice, ast.Slice) and isinstance(t.slice.lower, ast.Name) and t.slice.upper is None and t.slice.step is None and isinstance(t.value, ast.Name)):
                raise AnalysisError(f"unsupported parse-loop condition `{ast.unparse(t)}` in {fi.qualname}")
            pos, buf = t.slice.lower.id, t.value.id
            an = lbd.analysis(fi, fi.cls)
            writes = [n for s in w.body for n in walk_local(s) if isinstance(n, (ast.Assign, ast.AugAssign, ast.AnnAssign, ast.For, ast.NamedExpr))
                      and any(isinstance(x, ast.Name) and x.id in (pos, buf) and isinstance(x.ctx, ast.Store) for x in ast.walk(n.target if isinstance(n, (ast.AugAssign, ast.AnnAssign, ast.For, ast.NamedExpr)) else ast.Tuple(elts=n.targets)))]
            top_adv = None
            ok_all = True
            details = []
            for wr in writes:
                if isinstance(wr, ast.AugAssign) and isinstance(wr.op, ast.Add) and isinstance(wr.target, ast.Name) and wr.target.id == pos:
                    lb = lbd.expr(an, wr.value, wr)
                    details.append(f"`{ast.unparse(wr)}` adds >= {lb if lb > NEG else 'unknown'}")
                    if wr in w.body and lb >= 1 and top_adv is None:
                        top_adv = wr
                    if lb < 0:
                        ok_all = False
                else:
                    ok_all = False
                    details.append(f"`{ast.unparse(wr)[:60]}` rewrites the cursor/buffer")
            # nothing before the advancing statement may skip it
            skips = False
            if top_adv is not None:
                for s in w.body[: w.body.index(top_adv)]:
                    if any(isinstance(x, (ast.Continue,)) for x in walk_local(s)):
                        skips = True
            ok = ok_all and top_adv is not None and not skips and not w.orelse
            chk.ob("parse-loop-advances", fi.site(w), ok,
                   f"{fi.qualname}: loop `while {ast.unparse(t)}` — {'; '.join(details) or 'no cursor update'}"
                   f"{'' if ok else ' — an iteration can consume 0 octets (non-termination / unbounded list growth)'}",
                   key=f"loop-progress|{fi.qualname}|{canon(w.test)}")
    chk.floor("parse loops below the entry", n_loops, min_loops)


def consumed_length(chk: Check, repo: Repo, mr: MayRaise, lbd: LowerBound) -> None:
    fi = repo.func(M, "KNXIPFrame.from_knx")
    hdr = repo.cls("xknx.knxip.header", "KNXIPHeader")
    hfk = repo.func("xknx.knxip.header", "KNXIPHeader.from_knx")
    chk.unit(hfk)
    hl = repo.const(hdr, "HEADERLENGTH")
    an = lbd.analysis(fi, fi.cls)
    rets = [n for n in walk_local(fi.node) if isinstance(n, ast.Return)]
    if len(rets) != 1 or not isinstance(rets[0].value, ast.Tuple) or len(rets[0].value.elts) != 2:
        raise AnalysisError("KNXIPFrame.from_knx: expected a single `return frame, remainder`")
    ret = rets[0]
    rem = ret.value.elts[1]
    data = fi.node.args.args[0].arg
    ok_shape = isinstance(rem, ast.Subscript) and isinstance(rem.slice, ast.Slice) and rem.slice.upper is None and rem.slice.lower is not None and ast.unparse(rem.value) == data
    end = ast.unparse(rem.slice.lower) if ok_shape else "?"
    chk.ob("remainder-starts-at-announced-length", fi.site(ret), ok_shape and end.endswith(".total_length"), f"remainder is `{ast.unparse(rem)}`", key="remainder-shape")
    # body slice
    bodies = [n for n in walk_local(fi.node) if isinstance(n, ast.Subscript) and isinstance(n.slice, ast.Slice) and n.slice.upper is not None and ast.unparse(n.value) == data]
    ok_b = len(bodies) == 1 and ast.unparse(bodies[0].slice.upper) == end and bodies[0].slice.lower is not None
    chk.ob("body-ends-at-announced-length", fi.site(bodies[0] if bodies else None), ok_b, f"body slice(s): {[ast.unparse(b) for b in bodies]}; remainder from `{end}`", key="body-slice")
    # the body parser gets exactly that slice
    body_cls_names = {c.name for c in repo.subclasses(repo.cls("xknx.knxip.body", "KNXIPBody"), strict=True)}
    body_vars = {n.targets[0].id for n in walk_local(fi.node) if isinstance(n, ast.Assign) and len(n.targets) == 1 and isinstance(n.targets[0], ast.Name) and isinstance(n.value, ast.Call) and call_name(n.value) in body_cls_names}
    bcalls = [c for c in calls(fi.node) if isinstance(c.func, ast.Attribute) and c.func.attr == "from_knx" and isinstance(c.func.value, ast.Name) and c.func.value.id in body_vars]
    bvar = None
    for n in walk_local(fi.node):
        if isinstance(n, ast.Assign) and bodies and n.value is bodies[0] and isinstance(n.targets[0], ast.Name):
            bvar = n.targets[0].id
    ok_c = len(bcalls) == 1 and len(bcalls[0].args) == 1 and (ast.unparse(bcalls[0].args[0]) == bvar or (bodies and bcalls[0].args[0] is bodies[0]))
    chk.ob("body-parser-sees-only-the-frame", fi.site(bcalls[0] if bcalls else None), ok_c, f"body.from_knx is called with `{ast.unparse(bcalls[0].args[0]) if bcalls and bcalls[0].args else '?'}` (= the announced-length slice `{bvar}`)", key="body-arg")
    # len(data) >= total_length at the slice (Incomplete guard)
    facts = an.facts(ret)
    g1 = any((a == f"len({data}) < {end}" and v is False) or (a == f"len({data}) >= {end}" and v is True) or (a == f"{end} > len({data})" and v is False) for a, v in facts)
    chk.ob("frame-complete-before-slicing", fi.site(ret), g1, f"`len({data}) >= {end}` holds on every path to the return (else IncompleteKNXIPFrame)", key="complete-guard")
    # total_length >= HEADERLENGTH: local guard or header parser postcondition
    hvar = end.rsplit(".", 1)[0] if ok_shape else "header"
    lb_local = lbd.facts_lb(an, end, ret)
    hcalls = [c for c in calls(fi.node) if call_name(c) == f"{hvar}.from_knx"]
    lb_post = lbd.post_attr(hfk, "self.total_length", hdr) if hcalls else NEG
    later_writes = [n for n in walk_local(fi.node) if isinstance(n, (ast.Assign, ast.AugAssign)) and any(isinstance(x, ast.Attribute) and x.attr == "total_length" and isinstance(x.ctx, ast.Store) for x in ast.walk(n))]
    lb = max(lb_local, lb_post if not later_writes else NEG)
    chk.ob("announced-length-covers-header", fi.site(ret), isinstance(hl, int) and lb >= hl,
           f"`{end}` >= {lb if lb > NEG else 'unknown'} at the return (local guard: {lb_local if lb_local > NEG else 'none'}; KNXIPHeader.from_knx postcondition: {lb_post if lb_post > NEG else 'none'}); needs >= HEADERLENGTH = {hl}"
           f"{'' if isinstance(hl, int) and lb >= hl else ' — with a smaller announced length the frame is accepted and the remainder overlaps it (consumed length != announced length)'}",
           key="total-length-floor")
    pos_lb = lbd.ret(hfk, hdr)
    chk.ob("body-starts-after-header", hfk.site(), isinstance(hl, int) and pos_lb == hl and all(isinstance(r.value, (ast.Attribute, ast.Name, ast.Constant)) for r in walk_local(hfk.node) if isinstance(r, ast.Return)),
           f"KNXIPHeader.from_knx returns HEADERLENGTH ({pos_lb}) as body offset", key="pos-body")
    # IncompleteKNXIPFrame raise sites: only the header parser (for a short header) and the frame parser (for a body
    # shorter than the announced length) may say "incomplete"
    sites = []
    for f in repo.all_functions():
        if not f.module.name.startswith("xknx.knxip"):
            continue
        for n in walk_local(f.node):
            if isinstance(n, ast.Raise) and n.exc is not None and "IncompleteKNXIPFrame" in ast.unparse(n.exc):
                sites.append((f, n))
    chk.floor("IncompleteKNXIPFrame raise sites", len(sites), 2)
    for f, n in sites:
        c = CFG(f.node)
        facts = c.must_facts()
        nid = [x.id for x in c.nodes if x.ast is n]
        fs = facts.get(nid[0], frozenset()) if nid else frozenset()
        short = sorted(a for a, v in fs if v and a.startswith("len(") and " < " in a and (a.endswith("HEADERLENGTH") or a.endswith(".total_length")))
        chk.ob("incomplete-only-when-more-octets-help", f.site(n), bool(short) and f.qualname in ("KNXIPHeader.from_knx", "KNXIPFrame.from_knx"), f"{f.qualname}: `raise IncompleteKNXIPFrame` is reached only with {short or 'no length shortfall established'}", key=f"incomplete|{f.qualname}")
    # ... and for a short header, only when what has arrived is the beginning of a valid header: a table over header
    # prefixes (cell evaluation of KNXIPHeader.from_knx on constant inputs by the abstract machine - nothing runs)
    from ..absmachine import AbsMachine, Outcome, Raise, UNKNOWN
    from ..exctable import ExcTable
    from ..explore import Explorer
    from ..loader import NOFOLD
    ver = repo.const(hdr, "PROTOCOLVERSION")
    if not isinstance(hl, int) or not isinstance(ver, int):
        raise AnalysisError("KNXIPHeader: HEADERLENGTH / PROTOCOLVERSION do not fold")
    st = repo.cls("xknx.knxip.knxip_enum", "KNXIPServiceType")
    svc = {v for v in repo.enum_members(st).values() if isinstance(v, int)}
    chk.floor("KNXIPServiceType members", len(svc), 20)
    hc = CFG(hfk.node)
    box: dict = {}

    def hook(e, env):
        v = repo.fold(e, hfk.module, hfk.cls) if isinstance(e, (ast.Attribute, ast.Name)) else NOFOLD
        return v if v is not NOFOLD and isinstance(v, (int, bytes)) and not isinstance(v, bool) else UNKNOWN

    def cm(c, env):
        if call_name(c) == "KNXIPServiceType" and len(c.args) == 1:
            v = box["am"].ev(c.args[0], env, {})
            if isinstance(v, int):
                return [Outcome(None, ("service", v) if v in svc else Raise("ValueError"))]
        return None
    am = AbsMachine(hc, ExcTable(repo), cm, hook)
    box["am"] = am
    good_svc, bad_svc = min(svc), next(x for x in range(0x10000) if x not in svc)
    full_ok = bytes((hl, ver)) + good_svc.to_bytes(2, "big") + (20).to_bytes(2, "big")
    cells = []
    for k in range(0, 6):
        cells.append((full_ok[:k], "IncompleteKNXIPFrame", f"first {k} octets of a valid header"))
    cells.append((bytes((hl ^ 1,)), "CouldNotParseKNXIP", "one octet, not the header length"))
    cells.append((bytes((0,)) * 3, "CouldNotParseKNXIP", "three zero octets"))
    cells.append((bytes((hl, ver ^ 1)), "CouldNotParseKNXIP", "two octets, wrong protocol version"))
    cells.append((bytes((hl, ver)) + bad_svc.to_bytes(2, "big"), "CouldNotParseKNXIP", "four octets, unknown service type"))
    cells.append((bytes((hl, ver)) + bad_svc.to_bytes(2, "big") + b"\x00", "CouldNotParseKNXIP", "five octets, unknown service type"))
    cells.append((bytes((hl ^ 1, ver)) + good_svc.to_bytes(2, "big") + b"\x00", "CouldNotParseKNXIP", "five octets, wrong header length octet"))
    # service types the frame dispatch has no body class for: no continuation of their header is a frame either
    ff = repo.func(M, "KNXIPFrame.from_knx")
    handled = {n.comparators[0].attr for n in ast.walk(ff.node) if isinstance(n, ast.Compare) and len(n.ops) == 1 and isinstance(n.ops[0], ast.Eq) and isinstance(n.comparators[0], ast.Attribute) and ast.unparse(n.comparators[0].value).endswith("KNXIPServiceType")}
    members = repo.enum_members(st)
    unimpl = sorted(v for k, v in members.items() if isinstance(v, int) and k not in handled)
    chk.count("service types without a body class", len(unimpl))
    if unimpl:
        u = unimpl[0]
        cells.append((bytes((hl, ver)) + u.to_bytes(2, "big"), "CouldNotParseKNXIP", "four octets, unimplemented service type"))
        cells.append((bytes((hl, ver)) + u.to_bytes(2, "big") + b"\x00", "CouldNotParseKNXIP", "five octets, unimplemented service type"))
        # ... and with the whole header there: the dispatch decides before a missing remainder is reported
        fc = CFG(ff.node)
        inc = [n.id for n in fc.nodes if n.kind == "stmt" and isinstance(n.ast, ast.Raise) and n.ast.exc is not None and "IncompleteKNXIPFrame" in ast.unparse(n.ast.exc)]
        # the local the frame is built from (`KNXIPFrame(header=.., body=<local>)`), whatever it is called
        bl = next((k.value.id for c in calls(ff.node) if call_name(c) == "KNXIPFrame" for k in c.keywords if k.arg == "body" and isinstance(k.value, ast.Name)), None)
        bodies = [n.id for n in fc.nodes if n.kind == "stmt" and isinstance(n.ast, ast.Assign) and isinstance(n.ast.targets[0], ast.Name) and n.ast.targets[0].id == bl]
        ok_d = bool(inc) and bool(bodies) and all(fc.all_paths_hit(fc.entry, bodies, [i_], edge_ok=fc.normal_only) for i_ in inc)
        chk.ob("incomplete-only-when-more-octets-help", ff.site(), ok_d, "KNXIPFrame.from_knx reports a missing remainder only after the service type was found to have a body class" if ok_d else "KNXIPFrame.from_knx reports `incomplete` before it looks at the service type: a truncated frame of an unimplemented service (06100533...) is 'incomplete' although every completion is refused", key="incomplete|after-dispatch")
    for data, want, label in cells:
        paths = Explorer(hc, repo, am.step).run(hc.entry, [], {hfk.node.args.args[1].arg: data})
        got = sorted({(p_.end_kind, str(p_.env.get("#raised"))) for p_ in paths})
        chk.ob("incomplete-only-for-the-beginning-of-a-valid-header", hfk.site(), got == [("raise", want)], f"KNXIPHeader.from_knx({data.hex() or 'empty'}) [{label}]: {got}; required {want} - octets that no continuation turns into a frame are not 'incomplete' (a stream transport would keep them and lose the frame that follows)", key=f"header-prefix|{label}")


def dispatch(chk: Check, repo: Repo) -> None:
    fi = repo.func(M, "KNXIPFrame.from_knx")
    cfg = CFG(fi.node)
    mf = cfg.must_facts()
    body_base = repo.cls("xknx.knxip.body", "KNXIPBody")
    st = repo.cls("xknx.knxip.knxip_enum", "KNXIPServiceType")
    concrete = {c.name: c for c in repo.subclasses(body_base, strict=True) if isinstance(repo.const(c, "SERVICE_TYPE"), EnumMember) and "SERVICE_TYPE" in c.attrs}
    chk.floor("KNX/IP body classes", len(concrete), 28)
    arms: dict[str, list[str]] = {}
    n_arms = 0
    body_names = {c.name for c in repo.subclasses(body_base, strict=True)}  # an arm is the construction of a body object, whatever the local is called
    for n in cfg.nodes:
        a = n.ast
        if not (n.kind == "stmt" and isinstance(a, ast.Assign) and len(a.targets) == 1 and isinstance(a.targets[0], ast.Name) and isinstance(a.value, ast.Call) and call_name(a.value) in body_names):
            continue
        kname = call_name(a.value)
        key = None
        for text, val in mf[n.id]:
            if val and "==" in text:
                e = ast.parse(text, mode="eval").body
                if isinstance(e, ast.Compare) and isinstance(e.ops[0], ast.Eq) and ast.unparse(e.left).endswith("service_type_ident"):
                    v = repo.fold(e.comparators[0], fi.module, fi.cls)
                    if isinstance(v, EnumMember):
                        key = v
        n_arms += 1
        cls = concrete.get(kname)
        code = repo.const(cls, "SERVICE_TYPE") if cls is not None else NOFOLD
        ok = cls is not None and isinstance(code, EnumMember) and key is not None and (code.enum, code.name) == (key.enum, key.name)
        arms.setdefault(kname, []).append(repr(key))
        chk.ob("arm-key-equals-class-service-type", fi.site(a), ok, f"arm `body = {kname}()` is guarded by {key!r}; {kname}.SERVICE_TYPE = {code!r}", key=f"arm|{kname}")
    chk.floor("dispatch arms", n_arms, 28)
    for name in sorted(concrete):
        chk.ob("every-body-class-has-one-arm", fi.site(), len(arms.get(name, [])) == 1, f"{name}: arms {arms.get(name, [])}", key=f"class-arm|{name}")
    chk.count("KNXIPServiceType members", len(repo.enum_members(st)))


def run(chk: Check, repo: Repo) -> None:
    mr = engine(repo)
    entry = repo.func(M, "KNXIPFrame.from_knx")
    check_entry(chk, mr, entry, DECLARED, reviewed=address_reviewed(repo, tuple(m for m in repo.modules if m.startswith("xknx.knxip."))))
    chk.ob("declared-subclass", entry.site(), mr.is_sub("IncompleteKNXIPFrame", "CouldNotParseKNXIP"), "class table: IncompleteKNXIPFrame is a subclass of CouldNotParseKNXIP", key="incomplete-subclass")
    chk.ob("no-recursion", entry.site(), not mr.recursive, f"no call-graph cycle below the entry ({sorted(mr.recursive)})", key="no-recursion")
    fmap = {f.ref: f for f in repo.all_functions()}
    below = [fmap[r] for r in mr.functions_analysed if r in fmap]
    lbd = LowerBound(mr)
    loop_progress(chk, repo, mr, lbd, below, 3)
    consumed_length(chk, repo, mr, lbd)
    dispatch(chk, repo)
    chk.extra["lower_bound_trace"] = lbd.trace[:60]
    chk.rule("E1 may-raise analysis of KNXIPFrame.from_knx; E11 parse-loop progress by return-value lower bounds; consumed-length guards from CFG must-facts + header-parser postcondition; E3 dispatch agreement; census of IncompleteKNXIPFrame raise sites")
    finish(chk, mr)
