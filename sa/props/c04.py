"""C04 — application-layer decoding is total with declared errors only.

 (a) E1 may-raise analysis of APCI.from_knx (dispatcher + all service parsers + payload / address constructors):
     only ConversionError (incl. its subclass UnsupportedAPCIService) can leave it.  The dispatcher's
     `except (IndexError, struct.error, ValueError)` is modelled like any handler, so narrowing it, removing it
     or moving a parser call outside surfaces every site underneath.
 (b) E3 dispatch agreement: every arm `return K.from_knx(raw)` is guarded by the enum member equal to K.CODE;
     every concrete service class has exactly one arm; every member of the three APCI enums is dispatched or is
     a prefix member guarding sub-arms.
 (c) "malformed, not unsupported": UnsupportedAPCIService is raised only by the dispatcher's fall-through and by
     classes whose to_knx is an unconditional NotImplementedError stub; CEMILData.from_knx maps it to
     UnsupportedCEMIMessage *before* the ConversionError clause (first-match semantics, subclass relation).
 (d) termination: no recursion, no while-loop below the entry.
"""

from __future__ import annotations

import ast

from ..astx import call_name, calls, walk_local
from ..cfg import CFG
from ..loader import NOFOLD, AnalysisError, EnumMember, Repo
from ..report import Check
from .apci_common import selector_vars
from .c12 import address_reviewed
from .e1_common import check_entry, engine, finish

M = "xknx.telegram.apci"


def dispatch(chk: Check, repo: Repo) -> None:
    fi = repo.func(M, "APCI.from_knx")
    cfg = CFG(fi.node)
    mf = cfg.must_facts()
    apci = repo.cls(M, "APCI")
    concrete = {c.name: c for c in repo.subclasses(apci, strict=True) if repo.class_attr_expr(c, "CODE") is not None and "from_knx" in c.methods}
    chk.floor("concrete APCI service classes", len(concrete), 80)
    arms: dict[str, list[str]] = {}
    guard_members: set[tuple[str, str]] = set()
    prefix_members: set[tuple[str, str]] = set()
    n_arms = 0
    sel = selector_vars(repo, fi)
    chk.ob("dispatch-selectors-are-the-apci-bits", fi.site(), sorted(sel.values()) == [0x3C0, 0x3FF], f"dispatcher selects on {{ {', '.join(f'{k} = word & {v:#06x}' for k, v in sel.items())} }}; required the 10-bit APCI code and its 4-bit service prefix", key="selectors")
    for n in cfg.nodes:
        if not isinstance(n.ast, ast.Return) or not isinstance(n.ast.value, ast.Call):
            continue
        cn = call_name(n.ast.value)
        if not cn.endswith(".from_knx"):
            continue
        kname = cn[: -len(".from_knx")]
        n_arms += 1
        svc = ap = None
        for text, val in mf[n.id]:
            if not val or "==" not in text:
                continue
            e = ast.parse(text, mode="eval").body
            if isinstance(e, ast.Compare) and isinstance(e.ops[0], ast.Eq):
                v = repo.fold(e.comparators[0].value if isinstance(e.comparators[0], ast.Attribute) and e.comparators[0].attr == "value" else e.comparators[0], fi.module, fi.cls)
                if isinstance(v, EnumMember):
                    if sel.get(ast.unparse(e.left)) == 0x3C0:
                        svc = v
                    elif sel.get(ast.unparse(e.left)) == 0x3FF:
                        ap = v
        key = ap or svc
        if svc is not None:
            guard_members.add((svc.enum, svc.name))
            if ap is not None:
                prefix_members.add((svc.enum, svc.name))
        if ap is not None:
            guard_members.add((ap.enum, ap.name))  # also an arm keyed by the full 10-bit code alone (single-code services)
        cls = concrete.get(kname)
        code = repo.const(cls, "CODE") if cls is not None else NOFOLD
        # fall-through arm of a prefix group (no `apci ==` guard): the class' CODE is the group's service member
        ok = cls is not None and isinstance(code, EnumMember) and key is not None and (code.enum, code.name) == (key.enum, key.name)
        arms.setdefault(kname, []).append(f"{key!r}")
        chk.ob("arm-key-equals-class-code", fi.site(n.ast), ok, f"arm `{cn}(raw)` is guarded by {key!r}; {kname}.CODE = {code!r}", key=f"arm|{kname}")
    chk.floor("dispatch arms", n_arms, 80)
    for name in sorted(concrete):
        chk.ob("every-service-class-has-one-arm", fi.site(), len(arms.get(name, [])) == 1, f"{name}: arms {arms.get(name, [])}", key=f"class-arm|{name}")
    for en in ("APCIService", "APCIUserService", "APCIExtendedService"):
        ec = repo.cls(M, en)
        for mname in repo.enum_members(ec):
            covered = (ec.ref, mname) in guard_members
            chk.ob("every-enum-member-dispatched", fi.site(), covered, f"{en}.{mname} is {'a dispatch key' if covered else 'NOT dispatched'}{' (prefix of a sub-dispatch group)' if (ec.ref, mname) in prefix_members else ''}", key=f"member|{en}.{mname}")
    chk.count("dispatch_arms", n_arms)


def unsupported_sites(chk: Check, repo: Repo) -> None:
    apci = repo.cls(M, "APCI")
    sites = []
    for f in repo.all_functions():
        if f.module.name != M:
            continue
        for n in walk_local(f.node):
            if isinstance(n, ast.Raise) and n.exc is not None and "UnsupportedAPCIService" in ast.unparse(n.exc):
                sites.append((f, n))
    chk.floor("UnsupportedAPCIService raise sites", len(sites), 1)
    for f, n in sites:
        if f.qualname == "APCI.from_knx":
            # the fall-through of the dispatch: reached under no positive selector test (not inside an arm), outside the try
            cfg_d = CFG(f.node)
            mf_d = cfg_d.must_facts()
            sel_d = selector_vars(repo, f)
            nodes_d = [x for x in cfg_d.nodes if x.ast is n]
            in_arm = any(v and isinstance(ast.parse(t, mode="eval").body, ast.Compare) and ast.unparse(ast.parse(t, mode="eval").body.left) in sel_d and isinstance(ast.parse(t, mode="eval").body.ops[0], ast.Eq) for x in nodes_d for t, v in mf_d[x.id])
            ok = bool(nodes_d) and not in_arm and all(not x.tries for x in nodes_d)
            why = "dispatcher fall-through (no arm matched)"
        else:
            tk = repo.lookup_method(f.cls, "to_knx") if f.cls is not None else None
            body = [s for s in tk.node.body if not (isinstance(s, ast.Expr) and isinstance(s.value, ast.Constant))] if tk is not None else []
            ok = f.name == "from_knx" and len(body) == 1 and isinstance(body[0], ast.Raise) and "NotImplementedError" in ast.unparse(body[0])
            why = f"{f.cls.name if f.cls else '?'} is a not-implemented stub (to_knx unconditionally raises NotImplementedError)"
        chk.ob("unsupported-only-for-unimplemented", f.site(n), ok, f"`raise UnsupportedAPCIService` in {f.qualname}: {why}", key=f"unsupported|{f.qualname}")
    # handler order in CEMILData.from_knx
    ld = repo.func("xknx.cemi.cemi_frame", "CEMILData.from_knx")
    chk.unit(ld)
    ok = False
    detail = "try around APCI.from_knx not found"
    for t in walk_local(ld.node):
        if isinstance(t, ast.Try) and any(call_name(c) == "APCI.from_knx" for s in t.body for c in calls(s)):
            names = [ast.unparse(h.type) if h.type is not None else "" for h in t.handlers]
            maps = {}
            for h in t.handlers:
                r = [x for x in walk_local(h) if isinstance(x, ast.Raise) and x.exc is not None]
                maps[ast.unparse(h.type) if h.type is not None else ""] = call_name(r[0].exc) if r and isinstance(r[0].exc, ast.Call) else None
            ok = names[:2] == ["UnsupportedAPCIService", "ConversionError"] and maps.get("UnsupportedAPCIService") == "UnsupportedCEMIMessage" and maps.get("ConversionError") == "CouldNotParseCEMI"
            detail = f"handlers in order {names}; mapping {maps}"
    chk.ob("malformed-vs-unsupported-mapping", ld.site(), ok, detail + " (UnsupportedAPCIService is a subclass of ConversionError: order matters)", key="handler-order")
    from ..exctable import ExcTable
    chk.ob("malformed-vs-unsupported-mapping", ld.site(), ExcTable(repo).is_subclass("UnsupportedAPCIService", "ConversionError"), "class table: UnsupportedAPCIService is a subclass of ConversionError", key="subclass-relation")


def run(chk: Check, repo: Repo) -> None:
    mr = engine(repo)
    entry = repo.func(M, "APCI.from_knx")
    check_entry(chk, mr, entry, ("ConversionError",), reviewed=address_reviewed(repo, (M,)))
    chk.ob("no-recursion", entry.site(), not mr.recursive, f"no call-graph cycle below the entry ({sorted(mr.recursive)})", key="no-recursion")
    fmap = {f.ref: f for f in repo.all_functions()}
    loops = [fmap[r].qualname for r in mr.functions_analysed if r in fmap and any(isinstance(n, ast.While) for n in walk_local(fmap[r].node))]
    chk.ob("no-unbounded-loop", entry.site(), not loops, f"`while` loops below the entry: {loops}", key="no-while-loops")
    dispatch(chk, repo)
    unsupported_sites(chk, repo)
    chk.rule("E1 may-raise analysis of APCI.from_knx; E3 dispatch/registry agreement from CFG must-facts; E5 census of UnsupportedAPCIService raise sites; handler-order rule in CEMILData.from_knx")
    finish(chk, mr)
