"""Shared by C05 / C06: APCI service classes, dispatch masks, symbolic objects and bit-level comparison (E2)."""

from __future__ import annotations

import ast
from typing import Any

from ..cfg import CFG
from ..loader import NOFOLD, AnalysisError, ClassInfo, EnumMember, Repo
from ..sereval import BV, INF, TOP, Blob, Bytes, EnumV, Lin, ListV, Obj, Run, SerEval, Src, Unsupported, _FieldRef

M = "xknx.telegram.apci"


def service_classes(repo: Repo) -> list[ClassInfo]:
    apci = repo.cls(M, "APCI")
    out = []
    for c in repo.subclasses(apci, strict=True):
        if "from_knx" not in c.methods or "to_knx" not in c.methods or repo.class_attr_expr(c, "CODE") is None:
            continue
        out.append(c)
    return out


def is_stub(repo: Repo, c: ClassInfo) -> bool:
    body = [s for s in c.methods["to_knx"].node.body if not (isinstance(s, ast.Expr) and isinstance(s.value, ast.Constant))]
    return len(body) == 1 and isinstance(body[0], ast.Raise) and "NotImplementedError" in ast.unparse(body[0])


def selector_vars(repo: Repo, fi) -> dict[str, int]:
    """locals of the dispatcher that hold (the 16-bit word raw[0]:raw[1]) & mask, by definition rather than by name:
    name -> mask.  mask 0x3FF is the full APCI code, 0x3C0 the 4-bit service."""
    out: dict[str, int] = {}
    from ..astx import walk_local
    defs = [n for n in walk_local(fi.node) if isinstance(n, ast.Assign) and len(n.targets) == 1 and isinstance(n.targets[0], ast.Name)]
    count: dict[str, int] = {}
    for n in walk_local(fi.node):
        if isinstance(n, ast.Name) and isinstance(n.ctx, ast.Store):
            count[n.id] = count.get(n.id, 0) + 1

    def word(e: ast.AST) -> int | None:
        t = ast.unparse(e)
        if t in ("raw[0] * 256 + raw[1]", "raw[0] << 8 | raw[1]", "(raw[0] << 8) + raw[1]", "raw[1] + raw[0] * 256", "int.from_bytes(raw[:2], 'big')", "int.from_bytes(raw[0:2], 'big')"):
            return 0xFFFF
        if isinstance(e, ast.Name) and e.id in out:
            return out[e.id]
        if isinstance(e, ast.BinOp) and isinstance(e.op, ast.BitAnd):
            for a, b in ((e.left, e.right), (e.right, e.left)):
                m = repo.fold(b, fi.module, fi.cls)
                w = word(a)
                if isinstance(m, int) and w is not None:
                    return w & m
        return None
    for d in sorted(defs, key=lambda n: n.lineno):
        if count.get(d.targets[0].id) != 1:
            continue
        w = word(d.value)
        if w is not None:
            out[d.targets[0].id] = w
    return out


def dispatch_masks(repo: Repo) -> dict[str, tuple[int, set[int]]]:
    """class name -> (mask of the 10 APCI bits that select it, set of full codes that reach it).
    Read from the dispatcher's guards: an arm under `apci == X` is selected by all 10 bits; an arm under only
    `service == X` by the upper 4 — minus the codes claimed by `apci ==` arms of the same block (fall-through)."""
    fi = repo.func(M, "APCI.from_knx")
    cfg = CFG(fi.node)
    mf = cfg.must_facts()
    arms: dict[str, tuple[int | None, int | None]] = {}
    sel = selector_vars(repo, fi)
    for n in cfg.nodes:
        if not isinstance(n.ast, ast.Return) or not isinstance(n.ast.value, ast.Call):
            continue
        cn = ast.unparse(n.ast.value.func)
        if not cn.endswith(".from_knx"):
            continue
        svc = ap = None
        for text, val in mf[n.id]:
            if not val or "==" not in text:
                continue
            e = ast.parse(text, mode="eval").body
            if isinstance(e, ast.Compare) and isinstance(e.ops[0], ast.Eq):
                v = repo.fold(e.comparators[0], fi.module, fi.cls)
                if isinstance(v, EnumMember):
                    v = v.value
                if isinstance(v, int):
                    if sel.get(ast.unparse(e.left)) == 0x3C0:
                        svc = v
                    elif sel.get(ast.unparse(e.left)) == 0x3FF:
                        ap = v
        arms[cn[: -len(".from_knx")]] = (svc, ap)
    out: dict[str, tuple[int, set[int]]] = {}
    by_block: dict[int, set[int]] = {}
    for k, (svc, ap) in arms.items():
        if ap is not None and svc is not None:
            by_block.setdefault(svc, set()).add(ap)
    for k, (svc, ap) in arms.items():
        if ap is not None:
            out[k] = (0x3FF, {ap})
        elif svc is not None:
            codes = {svc | low for low in range(64)} - by_block.get(svc, set())
            out[k] = (0x3C0, codes)
    return out


def apci_bit_position(octet: int, bit: int) -> int | None:
    """index (0..9) of the APCI code bit stored at (octet, bit), else None."""
    if octet == 0 and bit < 2:
        return 8 + bit
    if octet == 1:
        return bit
    return None


def compare_with_input(ev: SerEval, run: Run, out: Bytes, code: int, mask: int) -> tuple[list[str], list[tuple[int, int, Any]]]:
    """output octets vs the input they were decoded from.  Returns (structural mismatches, dropped bits) where a
    dropped bit is (octet, bit, constant written instead)."""
    problems: list[str] = []
    dropped: list[tuple[int, int, Any]] = []
    out = ev.norm_bytes(out, run)
    off = Lin(0)
    L = run.cons.norm(Lin(0, {"L": 1}))
    for p in out.parts:
        o = run.cons.norm(off)
        if isinstance(p, BV):
            if not o.is_const():
                problems.append(f"octet after a variable-length part at offset {o}: {p!r}")
                off = off + 1
                continue
            k = o.c
            for j in range(8):
                b = p.bit(j)
                want = Src("in", k, j)
                if b == want:
                    continue
                pos = apci_bit_position(k, j)
                if k == 0 and j >= 2:
                    if b != 0:
                        problems.append(f"octet 0 bit {j} (transport control bits) written as {b!r}")
                    continue
                if pos is not None and (mask >> pos) & 1:
                    if b != (code >> pos) & 1:
                        problems.append(f"APCI code bit {pos} written as {b!r}, class code has {(code >> pos) & 1}")
                    continue
                if b == 0 and want in getattr(run, "zero_bits", set()):
                    continue  # the reader accepted this path only with that received bit = 0
                if b in (0, 1):
                    dropped.append((k, j, b))
                else:
                    problems.append(f"octet {k} bit {j}: written from {b!r}, received as {want!r}")
            off = off + 1
        else:
            if p.origin != "in":
                problems.append(f"output part {p!r} does not come from the input")
            elif run.cons.norm(p.lo - o) != Lin(0):
                problems.append(f"input octets {p!r} re-emitted at offset {o}")
            off = off + (p.hi - p.lo)
    end = run.cons.norm(off)
    if run.cons.norm(end - L) != Lin(0):
        d = run.cons.decide(end - L, "==")
        if d is not True:
            problems.append(f"encoded length {end} differs from received length {L}")
    return problems, dropped


# ----------------------------------------------------------------------------- symbolic objects for the writer side
def symbolic_field(ev: SerEval, repo: Repo, run: Run, owner: ClassInfo, name: str, ann: str, variant: dict, prefix: str = "") -> Any:
    fq = prefix + name
    ann = ann.strip()
    opt = False
    parts = [p.strip() for p in ann.split("|")]
    if "None" in parts:
        opt = True
        parts = [p for p in parts if p != "None"]
    if opt and variant.get(fq) == "None":
        return None
    base = parts[0] if len(parts) == 1 else None
    if len(parts) > 1:
        base = variant.get(fq + "#type", parts[0])
    if base == "int":
        return _FieldRef(fq)
    if base == "bool":
        return BV((Src("f", fq, 0),))
    if base in ("bytes", "bytearray"):
        sym = f"len:{fq}"
        return Bytes((Blob(("f", fq), Lin(0), Lin(0, {sym: 1})),))
    if base in ("IndividualAddress", "GroupAddress"):
        return Obj(base, {"raw": BV(tuple(Src("f", fq, i) for i in range(16)))}, ev.cls_of(base))
    if base == "DPTBinary":
        return Obj("DPTBinary", {"value": BV(tuple(Src("f", fq, i) for i in range(6)))}, ev.cls_of("DPTBinary"))
    if base == "DPTArray":
        sym = f"len:{fq}"
        return Obj("DPTArray", {"value": Bytes((Blob(("f", fq), Lin(0), Lin(0, {sym: 1})),))}, ev.cls_of("DPTArray"))
    if base.startswith("list["):
        inner = base[5:-1]
        if inner in ("GroupAddress", "IndividualAddress"):
            n = f"n:{fq}"
            return ListV(inner, 2, Bytes((Blob(("f", fq), Lin(0), Lin(0, {n: 2})),)), Lin(0, {n: 1}))
        raise Unsupported(f"list field of {inner}")
    ci = ev.cls_of(base, owner.module)
    if ci is None:
        raise Unsupported(f"field type {ann}")
    if repo.is_enum(ci):
        vals = [v for v in repo.enum_members(ci).values() if isinstance(v, int)]
        w = max(vals).bit_length() if vals else 0
        run.notes.append(f"assume {fq} is a member of {ci.name}")
        bv = BV(tuple(Src("f", fq, i) for i in range(w)))
        run.__dict__.setdefault("known_members", set()).add((ci.ref, repr(bv)))
        return EnumV(ci.ref, bv)
    return symbolic_object(ev, repo, run, ci, variant, prefix=fq + ".")


def class_fields(repo: Repo, ci: ClassInfo) -> list[tuple[str, str, ast.expr | None]]:
    is_dc = any("dataclass" in ast.unparse(d) for c in repo.mro(ci) for d in c.node.decorator_list)
    out: list[tuple[str, str, ast.expr | None]] = []
    if is_dc:
        for c in reversed(repo.mro(ci)):
            for st in c.node.body:
                if isinstance(st, ast.AnnAssign) and isinstance(st.target, ast.Name) and "ClassVar" not in ast.unparse(st.annotation):
                    out = [f for f in out if f[0] != st.target.id] + [(st.target.id, ast.unparse(st.annotation), st.value)]
        return out
    init = repo.lookup_method(ci, "__init__")
    if init is None:
        return out
    for a in init.node.args.args[1:] + init.node.args.kwonlyargs:
        out.append((a.arg, ast.unparse(a.annotation) if a.annotation is not None else "int", None))
    return out


def field_variants(repo: Repo, ci: ClassInfo, ev: SerEval, prefix: str = "") -> list[dict]:
    """the cartesian product of Optional / union alternatives of the (nested) fields."""
    variants: list[dict] = [{}]
    for name, ann, _ in class_fields(repo, ci):
        fq = prefix + name
        parts = [p.strip() for p in ann.split("|")]
        alts: list[dict] = [{}]
        non_none = [p for p in parts if p != "None"]
        if len(non_none) > 1:
            alts = [{fq + "#type": p} for p in non_none]
        if "None" in parts:
            alts = alts + [{fq: "None"}]
        sub = ev.cls_of(non_none[0], ci.module) if len(non_none) == 1 else None
        if sub is not None and not repo.is_enum(sub) and sub.name not in ("IndividualAddress", "GroupAddress", "DPTBinary", "DPTArray"):
            alts = [dict(a, **s) for a in alts for s in field_variants(repo, sub, ev, fq + ".")] if alts != [{}] else field_variants(repo, sub, ev, fq + ".")
        variants = [dict(v, **a) for v in variants for a in alts]
    return variants


def symbolic_object(ev: SerEval, repo: Repo, run: Run, ci: ClassInfo, variant: dict, prefix: str = "") -> Obj:
    o = Obj(ci.name, {}, ci)
    for name, ann, _default in class_fields(repo, ci):
        o.fields[name] = symbolic_field(ev, repo, run, ci, name, ann, variant, prefix)
    return o


def expected_field(v: Any, run: Run) -> Any:
    """what the decoder must hand back for an original field value."""
    return v


# ------------------------------------------------------------------ ownership of the encoded buffer
def encoders_return_fresh_buffers(chk, repo: Repo, classes: list[ClassInfo]) -> set[str]:
    """CEMILData.to_knx ORs the TPCI into octet 0 of what payload.to_knx() returned - in place.  Every service's
    to_knx therefore has to return a buffer nobody else holds: built in the call (call result, concatenation, slice,
    literal), never an attribute or global.  A shared buffer keeps the transport bits of the frame sent before: the
    next PDU of that service re-encodes to other octets than it was decoded from.  Returns the classes that fail (their
    codec is not evaluated further - the aliasing is the finding)."""
    from ..astx import call_name, walk_local
    cf = repo.func("xknx.cemi.cemi_frame", "CEMILData.to_knx")
    mutates = any(isinstance(n, (ast.AugAssign, ast.Assign)) and any(isinstance(t, ast.Subscript) for t in ([n.target] if isinstance(n, ast.AugAssign) else n.targets)) for n in walk_local(cf.node))
    chk.count("in-place writes to the encoded APDU in CEMILData.to_knx", int(mutates))
    if not mutates:
        return set()

    def fresh(fi, e: ast.AST, cfg: CFG, at: int, depth: int = 3) -> str | None:
        """None if fresh, else why not"""
        v = cfg.symbolic(at, e)
        if isinstance(v, (ast.BinOp, ast.JoinedStr, ast.Constant, ast.List, ast.Tuple, ast.ListComp)):
            return None
        if isinstance(v, ast.Subscript):
            return None if isinstance(v.slice, ast.Slice) else f"`{ast.unparse(v)}` is an element of a container that lives on"
        if isinstance(v, ast.IfExp):
            return fresh(fi, v.body, cfg, at, depth) or fresh(fi, v.orelse, cfg, at, depth)
        if isinstance(v, ast.Call):
            n = call_name(v)
            callee = None
            if isinstance(v.func, ast.Name):
                r = repo.resolve(fi.module.name, v.func.id)
                callee = r if hasattr(r, "node") and isinstance(getattr(r, "node", None), (ast.FunctionDef, ast.AsyncFunctionDef)) else None
            elif isinstance(v.func, ast.Attribute) and isinstance(v.func.value, ast.Name) and v.func.value.id in ("self", "cls") and fi.cls is not None:
                callee = repo.lookup_method(fi.cls, v.func.attr)
            if callee is not None and depth > 0:
                cc = CFG(callee.node)
                for rn in cc.nodes:
                    if rn.kind == "stmt" and isinstance(rn.ast, ast.Return) and rn.ast.value is not None:
                        why = fresh(callee, rn.ast.value, cc, rn.id, depth - 1)
                        if why:
                            return f"{n}() returns a buffer that lives on: {why}"
            return None
        if isinstance(v, ast.Name):
            if v.id.startswith("φ_"):
                nm = v.id[2:]
                for d in cfg.reaching_defs()[at].get(nm, ()):
                    st = cfg.nodes[d].ast if d >= 0 else None
                    if isinstance(st, (ast.Assign, ast.AnnAssign)) and st.value is not None:
                        why = fresh(fi, st.value, cfg, d, depth)
                        if why:
                            return why
                return None
            params = {a.arg for a in fi.node.args.args + fi.node.args.kwonlyargs}
            return f"`{v.id}` is " + ("a parameter (the caller's object)" if v.id in params else "a module-level object")
        if isinstance(v, ast.Attribute):
            return f"`{ast.unparse(v)}` is an attribute - the same object is returned by every call"
        return None
    stale: set[str] = set()
    n = 0
    for c in classes:
        tk = c.methods.get("to_knx")
        if tk is None:
            continue
        cfg = CFG(tk.node)
        for rn in cfg.nodes:
            if rn.kind == "stmt" and isinstance(rn.ast, ast.Return) and rn.ast.value is not None:
                n += 1
                why = fresh(tk, rn.ast.value, cfg, rn.id)
                if why:
                    stale.add(c.name)
                chk.ob("encoder-returns-a-buffer-of-its-own", tk.site(rn.ast), why is None, f"{c.name}.to_knx returns `{ast.unparse(rn.ast.value)[:80]}`" + (f": {why}; CEMILData.to_knx writes the transport bits into it in place" if why else ": built in the call"), key=f"fresh|{c.name}")
    chk.floor("encoder return sites checked for aliasing", n, 80)
    return stale


def received_pdus_can_be_serialised_again(chk, repo: Repo) -> None:
    """"Re-serializing a received frame changes nothing but ..." presupposes that it can be re-serialised: for every
    service, on every accepting path of from_knx, to_knx of the decoded object returns (E2 evaluation of reader then
    writer over a symbolic APDU).  A writer guard that the reader does not mirror (a count octet taken unchecked) makes
    a delivered frame unserialisable - eg. when relaying or logging it."""
    ev = SerEval(repo)
    masks = dispatch_masks(repo)
    n = 0
    # a frame built from a telegram parses back to the same transport PDU only if the APDU buffer the frame writes its
    # transport bits into is the encoder's own (a shared one keeps the bits of the frame serialised before)
    stale = encoders_return_fresh_buffers(chk, repo, [c for c in service_classes(repo) if not is_stub(repo, c)])
    for c in service_classes(repo):
        if is_stub(repo, c) or c.name in stale:
            continue
        fk, tk = c.methods["from_knx"], c.methods["to_knx"]
        mask, codes = masks.get(c.name, (0x3FF, set()))
        # a service with data in the low six bits of its code whose block also holds dedicated codes of other services:
        # only the codes the dispatcher routes to it are "received PDUs" of this service - one run per such code
        heads: list[tuple[int, int] | None] = [None]
        if mask == 0x3C0 and 0 < len(codes) < 64:
            heads = [(k >> 8, k & 0xFF) for k in sorted(codes)]

        def fn(run_, c=c, fk=fk, tk=tk, head=None):
            run_.cons.iv["L"] = [2, 255]
            if head is None:
                raw = Bytes((Blob("in", Lin(0), Lin(0, {"L": 1})),))
            else:
                raw = Bytes((BV.const(head[0]), BV.const(head[1]), Blob("in", Lin(2), Lin(-2, {"L": 1}))))
            o = ev.call_function(fk, [raw], {}, run_, ctx=c)
            run_.notes.append("#decoded")
            return o, ev.call_function(tk, [], {}, run_, self_val=o, ctx=c)
        paths = []
        try:
            for h in heads:
                paths += ev.paths(lambda run_, h=h: fn(run_, head=h))
        except Unsupported as u:
            raise AnalysisError(f"{c.name}: codec outside the analysed fragment: {u}") from u
        n += 1
        refused = sorted({str(val)[:90] for outcome, val, r in paths if outcome != "return" and "#decoded" in r.notes})
        chk.ob("received-pdu-can-be-serialised-again", tk.site(), not refused, f"{c.name}: " + ("to_knx accepts every object from_knx returns" if not refused else f"from_knx accepts PDUs whose object to_knx refuses ({'; '.join(refused)})"), key=f"reserialise|{c.name}")
    chk.floor("services checked for re-serialisation of received PDUs", n, 70)


def payload_bits_never_form_another_service_code(chk, repo: Repo) -> None:
    """A service that carries data in the low six bits of its 10-bit code shares its block with the dedicated codes of
    other services (the dispatcher routes those first).  A field value that would produce such a code is not
    representable: the encoder has to refuse it, else the PDU it emits is another service's (the field wraps into the
    service code).  Decided by decoding each such foreign code with the class's own reader - which yields the object whose
    encoding would be that code - and requiring that to_knx refuses it on every path."""
    ev = SerEval(repo)
    masks = dispatch_masks(repo)
    n = 0
    for c in service_classes(repo):
        if is_stub(repo, c) or c.name not in masks:
            continue
        mask, codes = masks[c.name]
        if mask != 0x3C0 or not codes:
            continue
        block = next(iter(codes)) & 0x3C0
        foreign = sorted({block | low for low in range(64)} - codes)
        if not foreign:
            continue
        fk, tk = c.methods["from_knx"], c.methods["to_knx"]
        leaks = []
        for k in foreign:
            def fn(run_, k=k):
                run_.cons.iv["L"] = [2, 255]
                raw = Bytes((BV.const(k >> 8), BV.const(k & 0xFF), Blob("in", Lin(2), Lin(-2, {"L": 1}))))
                o = ev.call_function(fk, [raw], {}, run_, ctx=c)
                run_.notes.append("#decoded")
                return ev.call_function(tk, [], {}, run_, self_val=o, ctx=c)
            try:
                paths = ev.paths(fn)
            except Unsupported as u:
                raise AnalysisError(f"{c.name}: codec outside the analysed fragment: {u}") from u
            if any(outcome == "return" for outcome, val, r in paths):
                leaks.append(k)
        n += 1
        chk.ob("payload-bits-never-form-another-service-code", tk.site(), not leaks, f"{c.name}: the block {block:#05x}..{block | 63:#05x} holds {len(foreign)} codes of other services; " + ("to_knx refuses every field value that would produce one" if not leaks else "to_knx emits " + ", ".join(f"{k:#05x}" for k in leaks[:6]) + (" ..." if len(leaks) > 6 else "") + " for a field value in range - a PDU the dispatcher decodes as another service"), key=f"collide|{c.name}")
    chk.count("services sharing their code block with dedicated codes", n)
