"""C17 — Data Secure sequence-number freshness in both directions (induction over the step).

 (a) check_sequence_number: abstract path enumeration over {sender known?} x {received <,=,> last}
     x {body of the with-block raises?}: the yield (=decrypt+deliver) is reached only for a known
     sender and received > last; the table write happens only after a normal yield, with the
     received number, for the same sender key.
 (b) the individual-address table has no other writer.
 (c) the decryption runs inside `with check_sequence_number(src, int.from_bytes(seq bytes))`,
     the number checked is the one that enters the MAC, and nothing is returned from inside.
 (d) get_sequence_number: over {n <=,> MAX}: returns n and stores n+1, or raises and stores
     nothing; MAX folds to 2**48-1; writers of the sending counter; sole consumer.
"""

from __future__ import annotations

import ast

from ..absmachine import AbsMachine, Outcome, Raise, Sym, SymInt, UNKNOWN, Obj
from ..astx import attr_writes, call_name, call_sites, calls, enclosing_with_items, method_name, walk_local
from ..cfg import CFG
from ..exctable import ExcTable
from ..explore import Explorer
from ..loader import NOFOLD, AnalysisError, Repo
from ..report import Check, canon

M = "xknx.secure.data_secure"


def check_csn(chk: Check, repo: Repo) -> None:
    fi = repo.func(M, "DataSecure.check_sequence_number")
    chk.unit(fi)
    chk.ob("contextmanager", fi.site(), any("contextmanager" in d for d in fi.decorators), "check_sequence_number is a contextmanager (exceptions of the with-body are thrown in at the yield)", key="csn-contextmanager")
    cfg = CFG(fi.node)
    exc = ExcTable(repo)
    params = [a.arg for a in fi.node.args.args]
    src_p, seq_p = params[1], params[2]
    cells = 0
    for known in (True, False):
        for d in (-1, 0, 1):
            cells += 1
            am = AbsMachine(cfg, exc, lambda c, e: None)
            base = am.step

            def step(node, env, known=known):
                a = node.ast
                tr = tuple(env.get("trace", ()))
                # table lookup
                if node.kind == "stmt" and isinstance(a, ast.Assign) and isinstance(a.value, ast.Subscript) and ast.unparse(a.value.value) == "self._individual_address_table":
                    e2 = dict(env)
                    key = ast.unparse(a.value.slice)
                    if known:
                        e2["trace"] = tr + (f"LOOKUP[{key}]",)
                        e2[ast.unparse(a.targets[0])] = SymInt("last", 0)
                        return [("next", e2)]
                    e2["trace"] = tr + (f"LOOKUP[{key}]:KeyError",)
                    e2["#raised"] = "KeyError"
                    return [(f"goto:{am._exc_target(node, 'KeyError')}", e2)]
                if node.kind == "stmt" and isinstance(a, ast.Expr) and isinstance(a.value, ast.Yield):
                    e1 = dict(env); e1["trace"] = tr + ("YIELD:ok",)
                    e2 = dict(env); e2["trace"] = tr + ("YIELD:body-raised",); e2["#raised"] = "DataSecureError"
                    return [("next", e1), (f"goto:{am._exc_target(node, 'DataSecureError')}", e2)]
                if node.kind == "stmt" and isinstance(a, ast.Assign) and isinstance(a.targets[0], ast.Subscript) and ast.unparse(a.targets[0].value) == "self._individual_address_table":
                    e2 = dict(env)
                    v = am.ev(a.value, e2, {})
                    e2["trace"] = tr + (f"WRITE[{ast.unparse(a.targets[0].slice)}]={v!r}",)
                    return [("next", e2)]
                return base(node, env)

            env = {seq_p: SymInt("last", d)}
            paths = Explorer(cfg, repo, step).run(cfg.entry, [], env)
            got = {(tuple(t for t in p.env.get("trace", ())), p.end_kind) for p in paths}
            L = f"LOOKUP[{src_p}]"
            if not known:
                want = {((L + ":KeyError", "raise:DataSecureError"), "raise")}
            elif d <= 0:
                want = {((L, "raise:DataSecureError"), "raise")}
            else:
                want = {((L, "YIELD:ok", f"WRITE[{src_p}]={SymInt('last', d)!r}"), "exit"), ((L, "YIELD:body-raised"), "raise")}
            chk.ob("freshness-cell", fi.site(), got == want, f"sender {'known' if known else 'unknown'}, received = last{d:+d}: code {sorted(got)}; reference {sorted(want)}", key=f"csn|{known}|{d}" + ("" if got == want else f"|{sorted(got)}"))
    chk.count("check_sequence_number_cells", cells)
    # (b) writers
    ws = attr_writes(repo, "_individual_address_table")
    chk.floor("individual_address_table_writers", len(ws), 2)
    for w in ws:
        ok = (w.kind == "assign" and w.func.qualname == "DataSecure.__init__") or (w.kind == "subscript-assign" and w.func.qualname == "DataSecure.check_sequence_number")
        chk.ob("table-writer", w.func.site(w.stmt), ok, f"{w.kind} `{canon(w.stmt)}` in {w.func.qualname} (allowed: __init__, the post-yield update)", key=f"table-writer|{w.func.qualname}|{w.kind}")
    chk.rule("E7/E4 abstract path enumeration of the freshness context manager (yield modelled with normal/raising resumption); E5 writer census of the sender table")


def check_receive(chk: Check, repo: Repo) -> None:
    fi = repo.func(M, "DataSecure._received_secure_cemi")
    chk.unit(fi)
    cfg = CFG(fi.node)
    dec = [n for n in cfg.nodes if n.ast is not None and n.kind == "stmt" and any(method_name(c) == "get_plain_apdu" for c in calls(n.ast))]
    chk.floor("get_plain_apdu sites", len(dec), 1)
    for n in dec:
        ws = [w for w in n.withs if any(call_name(c) == "self.check_sequence_number" for c in calls(w.items[0].context_expr))]  # type: ignore[attr-defined]
        ok = len(ws) == 1
        detail = "decryption/verification runs inside `with self.check_sequence_number(...)`"
        if ok:
            call = [c for c in calls(ws[0].items[0].context_expr) if call_name(c) == "self.check_sequence_number"][0]  # type: ignore[attr-defined]
            kw = {k.arg: k.value for k in call.keywords}
            params = [a.arg for a in repo.func(M, "DataSecure.check_sequence_number").node.args.args][1:]
            for p, a in zip(params, call.args):
                kw[p] = a
            cemi_p, sapdu_p = [a.arg for a in fi.node.args.args][1:3]
            src_ok = ast.unparse(kw.get("source_address", ast.Constant(None))) == f"{cemi_p}.src_addr"
            seq = kw.get("received_sequence_number")
            gp = [c for c in calls(n.ast) if method_name(c) == "get_plain_apdu"][0]
            recv = ast.unparse(gp.func.value)  # object whose sequence_number_bytes enters the MAC
            seq_ok = isinstance(seq, ast.Call) and call_name(seq) == "int.from_bytes" and ast.unparse(seq.args[0]) == f"{recv}.sequence_number_bytes" and ast.unparse(seq.args[1]) == "'big'"
            ok = src_ok and seq_ok
            detail += f"; checked sender = frame source ({src_ok}); checked number = int.from_bytes({recv}.sequence_number_bytes, 'big') of the object being verified ({seq_ok})"
            # nothing returns from inside the with (a return inside would skip the table update? no - contextmanager resumes; but keep plain flow)
            inner_returns = [x for x in walk_local(ws[0]) if isinstance(x, ast.Return)]
            ok = ok and not inner_returns
        chk.ob("decrypt-inside-freshness-check", fi.site(n.ast), ok, detail, key="decrypt-inside-freshness-check")
    # SecureData.get_plain_apdu uses self.sequence_number_bytes for block_0 (so the checked number is the authenticated one)
    gpa = repo.func("xknx.secure.data_secure_asdu", "SecureData.get_plain_apdu")
    chk.unit(gpa)
    b0 = [c for c in calls(gpa.node) if call_name(c) == "block_0"]
    okb = bool(b0) and all(any(k.arg == "sequence_number" and ast.unparse(k.value) == "self.sequence_number_bytes" for k in c.keywords) for c in b0)
    chk.ob("checked-number-is-authenticated", gpa.site(), okb, "every block_0(...) of the receiver takes sequence_number=self.sequence_number_bytes", key="checked-number-is-authenticated")
    chk.rule("E4 lexical with-scope: get_plain_apdu inside check_sequence_number with the frame's own sender and sequence number")


def check_sending(chk: Check, repo: Repo) -> None:
    fi = repo.func(M, "DataSecure.get_sequence_number")
    chk.unit(fi)
    cfg = CFG(fi.node)
    exc = ExcTable(repo)
    mx = repo.module_const(M, "_SEQUENCE_NUMBER_MAX")
    chk.ob("max-is-48-bit", fi.site(), mx == 2 ** 48 - 1, f"_SEQUENCE_NUMBER_MAX folds to {mx!r} (2**48-1 = {2**48-1})", key="max-is-48-bit")

    def name_hook(e, env):
        if isinstance(e, ast.Name) and e.id == "_SEQUENCE_NUMBER_MAX":
            return SymInt("max", 0)
        return UNKNOWN

    for d in (-1, 0, 1):
        am = AbsMachine(cfg, exc, lambda c, e: None, name_hook)
        paths = Explorer(cfg, repo, am.step).run(cfg.entry, [], {"self._sequence_number_sending": SymInt("max", d)})
        got = {(p.end_kind, repr(p.env.get("#ret")) if p.end_kind == "exit" else p.env.get("#raised"), repr(p.env.get("self._sequence_number_sending"))) for p in paths}
        if d <= 0:
            want = {("exit", repr(SymInt("max", d)), repr(SymInt("max", d + 1)))}
        else:
            want = {("raise", "DataSecureError", repr(SymInt("max", d)))}
        chk.ob("sending-counter-cell", fi.site(), got == want, f"stored n = MAX{d:+d}: code (end, returned/raised, stored') = {sorted(got)}; reference {sorted(want)}", key=f"gsn|{d}" + ("" if got == want else f"|{sorted(got)}"))
    ws = attr_writes(repo, "_sequence_number_sending")
    chk.floor("sending_counter_writers", len(ws), 2)
    for w in ws:
        ok = w.func.qualname in ("DataSecure.__init__", "DataSecure.get_sequence_number")
        chk.ob("sending-counter-writer", w.func.site(w.stmt), ok, f"`{canon(w.stmt)}` in {w.func.qualname}", key=f"sending-counter-writer|{w.func.qualname}|{w.kind}")
    # __init__ rejects an initial value outside (0, MAX]
    ini = repo.func(M, "DataSecure.__init__")
    chk.unit(ini)
    cfg_i = CFG(ini.node)
    mf = cfg_i.must_facts()
    raises = [n for n in cfg_i.nodes if isinstance(n.ast, ast.Raise) and "DataSecureError" in ast.unparse(n.ast)]
    ok_i = False
    for n in cfg_i.nodes:
        if n.kind == "test" and "self._sequence_number_sending" in ast.unparse(n.ast) and "_SEQUENCE_NUMBER_MAX" in ast.unparse(n.ast):
            e = n.ast
            if isinstance(e, ast.Compare) and [type(o) for o in e.ops] == [ast.Lt, ast.LtE] and ast.unparse(e.left) == "0":
                # false edge must lead to the raise
                for t, lab in n.succ:
                    if lab == "false" and any(r.id in cfg_i.reachable([t]) for r in raises) and cfg_i.exit not in cfg_i.reachable([t], avoid=[r.id for r in raises]):
                        ok_i = True
    chk.ob("initial-range-guard", ini.site(), ok_i, "__init__ raises unless 0 < initial sequence number <= MAX", key="initial-range-guard")
    # consumers
    sites = call_sites(repo, "get_sequence_number")
    sites = [(f, c) for f, c in sites if f.module.name.startswith("xknx.secure")]
    for f, c in sites:
        chk.ob("sending-counter-consumer", f.site(c), f.qualname == "DataSecure._secure_data_cemi", f"get_sequence_number() called in {f.qualname}", key=f"gsn-consumer|{f.qualname}")
    sd = repo.func(M, "DataSecure._secure_data_cemi")
    chk.unit(sd)
    init_calls = [c for c in calls(sd.node) if method_name(c) == "init_from_plain_apdu"]
    ok_c = len(init_calls) == 1 and any(k.arg == "sequence_number" and ast.unparse(k.value) == "self.get_sequence_number()" for k in init_calls[0].keywords)
    chk.ob("outgoing-uses-counter", sd.site(), ok_c, "the secured frame's sequence number is exactly one get_sequence_number() result", key="outgoing-uses-counter")
    others = [(f, c) for f, c in call_sites(repo, "init_from_plain_apdu") if f.qualname != "DataSecure._secure_data_cemi"]
    chk.ob("outgoing-single-producer", sd.site(), not others, f"init_from_plain_apdu has no other caller ({[f.qualname for f, _ in others]})", key="outgoing-single-producer")
    ip = repo.func("xknx.secure.data_secure_asdu", "SecureData.init_from_plain_apdu")
    chk.unit(ip)
    tb = [c for c in calls(ip.node) if method_name(c) == "to_bytes" and ast.unparse(c.func.value) == "sequence_number"]
    ok_b = bool(tb) and all(repo.fold(c.args[0], ip.module, ip.cls) == 6 for c in tb)
    chk.ob("48-bit-backstop", ip.site(), ok_b, "sequence_number.to_bytes(6, ...) refuses numbers beyond 48 bits", key="48-bit-backstop")
    chk.rule("E7 cells of get_sequence_number over n vs MAX (symbolic ordering); E5 writer/consumer census of the sending counter")


def _step(e: ast.AST, fn: ast.AST, repo: Repo, mod) -> float | None:
    """smallest distance between two different values the expression can take ("resolution"), by structure:
    a clock reading is continuous (0.0); constants do not matter for differences; x * k scales the step; int() / round()
    / floor / `//` quantise to 1 (or keep a coarser step).  None: unknown construct."""
    from ..astx import inline_locals
    e = inline_locals(fn, e)

    def st(x: ast.AST) -> float | None:
        v = repo.fold(x, mod, None)
        if isinstance(v, (int, float)) and not isinstance(v, bool):
            return float("inf")  # a constant: takes one value
        if isinstance(x, ast.Name):
            # a module-level name bound once and never rebound by a function: one value per process
            binds = [t for st_ in mod.tree.body if isinstance(st_, (ast.Assign, ast.AnnAssign)) for t in (st_.targets if isinstance(st_, ast.Assign) else [st_.target]) if isinstance(t, ast.Name) and t.id == x.id]
            rebound = any(isinstance(g, ast.Global) and x.id in g.names for g in ast.walk(mod.tree))
            if len(binds) == 1 and not rebound:
                return float("inf")
            return None
        if isinstance(x, ast.Call):
            n = call_name(x)
            if n in ("time.time", "time.monotonic", "time.time_ns", "time.perf_counter"):
                return 0.0 if n != "time.time_ns" else 1.0
            if n in ("int", "round", "math.floor", "math.ceil", "math.trunc") and len(x.args) == 1:
                a = st(x.args[0])
                return None if a is None else max(a, 1.0)
            return None
        if isinstance(x, ast.BinOp):
            a, b = st(x.left), st(x.right)
            if a is None or b is None:
                return None
            if isinstance(x.op, (ast.Add, ast.Sub)):
                return min(a, b)
            if isinstance(x.op, ast.Mult):
                for s_, other in ((a, x.right), (b, x.left)):
                    k = repo.fold(other, mod, None)
                    if isinstance(k, (int, float)) and not isinstance(k, bool):
                        return s_ * abs(k) if s_ != float("inf") else s_
                return None
            if isinstance(x.op, ast.Div):
                k = repo.fold(x.right, mod, None)
                if isinstance(k, (int, float)) and k:
                    return a / abs(k)
                return None
            if isinstance(x.op, ast.FloorDiv):
                k = repo.fold(x.right, mod, None)
                if isinstance(k, (int, float)) and k:
                    return max(a / abs(k), 1.0)
                return None
        if isinstance(x, ast.UnaryOp) and isinstance(x.op, (ast.USub, ast.UAdd)):
            return st(x.operand)
        return None
    return st(e)


def check_initial_resolution(chk: Check, repo: Repo) -> None:
    """The sending counter of a fresh instance starts from the clock in milliseconds: the value is quantised only
    after the scaling, so two starts more than a millisecond apart get different, increasing seeds.  A seed quantised
    before scaling (step 1000) makes a restart within the same second re-use numbers already sent."""
    fi = repo.func(M, "_initial_sequence_number")
    chk.unit(fi)
    rets = [n for n in walk_local(fi.node) if isinstance(n, ast.Return) and n.value is not None]
    if len(rets) != 1:
        raise AnalysisError("_initial_sequence_number: expected a single return")
    step = _step(rets[0].value, fi.node, repo, fi.module)
    if step is None:
        raise AnalysisError(f"_initial_sequence_number: `{ast.unparse(rets[0].value)}` is outside the resolution fragment")
    chk.ob("initial-sequence-number-has-millisecond-resolution", fi.site(), step <= 1.0, f"`{ast.unparse(rets[0].value)}`: distinct seeds differ by at least {step:g} count(s) (required: 1 — quantisation after the scaling to milliseconds)", key="initial-resolution")


def run(chk: Check, repo: Repo) -> None:
    check_csn(chk, repo)
    check_receive(chk, repo)
    check_sending(chk, repo)
    check_initial_resolution(chk, repo)
    chk.assume("contextlib.contextmanager semantics: an exception leaving the with-body is raised at the yield")
    chk.assume("single event loop thread: no interleaving inside the synchronous receive path")
