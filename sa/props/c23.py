"""C23 — server-sent tunnel / device-configuration frames: once, in order.

Decided by induction over the step relation read off the code:
 (a) IncomingSequenceCounter.evaluate is evaluated over the cells of the received
     counter relative to the expected one (c = e + d mod 256, d = 0..255): EXPECTED and
     expected := e+1 mod 256 iff d == 0; REPEATED iff d == 255; else OUT_OF_ORDER;
     `expected` unchanged in the last two.
 (b) every writer of `.expected` is in that class and assigns 0 or the masked successor.
 (c) both request handlers: per verdict, the event trace (evaluate / ack / pass-up)
     equals the reference; the ack carries the request's own counter.
 (d) the counter is reset on every (re)connection path.
"""

from __future__ import annotations

import ast

from ..absmachine import AbsMachine, Outcome, Sym, SymInt, UNKNOWN
from ..astx import attr_writes, call_name, calls, method_name, walk_local
from ..cfg import CFG
from ..exctable import ExcTable
from ..explore import Explorer
from ..loader import NOFOLD, AnalysisError, EnumMember, Repo
from ..report import Check, canon

DC = "xknx.io.data_connection"


def _enum_hook(repo: Repo, fi):
    def hook(e: ast.AST, env):
        if isinstance(e, ast.Attribute):
            v = repo.fold(e, fi.module, fi.cls)
            if isinstance(v, EnumMember):
                return v
        return UNKNOWN

    return hook


def check_evaluate(chk: Check, repo: Repo) -> None:
    fi = repo.func(DC, "IncomingSequenceCounter.evaluate")
    chk.unit(fi)
    cfg = CFG(fi.node)
    exc = ExcTable(repo)
    params = [a.arg for a in fi.node.args.args]
    if len(params) != 2:
        raise AnalysisError("IncomingSequenceCounter.evaluate: expected (self, counter)")
    cparam = params[1]
    am = AbsMachine(cfg, exc, lambda c, env: None, _enum_hook(repo, fi))
    ex = Explorer(cfg, repo, am.step)
    members = repo.enum_members(repo.cls(DC, "SequenceVerdict"))
    for need in ("EXPECTED", "REPEATED", "OUT_OF_ORDER"):
        if need not in members:
            raise AnalysisError(f"SequenceVerdict.{need} vanished")
    n_cells = 0
    for d in range(256):
        env = {"self.expected": SymInt("e", 0, 256), cparam: SymInt("e", d, 256)}
        paths = ex.run(cfg.entry, [], env)
        n_cells += 1
        want = "EXPECTED" if d == 0 else ("REPEATED" if d == 255 else "OUT_OF_ORDER")
        want_exp = SymInt("e", 1, 256) if d == 0 else SymInt("e", 0, 256)
        ok = len(paths) == 1 and paths[0].end == cfg.exit
        got = got_exp = None
        if ok:
            got = paths[0].env.get("#ret")
            got_exp = paths[0].env.get("self.expected")
            ok = isinstance(got, EnumMember) and got.name == want and got_exp == want_exp
        if d in (0, 1, 2, 128, 254, 255) or not ok:
            chk.ob("evaluate-cell", fi.site(), ok,
                   f"received = expected{d:+d} (mod 256): verdict {got!r}, expected' = {got_exp!r}; reference: {want}, {want_exp!r}"
                   + ("" if ok else f" [{len(paths)} path(s), ends {[p.end_kind for p in paths]}]"),
                   key=f"evaluate|d={d if d in (0, 255) else 'other'}")
    chk.count("evaluate_cells", n_cells)
    chk.rule("E7 decision table of IncomingSequenceCounter.evaluate over all 256 residues of (received - expected) with modular successor/predecessor recognised symbolically")

    # (b) writers of .expected
    ws = attr_writes(repo, "expected")
    cls = repo.cls(DC, "IncomingSequenceCounter")
    for w in ws:
        inside = w.func.cls is not None and w.func.cls == cls
        val_ok = True
        detail = canon(w.stmt)
        if inside and w.func.name != "evaluate":
            v = repo.fold(w.stmt.value, w.func.module, cls) if hasattr(w.stmt, "value") else NOFOLD
            val_ok = v == 0 and w.kind == "assign"
        chk.ob("expected-writer", w.func.site(w.stmt), inside and val_ok,
               f"write of .expected: `{detail}` in {w.func.qualname} (allowed: IncomingSequenceCounter.__init__/reset assigning 0, evaluate)",
               key=f"expected-writer|{w.func.ref}|{detail}")
    chk.floor("expected_writers", len(ws), 3)
    chk.rule("E5 ownership census: `.expected` is written only by IncomingSequenceCounter (0 on init/reset, masked successor in evaluate)")


def _ack_senders(repo: Repo, cls, ack_class: str) -> dict[str, dict[str, str]]:
    """methods of cls (MRO) that build `ack_class(...)` and send it: name -> {ctor kw -> param name/expr text}."""
    out: dict[str, dict[str, str]] = {}
    for c in repo.mro(cls):
        for name, m in c.methods.items():
            for call in calls(m.node):
                if method_name(call) == ack_class:
                    kws = {k.arg: ast.unparse(k.value) for k in call.keywords if k.arg}
                    sends = [x for x in calls(m.node) if call_name(x).endswith("transport.send")]
                    if sends and name not in out:
                        out[name] = kws
    return out


def check_handler(chk: Check, repo: Repo, modname: str, qual: str, ack_class: str, passup: str) -> None:
    fi = repo.func(modname, qual)
    chk.unit(fi)
    cls = fi.cls
    assert cls is not None
    cfg = CFG(fi.node)
    exc = ExcTable(repo)
    senders = _ack_senders(repo, cls, ack_class)
    if not senders:
        raise AnalysisError(f"{qual}: no method constructing {ack_class} and sending it found in class")
    req_param = [a.arg for a in fi.node.args.args][1]
    members = repo.enum_members(repo.cls(DC, "SequenceVerdict"))
    verdicts = [EnumMember(f"{DC}:SequenceVerdict", n, v) for n, v in members.items()]

    # pass-up: direct call of self.cemi_received_callback(...) or super().<same method>() that does so
    def is_passup(c: ast.Call) -> str | None:
        n = call_name(c)
        if n == f"self.{passup}":
            return ast.unparse(c.args[0]) if c.args else ""
        if n.startswith("super()."):
            base_m = None
            for b in repo.mro(cls)[1:]:
                if method_name(c) in b.methods:
                    base_m = b.methods[method_name(c)]
                    break
            if base_m is not None:
                inner = [x for x in calls(base_m.node) if call_name(x) == f"self.{passup}"]
                body = [s for s in base_m.node.body if not (isinstance(s, ast.Expr) and isinstance(s.value, ast.Constant))]
                if len(inner) == 1 and len(body) == 1 and isinstance(body[0], ast.Expr):
                    chk.unit(base_m)
                    bp = [a.arg for a in base_m.node.args.args][1]
                    arg = ast.unparse(inner[0].args[0]) if inner[0].args else ""
                    return arg.replace(bp, ast.unparse(c.args[0]) if c.args else bp)
        return None

    def call_model(c: ast.Call, env):
        n = call_name(c)
        if method_name(c) == "evaluate" and ".".join(n.split(".")[:-1]).startswith("self."):
            return [Outcome(f"EVAL({ast.unparse(c.args[0])})|{v.name}", v) for v in verdicts]
        if n.startswith("self.") and method_name(c) in senders:
            m = repo.lookup_method(cls, method_name(c))
            assert m is not None
            mparams = [a.arg for a in m.node.args.args][1:]
            bound = {p: ast.unparse(a) for p, a in zip(mparams, c.args)}
            bound.update({k.arg: ast.unparse(k.value) for k in c.keywords if k.arg})
            seq_src = senders[method_name(c)].get("sequence_counter", "?")
            return [Outcome(f"ACK(seq={bound.get(seq_src, seq_src)})", None)]
        p = is_passup(c)
        if p is not None:
            return [Outcome(f"PASSUP({p})", None)]
        return None

    def name_hook(e: ast.AST, env):
        if isinstance(e, ast.Attribute):
            v = repo.fold(e, fi.module, cls)
            if isinstance(v, EnumMember):
                return v
            if ast.unparse(e) == f"self.{passup}":
                return Sym("obj:callback")
        return UNKNOWN

    am = AbsMachine(cfg, exc, call_model, name_hook)
    ex = Explorer(cfg, repo, am.step)
    paths = ex.run(cfg.entry, [], {})
    chk.count(f"paths:{qual}", len(paths))
    seq_expr = f"{req_param}.sequence_counter"
    ref = {
        "EXPECTED": ({(f"ACK(seq={seq_expr})", f"PASSUP({req_param}.raw_cemi)"), (f"PASSUP({req_param}.raw_cemi)", f"ACK(seq={seq_expr})")}),
        "REPEATED": {(f"ACK(seq={seq_expr})",)},
        "OUT_OF_ORDER": {()},
    }
    seen_verdicts: set[str] = set()
    for p in paths:
        tr = p.env.get("trace", ())
        evals = [t for t in tr if t.startswith("EVAL(")]
        rest = tuple(t for t in tr if not t.startswith("EVAL("))
        if p.end != cfg.exit:
            chk.ob("handler-returns-normally", fi.site(), False, f"path ends in {p.end_kind} with trace {tr}", key=f"{qual}|raise|{tr}")
            continue
        if not evals:
            chk.ob("no-effect-without-verdict", fi.site(), rest == (), f"path without sequence evaluation (frame for another channel) has effects {rest}", key=f"{qual}|noeval|{rest}")
            continue
        ok_once = len(evals) == 1 and evals[0].startswith(f"EVAL({seq_expr})|")
        verdict = evals[0].split("|")[1]
        seen_verdicts.add(verdict)
        ok = ok_once and rest in ref.get(verdict, set())
        chk.ob("verdict-effects", fi.site(), ok,
               f"verdict {verdict}: code trace {list(tr)}; reference effects {sorted(ref.get(verdict, []))} with exactly one evaluate({seq_expr})",
               key=f"{qual}|{verdict}|{rest}")
    chk.ob("all-verdicts-handled", fi.site(), seen_verdicts == {"EXPECTED", "REPEATED", "OUT_OF_ORDER"}, f"verdicts reaching a normal return: {sorted(seen_verdicts)}", key=f"{qual}|verdicts")
    # ack sender shape: sequence_counter kw comes from the method parameter, frame is sent exactly once
    for name, kws in senders.items():
        m = repo.lookup_method(cls, name)
        assert m is not None
        chk.unit(m)
        mparams = [a.arg for a in m.node.args.args][1:]
        sends = [x for x in calls(m.node) if call_name(x).endswith("transport.send")]
        straight = all(isinstance(s, (ast.Expr, ast.Assign, ast.AnnAssign)) for s in m.node.body)
        chk.ob("ack-sender-shape", m.site(), kws.get("sequence_counter") in mparams and len(sends) == 1 and straight,
               f"{name}: {ack_class}(sequence_counter={kws.get('sequence_counter')}) from parameter, sent once in a straight-line body (sends={len(sends)})",
               key=f"{qual}|ack-sender|{name}")


def check_resets(chk: Check, repo: Repo) -> None:
    # UDPTunnel: reset() in setup_tunnel, which connect() calls before the connect request
    st = repo.func("xknx.io.tunnel", "UDPTunnel.setup_tunnel")
    chk.unit(st)
    cfg = CFG(st.node)
    resets = cfg.stmt_nodes(lambda a: any(call_name(c) == "self._sequence.reset" for c in calls(a)))
    ok = bool(resets) and all(cfg.all_paths_hit(cfg.entry, [n.id for n in resets], ends=[cfg.exit]) for _ in [0])
    chk.ob("reset-on-connect", st.site(), ok, "UDPTunnel.setup_tunnel resets the incoming counter on every normally returning path", key="reset|UDPTunnel.setup_tunnel")
    con = repo.func("xknx.io.tunnel", "_Tunnel.connect")
    chk.unit(con)
    cfg2 = CFG(con.node)
    setup = cfg2.stmt_nodes(lambda a: any(call_name(c) == "self.setup_tunnel" for c in calls(a)))
    creq = cfg2.stmt_nodes(lambda a: any(call_name(c) == "self._connect_request" for c in calls(a)))
    ok2 = bool(setup) and bool(creq) and all(cfg2.dominates(setup[0].id, c.id) for c in creq)
    chk.ob("reset-before-connect-request", con.site(), ok2, "_Tunnel.connect awaits setup_tunnel() (counter reset) before every _connect_request()", key="reset|_Tunnel.connect")
    # DeviceManagement.start: reset dominates register_callback
    dm = repo.func("xknx.io.device_management", "DeviceManagement.start")
    chk.unit(dm)
    cfg3 = CFG(dm.node)
    rs = cfg3.stmt_nodes(lambda a: any(call_name(c) == "self._sequence.reset" for c in calls(a)))
    reg = cfg3.stmt_nodes(lambda a: any(method_name(c) == "register_callback" for c in calls(a)))
    ok3 = bool(rs) and bool(reg) and all(cfg3.dominates(rs[0].id, r.id) for r in reg)
    chk.ob("reset-before-register", dm.site(), ok3, "DeviceManagement.start resets the counter before registering the request callback", key="reset|DeviceManagement.start")
    # ... and only then: a redundant start() on a running instance must not reset the counter mid-connection
    mf3 = cfg3.must_facts()
    from ..astx import is_none_test
    ok3b = bool(rs)
    for r_ in rs:
        held = False
        for text, val in mf3[r_.id]:
            t = is_none_test(ast.parse(text, mode="eval").body, val, lambda x: x == "self._callback")
            if t is True:
                held = True
        ok3b = ok3b and held
    chk.ob("reset-only-when-not-started", dm.site(), ok3b, "the counter reset in DeviceManagement.start is control-dependent on `self._callback is None` (not already started)", key="reset-only|DeviceManagement.start")
    # every reset() call site in the package is one of the (re)connection paths above
    for f_, c_ in [(f, c) for f in repo.all_functions() for c in calls(f.node) if method_name(c) == "reset" and "_sequence" in call_name(c)]:
        chk.ob("reset-call-sites", f_.site(c_), f_.qualname in ("UDPTunnel.setup_tunnel", "DeviceManagement.start"), f"`{call_name(c_)}()` in {f_.qualname} (allowed: UDPTunnel.setup_tunnel, DeviceManagement.start)", key=f"reset-site|{f_.qualname}")
    # setup_tunnel is invoked only by connect()
    for f_, c_ in [(f, c) for f in repo.all_functions() for c in calls(f.node) if method_name(c) == "setup_tunnel"]:
        chk.ob("reset-call-sites", f_.site(c_), f_.qualname == "_Tunnel.connect", f"setup_tunnel() called from {f_.qualname} (allowed: _Tunnel.connect)", key=f"setup-site|{f_.qualname}")
    # the class' `_sequence` attribute is an IncomingSequenceCounter created once in __init__
    for modname, qual in (("xknx.io.tunnel", "UDPTunnel.__init__"), ("xknx.io.device_management", "DeviceManagement.__init__")):
        f = repo.func(modname, qual)
        ws = attr_writes(repo, "_sequence", [x for x in repo.all_functions() if x.cls == f.cls])
        ok4 = len(ws) == 1 and ws[0].func == f and isinstance(ws[0].stmt.value, ast.Call) and method_name(ws[0].stmt.value) == "IncomingSequenceCounter"
        chk.ob("sequence-slot", f.site(), ok4, f"{qual.split('.')[0]}._sequence is assigned once, in __init__, to IncomingSequenceCounter()", key=f"slot|{qual}")
    chk.rule("E4 dominance: counter reset precedes the connect request / callback registration on every (re)connection path")


def run(chk: Check, repo: Repo) -> None:
    check_evaluate(chk, repo)
    check_handler(chk, repo, "xknx.io.tunnel", "UDPTunnel._tunnelling_request_received", "TunnellingAck", "cemi_received_callback")
    check_handler(chk, repo, "xknx.io.device_management", "DeviceManagement._device_configuration_request_received", "DeviceConfigurationAck", "cemi_received_callback")
    chk.rule("E4/E7 verdict-switch shape of both request handlers by abstract path enumeration over the three verdicts: EXPECTED -> ack(own counter)+pass-up once; REPEATED -> ack(own counter) only; OUT_OF_ORDER -> neither")
    check_resets(chk, repo)
    # every caller of the handlers passes the received body (dispatch): the handler is reached only from _request_received
    chk.assume("frames are delivered to the handlers by the transport callback registry once per received datagram (C22)")
    chk.assume("a cemi_received_callback is configured (DeviceManagement allows None = nobody to pass up to)")
