"""C44 — address programming never creates an address conflict (decision sequences).

Abstract path enumeration of the management procedures over the outcomes of their bus interactions:
 (a) nm_individual_address_write over {address already present} x {programming-mode read: several /
     none / one equal / one different} x {device answers at the new address}: the IndividualAddressWrite
     broadcast happens iff the address is free and exactly one device is in programming mode; with the
     address present the only non-raising continuation requires it to be that device (no write); the restart
     goes through a connection to exactly the written address after the presence check.
 (b) nm_individual_address_read over response sequences: collects the sources of IndividualAddressResponse
     telegrams only, raising on the second one iff raise_if_multiple.
 (c) serial-number procedures act only on responses carrying the requested serial number; the write is
     verified by reading back with the same serial.
 (d) dmp_authorize2_r_co over the orderings of (free, client) levels returns the better level.
Does not decide the behaviour of the devices on the bus (not part of the repository).
"""

from __future__ import annotations

import ast
from itertools import product

from ..absmachine import AbsMachine, AList, Obj, Outcome, Raise, UNKNOWN, class_isinstance
from ..astx import call_name, calls, method_name, walk_local
from ..cfg import CFG
from ..exctable import ExcTable
from ..explore import Explorer
from ..loader import NOFOLD, AnalysisError, Repo
from ..report import Check

NET = "xknx.management.procedures.network"
DEV = "xknx.management.procedures.device"


def _kw(c: ast.Call, am, env) -> dict:
    return {k.arg: am.ev(k.value, env, {}) for k in c.keywords if k.arg}


def address_write(chk: Check, repo: Repo) -> None:
    fi = repo.func(f"{NET}.nm_individual_address_write", "nm_individual_address_write")
    chk.unit(fi)
    cfg = CFG(fi.node)
    exc = ExcTable(repo)
    target = Obj("IndividualAddress", "target")
    other = Obj("IndividualAddress", "other")
    own_addr = Obj("IndividualAddress", "own")
    for own, found, pgm, answers in product((False, True), (False, True), ("several", "none", "one-equal", "one-different"), (False, True)):
        box = {}
        def cm(c, env):
            n = call_name(c)
            am = box["am"]
            if n == "IndividualAddress":
                return [Outcome(None, target)]
            if n == "nm_individual_address_check":
                return [Outcome("CHECK_PRESENT", found)]
            if n == "nm_individual_address_read":
                kw = _kw(c, am, env)
                ev = f"READ_PROGRAMMING_MODE(raise_if_multiple={kw.get('raise_if_multiple')})"
                if pgm == "several":
                    return [Outcome(ev, Raise("ManagementConnectionError"))]
                return [Outcome(ev, AList({"none": (), "one-equal": (target,), "one-different": (other,)}[pgm]))]
            if n == "apci.IndividualAddressWrite":
                return [Outcome(None, Obj("IndividualAddressWrite", "w", tuple(_kw(c, am, env).items())))]
            if n.endswith("management.send_broadcast"):
                kw = _kw(c, am, env)
                p = kw.get("payload") if kw else am.ev(c.args[0], env, {})
                return [Outcome(f"BROADCAST({getattr(p, 'cls', p)} address={p.get('address') if isinstance(p, Obj) else None!r})", None)]
            if n.endswith("management.connection"):
                kw = _kw(c, am, env)
                return [Outcome(f"CONNECT({kw.get('address', am.ev(c.args[0], env, {}) if c.args else None)!r})", Obj("P2PConnection", "conn"))]
            if n == "nm_individual_address_check_conn":
                return [Outcome("CHECK_ANSWERS", answers)]
            if n == "dm_restart_r_co":
                return [Outcome("RESTART", None)]
            if n.startswith("logger."):
                return [Outcome(None, None)]
            return None
        am = AbsMachine(cfg, exc, cm)
        box["am"] = am
        # the interface's own address: nobody can answer a probe of it, so it is refused before anything is sent
        paths = Explorer(cfg, repo, am.step).run(cfg.entry, [], {"xknx.current_address": target if own else own_addr})
        got = {(tuple(t for t in p.env.get("trace", ()) if not t.startswith("raise:")), p.end_kind if p.end_kind == "exit" else f"raise {p.env.get('#raised')}") for p in paths}
        if own:
            want = {((), "raise ManagementConnectionError")}
            chk.ob("address-write-cell", fi.site(), got == want, f"target is the interface's own address, address present={found} programming-mode devices={pgm} answers={answers}: {sorted(map(str, got))}; reference: refused before anything is sent {sorted(map(str, want))}", key=f"write|own|{found}|{pgm}|{answers}" + ("" if got == want else f"|{sorted(map(str, got))}"))
            continue
        R = "READ_PROGRAMMING_MODE(raise_if_multiple=True)"
        W = f"BROADCAST(IndividualAddressWrite address={target!r})"
        C = f"CONNECT({target!r})"
        pre = ("CHECK_PRESENT", R)
        if pgm in ("several", "none"):
            want = {(pre, "raise ManagementConnectionError")}
        elif found and pgm == "one-different":
            want = {(pre, "raise ManagementConnectionError")}
        else:
            mid = () if found else (W,)
            if pgm == "one-different" and not found:
                mid = (W,)
            tail = (C, "CHECK_ANSWERS") + (("RESTART",) if answers else ())
            want = {(pre + mid + tail, "exit" if answers else "raise ManagementConnectionError")}
        chk.ob("address-write-cell", fi.site(), got == want, f"address present={found} programming-mode devices={pgm} answers at new address={answers}: {sorted(map(str, got))}; reference {sorted(map(str, want))}", key=f"write|{found}|{pgm}|{answers}" + ("" if got == want else f"|{sorted(map(str, got))}"))


def address_check(chk: Check, repo: Repo) -> None:
    """nm_individual_address_check reports 'occupied' when the device answers *or refuses* — also when the refusal
    only surfaces while the connection is torn down."""
    fi = repo.func(f"{NET}.nm_individual_address_check", "nm_individual_address_check")
    chk.unit(fi)
    cfg = CFG(fi.node)
    exc = ExcTable(repo)
    for connect, probe, teardown in product(("ok", "refused"), ("answers", "timeout", "refused"), ("ok", "refused")):
        if connect == "refused" and (probe != "answers" or teardown != "ok"):
            continue
        if connect == "ok" and probe == "timeout" and teardown == "refused":
            # not a history any more: the probe answers "free" only if nothing was heard on the connection (address-probe
            # cells), and no telegram can be processed between its return and the first statement of the teardown - a
            # peer that closed the connection was heard.  (Until 971cb0c this cell carried the late refusal.)
            continue
        def cm(c, env):
            n = call_name(c)
            if n.endswith("management.connection") or n.endswith("management.connect"):
                return [Outcome("CONNECT", Obj("P2PConnection", "conn"))] if connect == "ok" else [Outcome("CONNECT:refused", Raise("ManagementConnectionRefused"))]
            if n == "nm_individual_address_check_conn":
                return {"answers": [Outcome("PROBE", True)], "timeout": [Outcome("PROBE", False)], "refused": [Outcome("PROBE:refused", Raise("ManagementConnectionRefused"))]}[probe]
            if n.endswith("management.disconnect"):
                return [Outcome("TEARDOWN", None)] if teardown == "ok" else [Outcome("TEARDOWN:refused", Raise("ManagementConnectionRefused"))]
            if n == "IndividualAddress":
                return [Outcome(None, Obj("IndividualAddress", "ia"))]
            return None
        am = AbsMachine(cfg, exc, cm)
        base = am.step
        def step(node, env):
            # leaving `async with management.connection(...)` normally runs the context manager's teardown
            if node.kind == "with_exit" and any(call_name(c).endswith("management.connection") for it in node.ast.items for c in calls(it.context_expr)):
                e2 = dict(env)
                if teardown == "refused":
                    e2["trace"] = tuple(env.get("trace", ())) + ("TEARDOWN:refused",); e2["#raised"] = "ManagementConnectionRefused"
                    return [(f"goto:{am._exc_target(cfg.nodes[[n_.id for n_ in cfg.nodes if n_.kind == 'with' and n_.ast is node.ast][0]], 'ManagementConnectionRefused')}", e2)]
                e2["trace"] = tuple(env.get("trace", ())) + ("TEARDOWN",)
                return [("next", e2)]
            return base(node, env)
        # `return` inside the with-block: the CFG routes it through no with_exit node, so model the teardown at the return
        def step2(node, env):
            a = node.ast
            if node.kind == "stmt" and isinstance(a, ast.Return) and any(call_name(c).endswith("management.connection") for w in node.withs for it in w.items for c in calls(it.context_expr)):
                res = base(node, env)
                out = []
                for lab, e2 in res or []:
                    if lab == "return" and teardown == "refused":
                        e3 = dict(e2); e3["trace"] = tuple(e3.get("trace", ())) + ("TEARDOWN:refused",); e3["#raised"] = "ManagementConnectionRefused"; e3.pop("#ret", None)
                        wnode = [n_ for n_ in cfg.nodes if n_.kind == "with" and n_.ast is node.withs[-1]][0]
                        out.append((f"goto:{am._exc_target(wnode, 'ManagementConnectionRefused')}", e3))
                    elif lab == "return":
                        e3 = dict(e2); e3["trace"] = tuple(e3.get("trace", ())) + ("TEARDOWN",)
                        out.append((lab, e3))
                    else:
                        out.append((lab, e2))
                return out
            return step(node, env)
        paths = Explorer(cfg, repo, step2).run(cfg.entry, [], {})
        got = {(p.env.get("#ret") if p.end_kind == "exit" else f"raise {p.env.get('#raised')}") for p in paths}
        occupied = connect == "refused" or probe in ("answers", "refused") or teardown == "refused"
        want = {occupied}
        if occupied:
            # a refusal may also end the check with the management error itself - the write procedure stops either way;
            # what it must never do is answer "free"
            got = {True if isinstance(g, str) and g.startswith("raise ManagementConnection") else g for g in got}
        chk.ob("address-check-cell", fi.site(), got == want, f"connect={connect} probe={probe} teardown={teardown}: returns {sorted(map(str, got))}; reference occupied={occupied} (a refusal at any stage means the address is in use)", key=f"check|{connect}|{probe}|{teardown}" + ("" if got == want else f"|{sorted(map(str, got))}"))


def address_probe(chk: Check, repo: Repo) -> None:
    """nm_individual_address_check_conn: the address is free only if the probe timed out AND nothing at all was heard
    from the peer on that connection - an acknowledgement, or an answer whose own acknowledgements were lost, proves a
    device (P2PConnection.peer_seen is set by every telegram the connection processes)."""
    fi = repo.func(f"{NET}.nm_individual_address_check", "nm_individual_address_check_conn")
    chk.unit(fi)
    cfg = CFG(fi.node)
    exc = ExcTable(repo)
    p0 = fi.node.args.args[0].arg
    for probe, heard in product(("answers", "timeout", "refused"), (False, True)):
        def cm(c, env):
            n = call_name(c)
            if n == f"{p0}.request":
                return {"answers": [Outcome("REQUEST", Obj("Telegram", "t"))], "timeout": [Outcome("REQUEST:timeout", Raise("ManagementConnectionTimeout"))], "refused": [Outcome("REQUEST:refused", Raise("ManagementConnectionRefused"))]}[probe]
            if n.startswith("logger.") or n.startswith("apci."):
                return [Outcome(None, Obj("x", n))]
            return None
        am = AbsMachine(cfg, exc, cm)
        paths = Explorer(cfg, repo, am.step).run(cfg.entry, [], {f"{p0}.peer_seen": heard, f"{p0}.address": Obj("IndividualAddress", "ia")})
        got = {(p.env.get("#ret") if p.end_kind == "exit" else f"raise {p.env.get('#raised')}") for p in paths}
        want = {probe != "timeout" or heard}
        chk.ob("address-probe-cell", fi.site(), got == want, f"descriptor read {probe}, peer heard on the connection={heard}: returns {sorted(map(str, got))}; reference occupied={sorted(want)}" + ("" if got == want else " - a device that was heard (acknowledged, or answered without its acknowledgements arriving) counts as absent and its address is written to another device"), key=f"probe|{probe}|{heard}" + ("" if got == want else f"|{sorted(map(str, got))}"))
    # the flag is raised by every telegram the connection processes, before any early return
    pc = repo.func("xknx.management.management", "P2PConnection.process")
    chk.unit(pc)
    pcfg = CFG(pc.node)
    marks = [n.id for n in pcfg.nodes if n.kind == "stmt" and isinstance(n.ast, ast.Assign) and ast.unparse(n.ast.targets[0]) == "self.peer_seen" and isinstance(n.ast.value, ast.Constant) and n.ast.value.value is True]
    ok = bool(marks) and pcfg.all_paths_hit(pcfg.entry, marks, [pcfg.exit, pcfg.raise_exit], include_start=False)
    chk.ob("peer-heard-is-recorded", pc.site(), ok, "P2PConnection.process sets peer_seen on every path (acknowledgements, data, disconnects)" if ok else "P2PConnection.process does not record on every path that the peer was heard", key="probe|mark")


def broadcast_requests_inside_the_context(chk: Check, repo: Repo) -> None:
    """A broadcast request whose answers are counted is sent while the collecting context is already registered
    (`async with management.broadcast() as ctx: send_broadcast(..); ctx.receive(..)`): an answer that arrives while the
    send still awaits its confirmation would otherwise be dropped - with two devices in programming mode only one is
    counted and the address is written to both."""
    n = 0
    for f in repo.all_functions():
        if not f.module.name.startswith("xknx.management.procedures"):
            continue
        cfg = None
        for w in [x for x in walk_local(f.node) if isinstance(x, ast.AsyncWith) and any(call_name(c).endswith("management.broadcast") for it in x.items for c in calls(it.context_expr))]:
            inner = {id(y) for b_ in w.body for y in ast.walk(b_)}
            sends = [c for c in calls(f.node) if call_name(c).endswith("management.send_broadcast")]
            for c in sends:
                n += 1
                ok = id(c) in inner
                chk.ob("broadcast-request-is-sent-inside-the-collecting-context", f.site(c), ok, f"{f.qualname}: `{ast.unparse(c)[:70]}` " + ("is sent with the broadcast context registered" if ok else "is sent before the broadcast context is registered: answers arriving while the send is confirmed are lost (a second device in programming mode goes uncounted)"), key=f"bc-order|{f.qualname}|{ast.unparse(c)[:50]}")
    chk.floor("broadcast requests with collected answers", n, 2)


def _is_bc_receive(c: ast.Call, env, am) -> bool:
    """`<the broadcast context>.receive(...)`, whatever the `async with ... as <name>` target is called"""
    if not (isinstance(c.func, ast.Attribute) and c.func.attr == "receive"):
        return False
    v = am.ev(c.func.value, env, {})
    return isinstance(v, Obj) and v.cls == "BroadcastContext"


def address_read(chk: Check, repo: Repo) -> None:
    fi = repo.func(f"{NET}.nm_individual_address_read", "nm_individual_address_read")
    chk.unit(fi)
    cfg = CFG(fi.node)
    exc = ExcTable(repo)
    A, B_, X = (Obj("Telegram", t, (("payload", Obj(pc, "p")), ("source_address", Obj("IndividualAddress", t)))) for t, pc in (("A", "IndividualAddressResponse"), ("B", "IndividualAddressResponse"), ("X", "IndividualAddressSerialResponse")))
    for label, results in (("no response", ()), ("one response", (A,)), ("two responses", (A, B_)), ("unrelated then response", (X, A)), ("three responses", (A, X, B_))):
        for flag in (False, True):
            box0: dict = {}

            def cm(c, env):
                n = call_name(c)
                if _is_bc_receive(c, env, box0["am"]):
                    return [Outcome(None, results)]
                if n.endswith("management.send_broadcast"):
                    return [Outcome(f"BROADCAST({call_name(c.args[0]) if c.args and isinstance(c.args[0], ast.Call) else '?'})", None)]
                if n.endswith("management.broadcast"):
                    return [Outcome(None, Obj("BroadcastContext", "bc"))]
                return None
            am = AbsMachine(cfg, exc, cm)
            box0["am"] = am
            am.isinstance_fn = class_isinstance(repo)
            paths = Explorer(cfg, repo, am.step).run(cfg.entry, [], {"raise_if_multiple": flag, "timeout": 3})
            got = {(repr(p.env.get("#ret")) if p.end_kind == "exit" else f"raise {p.env.get('#raised')}", tuple(t for t in p.env.get("trace", ()) if t.startswith("BROADCAST"))) for p in paths}
            srcs = [r.get("source_address") for r in results if r.get("payload").cls == "IndividualAddressResponse"]
            if flag and len(srcs) > 1:
                want = {("raise ManagementConnectionError", ("BROADCAST(apci.IndividualAddressRead)",))}
            else:
                want = {(repr(AList(tuple(srcs))), ("BROADCAST(apci.IndividualAddressRead)",))}
            chk.ob("address-read-cell", fi.site(), got == want, f"{label}, raise_if_multiple={flag}: {sorted(map(str, got))}; reference {sorted(map(str, want))}", key=f"read|{label}|{flag}" + ("" if got == want else f"|{sorted(map(str, got))}"))


def serial(chk: Check, repo: Repo) -> None:
    exc = ExcTable(repo)
    fr = repo.func(f"{NET}.nm_individual_address_serial_number_read", "nm_individual_address_serial_number_read")
    chk.unit(fr)
    cfg = CFG(fr.node)
    want_serial = Obj("bytes", "serial")
    def tel(tag, pc, ser):
        return Obj("Telegram", tag, (("payload", Obj(pc, "p", (("serial", ser),))), ("source_address", Obj("IndividualAddress", tag))))
    cases = {
        "no response": ((), None),
        "matching response": ((tel("A", "IndividualAddressSerialResponse", want_serial),), "A"),
        "other serial then matching": ((tel("B", "IndividualAddressSerialResponse", Obj("bytes", "other")), tel("A", "IndividualAddressSerialResponse", want_serial)), "A"),
        "only other serial": ((tel("B", "IndividualAddressSerialResponse", Obj("bytes", "other")),), None),
        "other service with same serial": ((tel("C", "IndividualAddressSerialWrite", want_serial),), None),
    }
    for label, (results, want_src) in cases.items():
        box = {}
        def cm(c, env):
            n = call_name(c)
            am = box["am"]
            if _is_bc_receive(c, env, am):
                return [Outcome(None, results)]
            if n == "apci.IndividualAddressSerialRead":
                return [Outcome(None, Obj("IndividualAddressSerialRead", "r", tuple(_kw(c, am, env).items())))]
            if n.endswith("management.send_broadcast"):
                kw = _kw(c, am, env)
                p = kw.get("payload") if kw else am.ev(c.args[0], env, {})
                return [Outcome(f"BROADCAST({getattr(p, 'cls', p)} serial={p.get('serial') if isinstance(p, Obj) else None!r})", None)]
            if n.endswith("management.broadcast"):
                return [Outcome(None, Obj("BroadcastContext", "bc"))]
            return None
        am = AbsMachine(cfg, exc, cm)
        am.isinstance_fn = class_isinstance(repo)
        box["am"] = am
        paths = Explorer(cfg, repo, am.step).run(cfg.entry, [], {"serial": want_serial, "timeout": 3})
        got = {(repr(p.env.get("#ret")), tuple(t for t in p.env.get("trace", ()) if t.startswith("BROADCAST"))) for p in paths if p.end_kind == "exit"}
        want = {(repr(Obj("IndividualAddress", want_src)) if want_src else "None", (f"BROADCAST(IndividualAddressSerialRead serial={want_serial!r})",))}
        chk.ob("serial-read-cell", fr.site(), got == want and all(p.end_kind == "exit" for p in paths), f"{label}: {sorted(map(str, got))}; reference {sorted(map(str, want))}", key=f"sread|{label}" + ("" if got == want else f"|{sorted(map(str, got))}"))
    fw = repo.func(f"{NET}.nm_individual_address_serial_number_write", "nm_individual_address_serial_number_write")
    chk.unit(fw)
    cfgw = CFG(fw.node)
    target = Obj("IndividualAddress", "target")
    for label, back in (("reads back the written address", target), ("reads back another address", Obj("IndividualAddress", "other")), ("no reply", None)):
        box = {}
        def cm(c, env):
            n = call_name(c)
            am = box["am"]
            if n == "IndividualAddress":
                return [Outcome(None, target)]
            if n == "apci.IndividualAddressSerialWrite":
                return [Outcome(None, Obj("IndividualAddressSerialWrite", "w", tuple(_kw(c, am, env).items())))]
            if n.endswith("management.send_broadcast"):
                kw = _kw(c, am, env)
                p = kw.get("payload") if kw else am.ev(c.args[0], env, {})
                return [Outcome(f"BROADCAST({getattr(p, 'cls', p)} address={p.get('address') if isinstance(p, Obj) else None!r} serial={p.get('serial') if isinstance(p, Obj) else None!r})", None)]
            if n == "nm_individual_address_serial_number_read":
                kw = _kw(c, am, env)
                return [Outcome(f"READ_BACK(serial={kw.get('serial')!r})", back)]
            if n.startswith("logger."):
                return [Outcome(None, None)]
            return None
        am = AbsMachine(cfgw, exc, cm)
        box["am"] = am
        paths = Explorer(cfgw, repo, am.step).run(cfgw.entry, [], {"serial": want_serial})
        got = {(tuple(t for t in p.env.get("trace", ()) if not t.startswith("raise:")), p.end_kind if p.end_kind == "exit" else f"raise {p.env.get('#raised')}") for p in paths}
        tr = (f"BROADCAST(IndividualAddressSerialWrite address={target!r} serial={want_serial!r})", f"READ_BACK(serial={want_serial!r})")
        want = {(tr, "exit" if back is target else "raise ManagementConnectionError")}
        chk.ob("serial-write-cell", fw.site(), got == want, f"{label}: {sorted(map(str, got))}; reference {sorted(map(str, want))}", key=f"swrite|{label}" + ("" if got == want else f"|{sorted(map(str, got))}"))


def authorize(chk: Check, repo: Repo) -> None:
    fi = repo.func(f"{DEV}.dm_authorize", "dmp_authorize2_r_co")
    chk.unit(fi)
    cfg = CFG(fi.node)
    exc = ExcTable(repo)
    FREE = repo.module_const(f"{DEV}.dm_authorize", "FREE_ACCESS_KEY")
    for free, client in product((0, 3, 15), (0, 2, 3, 4, 15)):
        box = {}
        def cm(c, env):
            n = call_name(c)
            if n == "dmp_authorize_r_co":
                key = box["am"].ev(c.args[1], env, {})
                is_free = key == FREE if FREE is not NOFOLD else ast.unparse(c.args[1]) == "FREE_ACCESS_KEY"
                return [Outcome(f"AUTH({'free' if is_free else 'client'})", free if is_free else client)]
            return None
        def hook(e, env):
            if isinstance(e, ast.Name) and e.id == "FREE_ACCESS_KEY" and FREE is not NOFOLD:
                return FREE
            return UNKNOWN
        am = AbsMachine(cfg, exc, cm, hook)
        box["am"] = am
        paths = Explorer(cfg, repo, am.step).run(cfg.entry, [], {"client_key": 0x12345678})
        got = {(p.env.get("#ret"), tuple(p.env.get("trace", ()))) for p in paths}
        best = min(free, client)
        if free == 0:
            want = {(0, ("AUTH(free)",))}
        elif client > free:
            want = {(free, ("AUTH(free)", "AUTH(client)", "AUTH(free)"))}
        else:
            want = {(client, ("AUTH(free)", "AUTH(client)"))}
        chk.ob("authorize2-cell", fi.site(), got == want and all(r == best for r, _ in got), f"free level={free} client level={client}: {sorted(map(str, got))}; reference {sorted(map(str, want))} (better level {best})", key=f"auth|{free}|{client}" + ("" if got == want else f"|{sorted(map(str, got))}"))


def teardown_contract(chk: Check, repo: Repo) -> None:
    """nm_individual_address_check treats a connection the peer closed as "address occupied" through the exception the
    teardown raises (`except ManagementConnectionRefused: return True` around the connection context).  That verdict
    exists only if (1) P2PConnection.disconnect() on a connection the peer has closed raises ManagementConnectionRefused
    (and sends nothing), (2) Management.disconnect lets it through, (3) the context manager tears down in `finally`."""
    M_ = "xknx.management.management"
    exc = ExcTable(repo)
    f = repo.func(M_, "P2PConnection.disconnect")
    chk.unit(f)
    cfg = CFG(f.node)
    for connected in (False, True):
        def cm(c, env):
            n = call_name(c)
            if n == "self.disconnect_hook":
                return [Outcome("HOOK", None)]
            if n.endswith("cemi_handler.send_telegram"):
                return [Outcome("SEND", None)]
            if n.endswith(".cancel") or n == "Telegram" or n == "TDisconnect" or n.startswith("logger."):
                return [Outcome(None, Obj("x", n))]
            return None
        am = AbsMachine(cfg, exc, cm)
        paths = Explorer(cfg, repo, am.step).run(cfg.entry, [], {"self._connected": connected, "self._ack_waiter": None})
        got = {(tuple(t for t in p.env.get("trace", ()) if not t.startswith("raise:")), "exit" if p.end_kind == "exit" else f"raise {p.env.get('#raised')}") for p in paths}
        want = {(("SEND", "HOOK"), "exit")} if connected else {(("HOOK",), "raise ManagementConnectionRefused")}
        chk.ob("teardown-reports-a-connection-the-peer-closed", f.site(), got == want, f"P2PConnection.disconnect with _connected={connected}: {sorted(map(str, got))}; reference {sorted(map(str, want))}", key=f"teardown|p2p|{connected}")
    md = repo.func(M_, "Management.disconnect")
    chk.unit(md)
    swallowed = []
    for t in walk_local(md.node):
        if isinstance(t, ast.Try) and any(isinstance(x, ast.Call) and call_name(x).endswith(".disconnect") for b in t.body for x in ast.walk(b)):
            for h in t.handlers:
                names = [ast.unparse(x) for x in (h.type.elts if isinstance(h.type, ast.Tuple) else [h.type])] if h.type is not None else ["BaseException"]
                if any(exc.is_subclass("ManagementConnectionRefused", n_) for n_ in names) and not isinstance(h.body[-1], ast.Raise):
                    swallowed.append(", ".join(names))
    chk.ob("teardown-reports-a-connection-the-peer-closed", md.site(), not swallowed, "Management.disconnect re-raises what the connection's teardown raises" if not swallowed else f"Management.disconnect swallows the teardown error in `except {swallowed[0]}`", key="teardown|management")
    cx = repo.func(M_, "Management.connection")
    chk.unit(cx)
    fin = [t for t in walk_local(cx.node) if isinstance(t, ast.Try) and any(isinstance(x, ast.Yield) for b in t.body for x in ast.walk(b)) and any(isinstance(x, ast.Call) and call_name(x) == "self.disconnect" for b in t.finalbody for x in ast.walk(b))]
    chk.ob("teardown-reports-a-connection-the-peer-closed", cx.site(), len(fin) == 1, "Management.connection closes the connection in `finally` (also when the body failed), so the teardown error replaces a timeout of the probe", key="teardown|context")


def run(chk: Check, repo: Repo) -> None:
    from .common_rules import refusal_during_connect_is_heard
    refusal_during_connect_is_heard(chk, repo)
    # teardown_contract (a teardown of a connection the peer closed reports the refusal) is no longer an obligation: with
    # the peer-heard flag the address check does not depend on it (seeds C44-1 / C44-3 became behaviour-preserving)
    address_write(chk, repo)
    address_check(chk, repo)
    address_probe(chk, repo)
    broadcast_requests_inside_the_context(chk, repo)
    address_read(chk, repo)
    serial(chk, repo)
    authorize(chk, repo)
    chk.rule("E4/E7 abstract path enumeration of the management procedures over the outcome classes of their bus interactions (decision sequences)")
    chk.assume("the behaviour of devices on the bus is outside the repository; a device grants the same level for the same key within one connection")
