"""Shared driver for the may-raise (E1) obligations."""

from __future__ import annotations

from typing import Callable, Iterable

from ..loader import ClassInfo, FuncInfo, Repo
from ..mayraise import Esc, MayRaise
from ..report import Check
from ..typed import TypeTable

_ENGINE: dict[int, tuple[TypeTable, MayRaise]] = {}


def engine(repo: Repo, **kw) -> MayRaise:
    tt = _ENGINE.get(id(repo), (None, None))[0] or TypeTable(repo)
    mr = MayRaise(repo, tt, **kw)
    _ENGINE[id(repo)] = (tt, mr)
    return mr


def _reviewed_lookup(reviewed: dict, key: str):
    """exact identity, or a table key with one `…` standing for any text (operands that do not matter to the argument)"""
    if key in reviewed:
        return reviewed[key]
    for k, v in reviewed.items():
        if k.count("…") == 1:
            a, b = k.split("…")
            if len(key) >= len(a) + len(b) and key.startswith(a) and key.endswith(b):
                return v
    return None


def check_entry(chk: Check, mr: MayRaise, entry: FuncInfo, declared: Iterable[str], *, ctx: ClassInfo | None = None, label: str | None = None,
                reviewed: dict[str, tuple[str, Callable[[], bool] | None]] | None = None, rule: str = "no-undeclared-escape", argkinds: dict[str, frozenset[str]] | None = None) -> list[Esc]:
    """Obligation: every exception class that can leave `entry` is (a subclass of) a declared one.
    `reviewed`: Esc.key -> (reason, validator): sites the engine cannot discharge but reading proves safe; the optional
    validator re-checks the structural fact the reason relies on, on every run."""
    declared = list(declared)
    lab = label or entry.qualname
    chk.unit(entry)
    escs = mr.escapes(entry, ctx, argkinds)
    bad: list[Esc] = []
    n_decl = 0
    for e in sorted(escs, key=lambda x: (x.exc, x.func, x.stmt)):
        if any(mr.is_sub(e.exc, d) for d in declared):
            n_decl += 1
            continue
        rv = _reviewed_lookup(reviewed or {}, e.key)
        if rv is not None and (rv[1] is None or rv[1]()):
            chk.ob("reviewed-safe-site", e.site, True, f"{lab}: {e.exc} at `{e.stmt}` in {e.func} cannot occur: {rv[0]}", key=f"reviewed|{lab}|{e.key}")
            continue
        bad.append(e)
        chk.ob(rule, e.site, False, f"{lab}: {e.exc} can escape (declared: {sorted(declared) or 'nothing'}) from `{e.stmt}` in {e.func} [{e.why}]", key=f"escape|{lab}|{e.key}")
    chk.ob(rule, entry.site(), True, f"{lab}: {n_decl} raising sites escape with a declared class ({sorted(declared)}); {len(bad)} undeclared", key=f"escape-summary|{lab}")
    return bad


def finish(chk: Check, mr: MayRaise) -> None:
    chk.count("mayraise_functions_analysed", len(mr.functions_analysed))
    chk.count("mayraise_sites", mr.sites_total)
    chk.count("mayraise_sites_discharged", mr.sites_discharged)
    chk.count("mayraise_unresolved_calls", sum(mr.unresolved.values()))
    chk.count("mypy_typed_expressions", mr.types.n_types if mr.types else 0)
    chk.extra["mayraise_discharge_samples"] = [f"{f}: `{s}` — {why}" for f, s, why in mr.discharges[:25]]
    if mr.unresolved:
        chk.extra["mayraise_unresolved"] = sorted(mr.unresolved)[:40]
    if mr.external_unknown:
        chk.extra["mayraise_external_assumed_nonraising"] = sorted(mr.external_unknown, key=lambda k: -mr.external_unknown[k])[:40]
    if mr.recursive:
        chk.extra["mayraise_recursive"] = sorted(mr.recursive)
    chk.assume("may-raise trusted base: Python/stdlib raising behaviour as tabulated in sa/mayraise.py; MemoryError/RecursionError/KeyboardInterrupt/CancelledError excluded; AttributeError/TypeError on well-typed code trusted to mypy --strict; implicit dunder calls not followed; external calls not in the table assumed non-raising (listed in evidence)")
