"""C18 (d) — no received frame makes the Data Secure receive path raise.

E1 may-raise analysis of `DataSecure.received_cemi` (plain rejection, verification, sequence check, decryption and the
decoding of the decrypted APDU with `APCI.from_knx`): the only exception class that can leave it is DataSecureError;
and the one call site of it on the receive path (`CEMIHandler.handle_cemi_frame`) sits in a `try` whose handlers catch
DataSecureError and end in the key-issue report + return.  What follows the call on the accepting path
(`cemi.data.telegram()`, `telegram_received`) is E1-analysed from `handle_cemi_frame` in C14/C12's scope."""

from __future__ import annotations

import ast

from ..astx import call_name, walk_local
from ..cfg import CFG
from ..loader import AnalysisError, Repo
from ..report import Check
from .c12 import address_reviewed
from .e1_common import check_entry, engine, finish

DS = "xknx.secure.data_secure"


def _memo(fn):
    box: dict = {}

    def w():
        if "v" not in box:
            box["v"] = fn()
        return box["v"]
    return w


def group_gate_holds(repo: Repo) -> bool:
    """verification (and with it block_0) is reached only for a group destination, with the frame's own TPCI, and the
    frames the receive path sees get their TPCI from TPCI.resolve with the group flag of that same destination"""
    rs = repo.func(DS, "DataSecure._received_secure_cemi")
    cfg = CFG(rs.node)
    mf = cfg.must_facts()
    param = rs.node.args.args[1].arg
    ok = False
    for n in cfg.nodes:
        if n.ast is None:
            continue
        for c in ast.walk(n.ast):
            if isinstance(c, ast.Call) and call_name(c).endswith(".get_plain_apdu"):
                kw = {k.arg: ast.unparse(k.value) for k in c.keywords}
                gate = any(v and a == f"isinstance({param}.dst_addr, GroupAddress)" for a, v in mf[n.id])
                ok = gate and kw.get("tpci") == f"{param}.tpci"
    fk = repo.func("xknx.cemi.cemi_frame", "CEMILData.from_knx")
    res = [c for c in ast.walk(fk.node) if isinstance(c, ast.Call) and call_name(c) == "TPCI.resolve"]
    if len(res) != 1:
        return False
    from ..astx import inline_locals
    kw = {k.arg: k.value for k in res[0].keywords}
    grp = ast.unparse(inline_locals(fk.node, kw["dst_is_group_address"])) if "dst_is_group_address" in kw else ""
    return ok and ("AddressType.GROUP" in grp or "GroupAddress" in grp)


def secure_receive_reviewed(repo: Repo) -> dict:
    from .c01 import raw_is_16_bit
    from .c03 import group_tpci_codes

    def tpci_fits() -> bool:
        codes = group_tpci_codes(repo)
        return codes is not None and all(0 <= (c | 3) <= 255 for c in codes) and group_gate_holds(repo)
    return {
        "OverflowError|BaseAddress.to_knx|int.to_bytes(self.raw, 2, 'big')": ("0 <= raw <= 65535 is the address constructors' invariant (C01 rule constructor-establishes-16-bit-range) and nothing else writes raw", _memo(lambda: raw_is_16_bit(repo))),
        "OverflowError|calculate_message_authentication_code_cbc|len(additional_data).to_bytes(2, 'big')": ("additional_data is the one-octet control field plus, at most, the secured APDU of one received frame (NPDU length is one octet): far below 65536", None),
        "ValueError|block_0|bytes((0, address_type.to_knx() | frame_format, tpci_int | _APCI_SEC_HIGH, _APCI_SEC_LOW, 0, payload_length))": ("on the receive path the destination is a group address (gate before verification), so the frame's TPCI is one TPCI.resolve returns for group destinations, whose octets are one-octet values (TPCI.to_knx of a resolved PDU); address type | frame format is the frame's control octet; payload_length is the length of a slice of one received APDU (< 256)", _memo(tpci_fits)),
    }


def check_no_raise(chk: Check, repo: Repo) -> None:
    mr = engine(repo)
    entry = repo.func(DS, "DataSecure.received_cemi")
    chk.unit(entry)
    reviewed = dict(address_reviewed(repo, ("xknx.telegram.apci",)))
    reviewed.update(secure_receive_reviewed(repo))
    check_entry(chk, mr, entry, ("DataSecureError",), label="DataSecure.received_cemi", reviewed=reviewed, rule="secure-receive-path-raises-only-DataSecureError")
    # the decoding of the decrypted APDU is inside that analysis: make the anchor explicit
    rs = repo.func(DS, "DataSecure._received_secure_cemi")
    chk.unit(rs)
    dec = [c for c in ast.walk(rs.node) if isinstance(c, ast.Call) and call_name(c) == "APCI.from_knx"]
    chk.count("APCI.from_knx sites on the secure receive path", len(dec))
    chk.floor("APCI.from_knx sites on the secure receive path", len(dec), 1)
    # the caller handles DataSecureError around the call
    h = repo.func("xknx.cemi.cemi_handler", "CEMIHandler.handle_cemi_frame")
    chk.unit(h)
    sites = [c for c in ast.walk(h.node) if isinstance(c, ast.Call) and call_name(c).endswith("data_secure.received_cemi")]
    if not sites:
        raise AnalysisError("handle_cemi_frame no longer calls data_secure.received_cemi")
    for c in sites:
        tries = [t for t in walk_local(h.node) if isinstance(t, ast.Try) and any(x is c for b in t.body for x in ast.walk(b))]
        ok = False
        detail = "not inside a try"
        for t in tries:
            for hd in t.handlers:
                names = [ast.unparse(x) for x in (hd.type.elts if isinstance(hd.type, ast.Tuple) else [hd.type])] if hd.type is not None else ["BaseException"]
                if any(n in ("DataSecureError", "XKNXException", "Exception", "BaseException") for n in names):
                    ends = isinstance(hd.body[-1], ast.Return) and not any(isinstance(x, ast.Raise) for b in hd.body for x in ast.walk(b))
                    reports = any(isinstance(x, ast.Call) and call_name(x) == "self.handle_data_secure_key_issue" for b in hd.body for x in ast.walk(b))
                    ok = ends and reports
                    detail = f"handler `except {', '.join(names)}` {'reports the key issue and returns' if ok else 'does not end in key-issue report + return'}"
        chk.ob("receive-path-handles-DataSecureError", h.site(c), ok, f"handle_cemi_frame: `{ast.unparse(c)[:70]}` — {detail}", key="noraise|handler")
    finish(chk, mr)
    chk.rule("E1 may-raise analysis of DataSecure.received_cemi (declared: DataSecureError) + handler shape at its call site in handle_cemi_frame")
