"""C01 — addresses survive text and wire round trips in every notation; parse errors are declared ones.

 (a) E2 bit-provenance round trip, per address kind and notation, over a symbolic 16-bit address split into the
     notation's fields (group: main5/middle3/sub8, main5/sub11, raw16; individual: area4/main4/line8): the
     renderer's component properties extract exactly those fields, the f-string joins them with the separators
     the parser's regular expression expects (regex parsed with re._parser), and the parser packs them back into
     the same bit positions, accepting every value of the field widths (range guards decided by bit bounds) and
     rejecting one more bit.  Decimal rendering/parsing of a non-negative int is assumed to be the identity.
 (b) wire form: 2 big-endian octets both ways.
 (c) E1: only CouldNotParseAddress can leave the constructors / parse_device_group_address for any text.
 (d) internal addresses: stored text is "i-" + stripped remainder and re-parsing it removes exactly that prefix.
"""

from __future__ import annotations

import ast
import re

from .. import bits as B
from ..absmachine import AbsMachine, Obj, Outcome, UNKNOWN
from ..astx import canon_locals, call_name, calls, walk_local
from ..cfg import CFG
from ..exctable import ExcTable
from ..explore import Explorer
from ..loader import NOFOLD, AnalysisError, EnumMember, Repo
from ..report import Check, canon
from ..mayraise import UNTYPED
from .e1_common import check_entry, engine, finish

M = "xknx.telegram.address"
GAT = f"{M}:GroupAddressType"


def _regex_shape(pattern: str):
    """[(group name, (min digits, max digits)) | literal str | ('opt', [...])] from a regex made of digit groups and literals."""
    import re._parser as rp  # type: ignore[import-not-found]
    tree = rp.parse(pattern)
    names = {v: k for k, v in tree.state.groupdict.items()}

    def conv(items):
        out = []
        for op, av in items:
            s = str(op)
            if s == "AT":
                continue
            if s == "LITERAL":
                out.append(chr(av))
            elif s == "SUBPATTERN":
                gid, _, _, sub = av
                inner = conv(sub)
                if gid in names and len(inner) == 1 and isinstance(inner[0], tuple) and inner[0][0] == "digits":
                    out.append((names[gid], inner[0][1]))
                else:
                    out.append(("group", inner))
            elif s in ("MAX_REPEAT", "MIN_REPEAT"):
                lo, hi, sub = av
                inner = conv(sub)
                if len(inner) == 1 and inner[0] == ("digit",):
                    out.append(("digits", (lo, int(hi))))
                elif lo == 0 and hi == 1:
                    out.append(("opt", inner[0][1] if len(inner) == 1 and isinstance(inner[0], tuple) and inner[0][0] == "group" else inner))
                else:
                    raise AnalysisError("unsupported repeat in address regex")
            elif s == "IN":
                if [(str(o), str(a)) for o, a in av] == [("CATEGORY", "CATEGORY_DIGIT")]:
                    out.append(("digit",))
                else:
                    raise AnalysisError("unsupported character class in address regex")
            else:
                raise AnalysisError(f"unsupported regex element {s}")
        return out
    return conv(tree)


def roundtrip(chk: Check, repo: Repo, cname: str, notation: str | None, fields: list[tuple[str, int, int]], sep: str) -> None:
    cls = repo.cls(M, cname)
    exc = ExcTable(repo)
    raw = B.norm([(lo, w, B.SymBits(name, w)) for name, lo, w in fields])
    fmt = EnumMember(GAT, notation) if notation else None
    label = f"{cname}{'/' + notation if notation else ''}"

    def hook_for(obj_raw):
        def hook(e, env):
            if isinstance(e, ast.Attribute) and isinstance(e.value, ast.Name) and e.value.id == "self":
                if e.attr == "raw":
                    return obj_raw
                if e.attr == "address_format":
                    return fmt
                v = repo.const(cls, e.attr)
                if v is not NOFOLD:
                    return v
            if isinstance(e, ast.Attribute):
                v = repo.fold(e, cls.module, cls)
                if isinstance(v, EnumMember):
                    return v
            return UNKNOWN
        return hook

    # renderer: component properties
    comps: dict[str, object] = {}
    for pname in [f[0] for f in fields] + (["main", "middle", "sub"] if cname == "GroupAddress" else []):
        m = repo.lookup_method(cls, pname)
        if m is None:
            continue
        cfg = CFG(m.node)
        am = AbsMachine(cfg, exc, lambda c, e: None, hook_for(raw))
        rets = {p.env.get("#ret") for p in Explorer(cfg, repo, am.step).run(cfg.entry, [], {}) if p.end == cfg.exit}
        comps[pname] = next(iter(rets)) if len(rets) == 1 else UNKNOWN
    for name, lo, w in fields:
        got = comps.get(name) if name != "raw" else comps.get("sub")
        chk.ob("renderer-extracts-field", cls.methods.get(name, cls.methods.get("sub")).site() if (name in cls.methods or "sub" in cls.methods) else f"{M}:{cname}", got == B.SymBits(name, w), f"{label}: component `{name if name != 'raw' else 'sub'}` of the rendered text = {got!r}; required bits [{lo + w - 1}:{lo}] of the address", key=f"render|{label}|{name}")
    if cname == "GroupAddress":
        absent = {"LONG": [], "SHORT": ["middle"], "FREE": ["main", "middle"]}[notation or "LONG"]
        for a in absent:
            chk.ob("renderer-extracts-field", cls.methods[a].site(), comps.get(a) is None, f"{label}: component `{a}` is None in this notation ({comps.get(a)!r})", key=f"render-none|{label}|{a}")
    # __str__: joined components and separators
    sm = cls.methods["__str__"]
    cfg = CFG(sm.node)
    am = AbsMachine(cfg, exc, lambda c, e: None, hook_for(raw))
    strs = []
    for p in Explorer(cfg, repo, am.step).run(cfg.entry, [], {}):
        if p.end == cfg.exit:
            node = [n for n in p.nodes if isinstance(cfg.nodes[n].ast, ast.Return)]
            strs.append(cfg.nodes[node[-1]].ast.value)
    ok = len(strs) == 1 and isinstance(strs[0], ast.JoinedStr)
    parts = []
    if ok:
        for v in strs[0].values:
            parts.append(("field", ast.unparse(v.value)) if isinstance(v, ast.FormattedValue) else ("lit", v.value))
    want_fields = [f"self.{f[0]}" if f[0] != "raw" else "self.sub" for f in fields]
    want_parts = []
    for i, wf in enumerate(want_fields):
        if i:
            want_parts.append(("lit", sep))
        want_parts.append(("field", wf))
    chk.ob("renderer-joins-fields", sm.site(), ok and parts == want_parts and all(not (isinstance(v, ast.FormattedValue) and (v.format_spec is not None or v.conversion != -1)) for v in strs[0].values), f"{label}: __str__ renders {parts}; required {want_parts} (plain decimal, no padding)", key=f"str|{label}")
    # parser
    if fields[0][0] == "raw":
        # FREE: text is all digits -> int(text)
        ini = cls.methods["__init__"]
        cfg = CFG(ini.node)
        def cm(c, env):
            n = call_name(c)
            if n.endswith(".isdigit") or n.endswith(".isdecimal"):
                return [Outcome(None, True)]
            if n == "int":
                return [Outcome(None, raw)]
            return None
        am = AbsMachine(cfg, exc, cm)
        am.isinstance_fn = lambda c_, t: {"int": False, "str": True}.get(t, False) if c_ == "str" else None
        paths = Explorer(cfg, repo, am.step).run(cfg.entry, [], {"address": Obj("str", "text")})
        got = {(repr(p.env.get("self.raw")), p.end_kind) for p in paths}
        chk.ob("parser-packs-fields", ini.site(), got == {(repr(raw), "exit")}, f"{label}: decimal text -> {sorted(got)}; required the same 16-bit value, accepted", key=f"parse|{label}")
        return
    ps = cls.methods.get(f"_{cname}__string_to_int") or cls.methods.get("__string_to_int")
    if ps is None:
        raise AnalysisError(f"{cname}.__string_to_int vanished")
    values = {name: B.SymBits(name, w) for name, lo, w in fields}
    cfg = CFG(ps.node)
    def run_parser(vals):
        def cm(c, env):
            n = call_name(c)
            if n.endswith("ADDRESS_RE.match"):
                return [Outcome(None, Obj("Match", "m"))]
            recv = env.get(c.func.value.id) if isinstance(c.func, ast.Attribute) and isinstance(c.func.value, ast.Name) else None
            if n.endswith(".group") and isinstance(recv, Obj) and recv.cls == "Match":
                g = repo.fold(c.args[0], ps.module, cls)
                return [Outcome(None, vals.get(g))]
            if n == "int":
                return [Outcome(None, box["am"].ev(c.args[0], env, {}))]
            return None
        box = {}
        am = AbsMachine(cfg, exc, cm, hook_for(raw))
        box["am"] = am
        return Explorer(cfg, repo, am.step).run(cfg.entry, [], {})
    paths = run_parser(values)
    got = {(repr(p.env.get("#ret")) if p.end == cfg.exit else f"raise {p.env.get('#raised')}") for p in paths}
    chk.ob("parser-packs-fields", ps.site(), got == {repr(raw)}, f"{label}: parsing the rendered components gives {sorted(got)}; required {raw!r} for every field value (no rejection inside the field widths)", key=f"parse|{label}")
    # one more bit in any field must be rejected
    for name, lo, w in fields:
        wide = dict(values); wide[name] = B.norm([(0, w, B.SymBits(name, w)), (w, 1, 1)])
        gotw = {(p.end_kind, p.env.get("#raised")) for p in run_parser(wide)}
        chk.ob("parser-rejects-overflowing-field", ps.site(), gotw == {("raise", "CouldNotParseAddress")}, f"{label}: `{name}` >= 2**{w} -> {sorted(map(str, gotw))}; required CouldNotParseAddress", key=f"overflow|{label}|{name}")
    # regex vs renderer: every text the renderer can produce is matched, with the groups the parser reads
    pat = repo.fold(cls.attrs["ADDRESS_RE"].args[0], cls.module, cls) if isinstance(cls.attrs.get("ADDRESS_RE"), ast.Call) else NOFOLD
    if not isinstance(pat, str):
        raise AnalysisError(f"{cname}.ADDRESS_RE pattern not a literal")
    regex_language(chk, cls, label, pat, fields, sep, parts if ok else None)


def regex_language(chk: Check, cls, label: str, pat: str, fields, sep: str, parts) -> None:
    """Finite language inclusion: {rendered text of every field-value tuple} is a subset of L(ADDRESS_RE), and the
    named groups capture exactly the decimal text of each field.  The pattern is a literal read from the class
    body; `re` serves as the membership oracle for that regular language (no repository code runs)."""
    import itertools
    import re as _re
    try:
        rx = _re.compile(pat)
    except _re.error as err:
        raise AnalysisError(f"{label}: ADDRESS_RE does not compile: {err}") from err
    names = [f[0] for f in fields]
    all_groups = set(rx.groupindex)
    bad = None
    n = 0
    for vals in itertools.product(*[range(2 ** w) for _, _, w in fields]):
        text = sep.join(map(str, vals))
        n += 1
        m = rx.match(text)
        if m is None or m.end() != len(text):
            bad = (text, "no match")
            break
        gd = m.groupdict()
        if any(gd.get(nm) != str(v) for nm, v in zip(names, vals)) or any(gd.get(g) is not None for g in all_groups - set(names)):
            bad = (text, f"groups {gd}")
            break
    chk.count("regex_language_texts", n)
    chk.ob("regex-accepts-rendered-text", cls.module.relpath + f":0:{cls.name}.ADDRESS_RE", bad is None and parts is not None,
           f"{label}: all {n} texts `{sep.join('<' + x + '>' for x in names)}` the renderer can produce are matched by {pat!r} with groups = the decimal fields" if bad is None else f"{label}: rendered text {bad[0]!r} is not parsed back by {pat!r}: {bad[1]}",
           key=f"regex|{label}")


def wire(chk: Check, repo: Repo) -> None:
    tk = repo.func(M, "BaseAddress.to_knx"); fk = repo.func(M, "BaseAddress.from_knx")
    chk.unit(tk); chk.unit(fk)
    r1 = [n for n in walk_local(tk.node) if isinstance(n, ast.Return)]
    r2 = [n for n in walk_local(fk.node) if isinstance(n, ast.Return)]
    ok = len(r1) == 1 and ast.unparse(r1[0].value) in ("int.to_bytes(self.raw, 2, 'big')", "self.raw.to_bytes(2, 'big')") and len(r2) == 1 and ast.unparse(r2[0].value) == "cls(int.from_bytes(raw, 'big'))"
    chk.ob("wire-roundtrip", tk.site(), ok, f"to_knx = {ast.unparse(r1[0].value) if r1 else '?'}; from_knx = {ast.unparse(r2[0].value) if r2 else '?'} (2 big-endian octets both ways)", key="wire")
    over = [c.name for c in repo.subclasses(repo.cls(M, "BaseAddress"), strict=True) if "to_knx" in c.methods or "from_knx" in c.methods]
    chk.ob("wire-roundtrip", tk.site(), not over, f"subclasses overriding to_knx/from_knx: {over}", key="wire-overrides")


def raw_invariant(chk: Check, repo: Repo, cname: str) -> None:
    """Every normal exit of the constructor leaves 0 <= self.raw <= 65535: each `self.raw = V` is a copy from an address
    of the same class, the packed result of the notation parser (16 bits by the parser obligations), a value already
    range-checked, or is followed on every path by the range guard."""
    ini = repo.func(M, f"{cname}.__init__")
    cfg = CFG(ini.node)
    mf = cfg.must_facts()
    RANGE = ("0 <= {} <= 65535", "0 <= {} <= 65535")

    def ranged(facts, expr: str) -> bool:
        return any(val and atom.replace(" ", "") in (f"0<={expr}<=65535", f"0<={expr}<=0xffff", f"0<={expr}<={cname}.MAX_FREE") for atom, val in facts) or \
            (any(val and atom.replace(" ", "") in (f"{expr}>=0", f"0<={expr}") for atom, val in facts) and any(val and atom.replace(" ", "") in (f"{expr}<=65535", f"{expr}<65536") for atom, val in facts))

    exit_ok = ranged(mf.get(cfg.exit, frozenset()), "self.raw")
    writes = [n for n in cfg.nodes if n.kind == "stmt" and isinstance(n.ast, (ast.Assign, ast.AnnAssign, ast.AugAssign)) and any(isinstance(t, ast.Attribute) and t.attr == "raw" and isinstance(t.ctx, ast.Store) for t in ast.walk(n.ast))]
    chk.floor(f"{cname}.__init__ writes of self.raw", len(writes), 2)
    for n in writes:
        a = n.ast
        v = a.value if isinstance(a, (ast.Assign, ast.AnnAssign)) else None
        vt = ast.unparse(v) if v is not None else "?"
        why = None
        if exit_ok:
            why = "the range guard `0 <= self.raw <= 65535` holds on every path to the normal exit"
        elif v is not None and isinstance(v, ast.Attribute) and v.attr == "raw" and any(val and atom == f"isinstance({ast.unparse(v.value)}, {cname})" for atom, val in mf[n.id]):
            why = f"copy of another {cname}'s raw (invariant by induction)"
        elif v is not None and isinstance(v, ast.Call) and call_name(v).endswith("__string_to_int"):
            why = "packed result of the notation parser (fields range-checked, 16 bits — see parser obligations)"
        elif v is not None and ranged(mf[n.id], vt):
            why = f"`{vt}` was range-checked before the assignment"
        else:
            # guard after the assignment on every path to the exit
            after = cfg.reachable([n.id])
            guards = [g.id for g in cfg.nodes if g.id in after and ranged(mf.get(g.id, frozenset()), "self.raw")]
            if guards and cfg.all_paths_hit(n.id, guards, [cfg.exit], edge_ok=cfg.normal_only):
                why = "followed by the range guard on every path to the normal exit"
        # ... and the stored object is a plain int: `isinstance(x, int)` also admits bool and IntEnum members, whose str()
        # is not a number - in the free notation the address then renders as text its own parser refuses
        if v is not None and isinstance(v, ast.Name) and any(val and atom == f"isinstance({v.id}, int)" for atom, val in mf[n.id]):
            chk.ob("raw-is-a-plain-int", ini.site(a), False, f"{cname}.__init__: `{ast.unparse(a)}` stores the argument object itself after `isinstance({v.id}, int)` - a bool (True) or IntEnum member keeps its own str()", key=f"plain-int|{cname}")
        elif v is not None and isinstance(v, ast.Call) and call_name(v) == "int" and len(v.args) == 1 and isinstance(v.args[0], ast.Name) and any(val and atom == f"isinstance({v.args[0].id}, int)" for atom, val in mf[n.id]):
            chk.ob("raw-is-a-plain-int", ini.site(a), True, f"{cname}.__init__: `{ast.unparse(a)}` normalises an int subclass instance to a plain int", key=f"plain-int|{cname}")
        chk.ob("constructor-establishes-16-bit-range", ini.site(a), why is not None, f"{cname}.__init__: `{ast.unparse(a)}` — {why or 'no range check between this assignment and the normal exit: a value outside 0..65535 is stored (renders to text that re-parses to a different address; to_knx cannot serialise it)'}", key=f"raw-range|{cname}|{canon(a)}")


class _Recorder:
    """stands in for a Check when a rule is re-used as the validator of a reviewed entry elsewhere"""

    def __init__(self) -> None:
        self.failed: list[str] = []

    def ob(self, rule, site, ok, detail="", key=None):
        if not ok:
            self.failed.append(f"{rule}: {detail}")

    def floor(self, name, n, least):
        if n < least:
            self.failed.append(f"floor {name}: {n} < {least}")

    def unit(self, *a, **k):
        pass

    def count(self, *a, **k):
        pass


def raw_is_16_bit(repo: Repo) -> bool:
    """0 <= raw <= 65535 for every GroupAddress / IndividualAddress object: the constructor invariant above, and no
    writer of `.raw` on these classes outside their constructors."""
    rec = _Recorder()
    for cname in ("GroupAddress", "IndividualAddress"):
        raw_invariant(rec, repo, cname)  # type: ignore[arg-type]
    from ..astx import attr_writes
    base = repo.cls(M, "BaseAddress")
    foreign = [w for w in attr_writes(repo, "raw", include_mutators=False) if w.func.cls is not None and repo.is_subclass(w.func.cls, base) and w.func.name != "__init__"]
    foreign += [w for w in attr_writes(repo, "raw", include_mutators=False) if (w.func.cls is None or not repo.is_subclass(w.func.cls, base)) and w.receiver != "self" and w.func.module.name.startswith("xknx.telegram")]
    return not rec.failed and not foreign


def internal(chk: Check, repo: Repo) -> None:
    ini = repo.func(M, "InternalGroupAddress.__init__")
    chk.unit(ini)
    cfn, names = canon_locals(ini.node)  # locals named v0, v1, ... by order of first binding: the rule does not depend on their names
    src = {ast.unparse(n.targets[0]): ast.unparse(n.value) for n in walk_local(cfn) if isinstance(n, ast.Assign) and len(n.targets) == 1}
    stored = next((n.value for n in walk_local(cfn) if isinstance(n, ast.Assign) and len(n.targets) == 1 and ast.unparse(n.targets[0]) == "self.raw" and isinstance(n.value, ast.JoinedStr)), None)
    rest = None
    if stored is not None and len(stored.values) == 2 and isinstance(stored.values[0], ast.Constant) and stored.values[0].value == "i-" and isinstance(stored.values[1], ast.FormattedValue) and isinstance(stored.values[1].value, ast.Name):
        rest = stored.values[1].value.id
    rdef = src.get(rest or "?", "")
    m_ = re.fullmatch(r"address\[(\w+):\]\.strip\(\)", rdef)
    plen = m_.group(1) if m_ else None
    plen_defs = sorted(ast.unparse(n.value) for n in walk_local(cfn) if isinstance(n, ast.Assign) and len(n.targets) == 1 and ast.unparse(n.targets[0]) == plen)
    ok = rest is not None and plen is not None and plen_defs == ["1", "2"]
    tests = [ast.unparse(n.test) for n in walk_local(cfn) if isinstance(n, ast.If)]
    ok = ok and "address[1] in '-_'" in tests and f"not {rest}" in tests and any("address[0].lower() != 'i'" in t for t in tests)
    two = [n for n in walk_local(cfn) if isinstance(n, ast.If) and ast.unparse(n.test) == "address[1] in '-_'"]
    ok = ok and len(two) == 1 and [ast.unparse(x) for x in two[0].body] == [f"{plen} = 2"] and not two[0].orelse
    chk.ob("internal-address-normal-form", ini.site(), ok, f"stored text = 'i-' + <rest> with <rest> = {rdef or '?'} (prefix length {plen_defs}: 2 exactly when the second character is '-' or '_'); prefix tests {tests}: re-parsing 'i-' + stripped text strips exactly the two prefix characters again (idempotent)", key="internal-normal-form")
    sm = repo.func(M, "InternalGroupAddress.__str__")
    r = [n for n in walk_local(sm.node) if isinstance(n, ast.Return)]
    chk.ob("internal-address-normal-form", sm.site(), len(r) == 1 and ast.unparse(r[0].value) == "self.raw", "__str__ returns the stored text", key="internal-str")


def run(chk: Check, repo: Repo) -> None:
    roundtrip(chk, repo, "GroupAddress", "LONG", [("main", 11, 5), ("middle", 8, 3), ("sub", 0, 8)], "/")
    roundtrip(chk, repo, "GroupAddress", "SHORT", [("main", 11, 5), ("sub", 0, 11)], "/")
    roundtrip(chk, repo, "GroupAddress", "FREE", [("raw", 0, 16)], "/")
    roundtrip(chk, repo, "IndividualAddress", None, [("area", 12, 4), ("main", 8, 4), ("line", 0, 8)], ".")
    wire(chk, repo)
    raw_invariant(chk, repo, "GroupAddress")
    raw_invariant(chk, repo, "IndividualAddress")
    internal(chk, repo)
    mr = engine(repo)
    for q in ("IndividualAddress.__init__", "GroupAddress.__init__", "InternalGroupAddress.__init__"):
        f = repo.func(M, q)
        check_entry(chk, mr, f, ("CouldNotParseAddress",), label=f"{q} (any text)", )
        # ... and "non-string objects given to the address constructors": the argument as a value of unchecked type
        ap = [a.arg for a in f.node.args.args if a.arg != "self"][:1]
        check_entry(chk, mr, f, ("CouldNotParseAddress",), label=f"{q} (any object)", argkinds={a: frozenset([UNTYPED]) for a in ap})
    f = repo.func(M, "parse_device_group_address")
    check_entry(chk, mr, f, ("CouldNotParseAddress",), label="parse_device_group_address")
    ap = [a.arg for a in f.node.args.args][:1]
    check_entry(chk, mr, f, ("CouldNotParseAddress",), label="parse_device_group_address (any object)", argkinds={a: frozenset([UNTYPED]) for a in ap})
    chk.rule("E2 bit-record round trip renderer -> regex shape -> parser per notation; E1 may-raise analysis of the address constructors; structural wire-form and internal-address normal form")
    chk.assume("decimal str()/int() of a non-negative int is the identity; int() accepts every string of Unicode decimal digits (category Nd), which is what \\\\d matches")
    finish(chk, mr)
