"""C01 — addresses survive text and wire round trips in every notation; parse errors are declared ones.

 (a) E2 bit-provenance round trip, per address kind and notation, over a symbolic 16-bit address split into the
     notation's fields (group: main5/middle3/sub8, main5/sub11, raw16; individual: area4/main4/line8): the
     renderer's component properties extract exactly those fields, the f-string joins them with the separators
     the parser's regular expression expects (regex parsed with re._parser), and the parser packs them back into
     the same bit positions, accepting every value of the field widths (range guards decided by bit bounds) and
     rejecting one more bit.  Decimal rendering/parsing of a non-negative int is assumed to be the identity.
 (b) wire form: 2 big-endian octets both ways.
 (c) E1: only CouldNotParseAddress can leave the constructors / parse_device_group_address for any text.
 (d) internal addresses: stored text is "i-" + stripped remainder and re-parsing it removes exactly that prefix.
"""

from __future__ import annotations

import ast

from .. import bits as B
from ..absmachine import AbsMachine, Obj, Outcome, UNKNOWN
from ..astx import call_name, calls, walk_local
from ..cfg import CFG
from ..exctable import ExcTable
from ..explore import Explorer
from ..loader import NOFOLD, AnalysisError, EnumMember, Repo
from ..report import Check
from .e1_common import check_entry, engine, finish

M = "xknx.telegram.address"
GAT = f"{M}:GroupAddressType"


def _regex_shape(pattern: str):
    """[(group name, (min digits, max digits)) | literal str | ('opt', [...])] from a regex made of digit groups and literals."""
    import re._parser as rp  # type: ignore[import-not-found]
    tree = rp.parse(pattern)
    names = {v: k for k, v in tree.state.groupdict.items()}

    def conv(items):
        out = []
        for op, av in items:
            s = str(op)
            if s == "AT":
                continue
            if s == "LITERAL":
                out.append(chr(av))
            elif s == "SUBPATTERN":
                gid, _, _, sub = av
                inner = conv(sub)
                if gid in names and len(inner) == 1 and isinstance(inner[0], tuple) and inner[0][0] == "digits":
                    out.append((names[gid], inner[0][1]))
                else:
                    out.append(("group", inner))
            elif s in ("MAX_REPEAT", "MIN_REPEAT"):
                lo, hi, sub = av
                inner = conv(sub)
                if len(inner) == 1 and inner[0] == ("digit",):
                    out.append(("digits", (lo, int(hi))))
                elif lo == 0 and hi == 1:
                    out.append(("opt", inner[0][1] if len(inner) == 1 and isinstance(inner[0], tuple) and inner[0][0] == "group" else inner))
                else:
                    raise AnalysisError("unsupported repeat in address regex")
            elif s == "IN":
                if [(str(o), str(a)) for o, a in av] == [("CATEGORY", "CATEGORY_DIGIT")]:
                    out.append(("digit",))
                else:
                    raise AnalysisError("unsupported character class in address regex")
            else:
                raise AnalysisError(f"unsupported regex element {s}")
        return out
    return conv(tree)


def roundtrip(chk: Check, repo: Repo, cname: str, notation: str | None, fields: list[tuple[str, int, int]], sep: str) -> None:
    cls = repo.cls(M, cname)
    exc = ExcTable(repo)
    raw = B.norm([(lo, w, B.SymBits(name, w)) for name, lo, w in fields])
    fmt = EnumMember(GAT, notation) if notation else None
    label = f"{cname}{'/' + notation if notation else ''}"

    def hook_for(obj_raw):
        def hook(e, env):
            if isinstance(e, ast.Attribute) and isinstance(e.value, ast.Name) and e.value.id == "self":
                if e.attr == "raw":
                    return obj_raw
                if e.attr == "address_format":
                    return fmt
                v = repo.const(cls, e.attr)
                if v is not NOFOLD:
                    return v
            if isinstance(e, ast.Attribute):
                v = repo.fold(e, cls.module, cls)
                if isinstance(v, EnumMember):
                    return v
            return UNKNOWN
        return hook

    # renderer: component properties
    comps: dict[str, object] = {}
    for pname in [f[0] for f in fields] + (["main", "middle", "sub"] if cname == "GroupAddress" else []):
        m = repo.lookup_method(cls, pname)
        if m is None:
            continue
        cfg = CFG(m.node)
        am = AbsMachine(cfg, exc, lambda c, e: None, hook_for(raw))
        rets = {p.env.get("#ret") for p in Explorer(cfg, repo, am.step).run(cfg.entry, [], {}) if p.end == cfg.exit}
        comps[pname] = next(iter(rets)) if len(rets) == 1 else UNKNOWN
    for name, lo, w in fields:
        got = comps.get(name) if name != "raw" else comps.get("sub")
        chk.ob("renderer-extracts-field", cls.methods.get(name, cls.methods.get("sub")).site() if (name in cls.methods or "sub" in cls.methods) else f"{M}:{cname}", got == B.SymBits(name, w), f"{label}: component `{name if name != 'raw' else 'sub'}` of the rendered text = {got!r}; required bits [{lo + w - 1}:{lo}] of the address", key=f"render|{label}|{name}")
    if cname == "GroupAddress":
        absent = {"LONG": [], "SHORT": ["middle"], "FREE": ["main", "middle"]}[notation or "LONG"]
        for a in absent:
            chk.ob("renderer-extracts-field", cls.methods[a].site(), comps.get(a) is None, f"{label}: component `{a}` is None in this notation ({comps.get(a)!r})", key=f"render-none|{label}|{a}")
    # __str__: joined components and separators
    sm = cls.methods["__str__"]
    cfg = CFG(sm.node)
    am = AbsMachine(cfg, exc, lambda c, e: None, hook_for(raw))
    strs = []
    for p in Explorer(cfg, repo, am.step).run(cfg.entry, [], {}):
        if p.end == cfg.exit:
            node = [n for n in p.nodes if isinstance(cfg.nodes[n].ast, ast.Return)]
            strs.append(cfg.nodes[node[-1]].ast.value)
    ok = len(strs) == 1 and isinstance(strs[0], ast.JoinedStr)
    parts = []
    if ok:
        for v in strs[0].values:
            parts.append(("field", ast.unparse(v.value)) if isinstance(v, ast.FormattedValue) else ("lit", v.value))
    want_fields = [f"self.{f[0]}" if f[0] != "raw" else "self.sub" for f in fields]
    want_parts = []
    for i, wf in enumerate(want_fields):
        if i:
            want_parts.append(("lit", sep))
        want_parts.append(("field", wf))
    chk.ob("renderer-joins-fields", sm.site(), ok and parts == want_parts and all(not (isinstance(v, ast.FormattedValue) and (v.format_spec is not None or v.conversion != -1)) for v in strs[0].values), f"{label}: __str__ renders {parts}; required {want_parts} (plain decimal, no padding)", key=f"str|{label}")
    # parser
    if fields[0][0] == "raw":
        # FREE: text is all digits -> int(text)
        ini = cls.methods["__init__"]
        cfg = CFG(ini.node)
        def cm(c, env):
            n = call_name(c)
            if n.endswith(".isdigit") or n.endswith(".isdecimal"):
                return [Outcome(None, True)]
            if n == "int":
                return [Outcome(None, raw)]
            return None
        am = AbsMachine(cfg, exc, cm)
        am.isinstance_fn = lambda c_, t: {"int": False, "str": True}.get(t, False) if c_ == "str" else None
        paths = Explorer(cfg, repo, am.step).run(cfg.entry, [], {"address": Obj("str", "text")})
        got = {(repr(p.env.get("self.raw")), p.end_kind) for p in paths}
        chk.ob("parser-packs-fields", ini.site(), got == {(repr(raw), "exit")}, f"{label}: decimal text -> {sorted(got)}; required the same 16-bit value, accepted", key=f"parse|{label}")
        return
    ps = cls.methods.get(f"_{cname}__string_to_int") or cls.methods.get("__string_to_int")
    if ps is None:
        raise AnalysisError(f"{cname}.__string_to_int vanished")
    values = {name: B.SymBits(name, w) for name, lo, w in fields}
    cfg = CFG(ps.node)
    def run_parser(vals):
        def cm(c, env):
            n = call_name(c)
            if n.endswith("ADDRESS_RE.match"):
                return [Outcome(None, Obj("Match", "m"))]
            if n == "match.group":
                g = repo.fold(c.args[0], ps.module, cls)
                return [Outcome(None, vals.get(g))]
            if n == "int":
                return [Outcome(None, box["am"].ev(c.args[0], env, {}))]
            return None
        box = {}
        am = AbsMachine(cfg, exc, cm, hook_for(raw))
        box["am"] = am
        return Explorer(cfg, repo, am.step).run(cfg.entry, [], {})
    paths = run_parser(values)
    got = {(repr(p.env.get("#ret")) if p.end == cfg.exit else f"raise {p.env.get('#raised')}") for p in paths}
    chk.ob("parser-packs-fields", ps.site(), got == {repr(raw)}, f"{label}: parsing the rendered components gives {sorted(got)}; required {raw!r} for every field value (no rejection inside the field widths)", key=f"parse|{label}")
    # one more bit in any field must be rejected
    for name, lo, w in fields:
        wide = dict(values); wide[name] = B.norm([(0, w, B.SymBits(name, w)), (w, 1, 1)])
        gotw = {(p.end_kind, p.env.get("#raised")) for p in run_parser(wide)}
        chk.ob("parser-rejects-overflowing-field", ps.site(), gotw == {("raise", "CouldNotParseAddress")}, f"{label}: `{name}` >= 2**{w} -> {sorted(map(str, gotw))}; required CouldNotParseAddress", key=f"overflow|{label}|{name}")
    # regex shape vs renderer: separators and digit counts
    pat = repo.fold(cls.attrs["ADDRESS_RE"].args[0], cls.module, cls) if isinstance(cls.attrs.get("ADDRESS_RE"), ast.Call) else NOFOLD
    if not isinstance(pat, str):
        raise AnalysisError(f"{cname}.ADDRESS_RE pattern not a literal")
    shape = _regex_shape(pat)
    flat = []
    for el in shape:
        if isinstance(el, tuple) and el[0] == "opt":
            if "middle" in [f[0] for f in fields]:
                flat += el[1]
        else:
            flat.append(el)
    want_shape = []
    for i, (name, lo, w) in enumerate(fields):
        if i:
            want_shape.append(sep)
        want_shape.append(name)
    got_shape = [el if isinstance(el, str) else el[0] for el in flat]
    digits_ok = all(rng[0] <= 1 and rng[1] >= len(str(2 ** next(w for n_, _, w in fields if n_ == nm) - 1)) for nm, rng in [el for el in flat if isinstance(el, tuple)])
    chk.ob("regex-accepts-rendered-text", cls.module.relpath + f":0:{cname}.ADDRESS_RE", got_shape == want_shape and digits_ok, f"{label}: regex {pat!r} has shape {got_shape} with digit counts {[el[1] for el in flat if isinstance(el, tuple)]}; rendered text is {want_shape} with up to {[len(str(2 ** w - 1)) for _, _, w in fields]} digits", key=f"regex|{label}")


def wire(chk: Check, repo: Repo) -> None:
    tk = repo.func(M, "BaseAddress.to_knx"); fk = repo.func(M, "BaseAddress.from_knx")
    chk.unit(tk); chk.unit(fk)
    r1 = [n for n in walk_local(tk.node) if isinstance(n, ast.Return)]
    r2 = [n for n in walk_local(fk.node) if isinstance(n, ast.Return)]
    ok = len(r1) == 1 and ast.unparse(r1[0].value) in ("int.to_bytes(self.raw, 2, 'big')", "self.raw.to_bytes(2, 'big')") and len(r2) == 1 and ast.unparse(r2[0].value) == "cls(int.from_bytes(raw, 'big'))"
    chk.ob("wire-roundtrip", tk.site(), ok, f"to_knx = {ast.unparse(r1[0].value) if r1 else '?'}; from_knx = {ast.unparse(r2[0].value) if r2 else '?'} (2 big-endian octets both ways)", key="wire")
    over = [c.name for c in repo.subclasses(repo.cls(M, "BaseAddress"), strict=True) if "to_knx" in c.methods or "from_knx" in c.methods]
    chk.ob("wire-roundtrip", tk.site(), not over, f"subclasses overriding to_knx/from_knx: {over}", key="wire-overrides")


def internal(chk: Check, repo: Repo) -> None:
    ini = repo.func(M, "InternalGroupAddress.__init__")
    chk.unit(ini)
    src = {ast.unparse(n.targets[0]): ast.unparse(n.value) for n in walk_local(ini.node) if isinstance(n, ast.Assign) and len(n.targets) == 1}
    ok = src.get("self.raw") in ("f'i-{_raw}'",) and src.get("_raw") == "address[prefix_length:].strip()"
    tests = [ast.unparse(n.test) for n in walk_local(ini.node) if isinstance(n, ast.If)]
    ok = ok and "address[1] in '-_'" in tests and "not _raw" in tests and any("address[0].lower() != 'i'" in t for t in tests)
    chk.ob("internal-address-normal-form", ini.site(), ok, f"stored text = {src.get('self.raw')} with _raw = {src.get('_raw')}; prefix tests {tests}: re-parsing 'i-' + stripped text strips exactly the two prefix characters again (idempotent)", key="internal-normal-form")
    sm = repo.func(M, "InternalGroupAddress.__str__")
    r = [n for n in walk_local(sm.node) if isinstance(n, ast.Return)]
    chk.ob("internal-address-normal-form", sm.site(), len(r) == 1 and ast.unparse(r[0].value) == "self.raw", "__str__ returns the stored text", key="internal-str")


def run(chk: Check, repo: Repo) -> None:
    roundtrip(chk, repo, "GroupAddress", "LONG", [("main", 11, 5), ("middle", 8, 3), ("sub", 0, 8)], "/")
    roundtrip(chk, repo, "GroupAddress", "SHORT", [("main", 11, 5), ("sub", 0, 11)], "/")
    roundtrip(chk, repo, "GroupAddress", "FREE", [("raw", 0, 16)], "/")
    roundtrip(chk, repo, "IndividualAddress", None, [("area", 12, 4), ("main", 8, 4), ("line", 0, 8)], ".")
    wire(chk, repo)
    internal(chk, repo)
    mr = engine(repo)
    for q in ("IndividualAddress.__init__", "GroupAddress.__init__", "InternalGroupAddress.__init__"):
        f = repo.func(M, q)
        check_entry(chk, mr, f, ("CouldNotParseAddress",), label=f"{q} (any text)", )
    f = repo.func(M, "parse_device_group_address")
    check_entry(chk, mr, f, ("CouldNotParseAddress",), label="parse_device_group_address")
    chk.rule("E2 bit-record round trip renderer -> regex shape -> parser per notation; E1 may-raise analysis of the address constructors; structural wire-form and internal-address normal form")
    chk.assume("decimal str()/int() of a non-negative int is the identity; int() accepts every string of Unicode decimal digits (category Nd), which is what \\\\d matches")
    finish(chk, mr)
