"""C09 — numeric datapoints encode every in-range value; out-of-range values are refused with a conversion error.

 (a) E1 may-raise analysis of `to_knx` of every concrete DPTNumeric class for an `int | float` argument (including
     nan / ±inf / huge): only ConversionError can leave it.
 (b) E8 range agreement by interval abstract interpretation of the MRO-resolved encoder body with the class's folded
     constants (value_min, value_max, resolution, _struct_format, payload_length):
       * every value in [value_min, value_max] reaches the `return` (no guard rejects an in-range value) and the raw
         number(s) handed to the payload fit the wire field (octets 0..255, struct code range), with the declared
         payload length;
       * every value one resolution step (one unit for integer types) beyond either bound is refused (ValueError /
         ConversionError on every path) — the guard must be in the same units as the declared range;
       * value_min <= value_max, resolution > 0.
     The 16-bit float family (exponent search loop) is checked by its own rule: guard in value units, and the declared
     range needs no more than the 4-bit exponent the packing has room for.
 (c) truncation lint: a scaled value is converted with round(), never int(<true division>), when the resolution is
     not an integer (truncation toward zero can be a whole step off).
 Does not decide the "within one resolution step" arithmetic beyond (c).
"""

from __future__ import annotations

import ast
import math
import struct

from ..astx import call_name, calls, walk_local
from ..intervals import INF, IntervalEval, Iv, NotInFragment
from ..loader import NOFOLD, AnalysisError, Repo
from ..report import Check
from .e1_common import check_entry, engine, finish

CODE_RANGE = {"B": (0, 255), "b": (-128, 127), "H": (0, 65535), "h": (-32768, 32767), "I": (0, 2 ** 32 - 1), "i": (-2 ** 31, 2 ** 31 - 1), "L": (0, 2 ** 32 - 1), "l": (-2 ** 31, 2 ** 31 - 1),
              "Q": (0, 2 ** 64 - 1), "q": (-2 ** 63, 2 ** 63 - 1), "f": (-3.4028234663852886e38, 3.4028234663852886e38), "d": (-INF, INF), "e": (-65504.0, 65504.0)}


def numeric_classes(repo: Repo):
    num = repo.cls("xknx.dpt.dpt", "DPTNumeric")
    out = []
    for c in repo.subclasses(num, strict=True):
        m = repo.lookup_method(c, "to_knx")
        if m is None or any("abstractmethod" in d for d in m.decorators):
            continue
        if repo.const(c, "value_min") is NOFOLD:
            continue
        out.append((c, m))
    return out


def pack_ok(ie: IntervalEval, pack, plen) -> tuple[bool, str]:
    """the value(s) handed to DPTArray fit the wire field and the declared payload length."""
    _, fn, args, env = pack
    if fn != "DPTArray" or len(args) != 1:
        return False, f"payload built by {fn}"
    a = args[0]
    if isinstance(a, ast.Call) and call_name(a) == "struct.pack":
        fmt = ie.const(a.args[0])
        if not isinstance(fmt, str):
            return False, "struct format not constant"
        codes = fmt.lstrip("!<>=@")
        if len(codes) != 1 or codes not in CODE_RANGE:
            return False, f"struct format {fmt}"
        v = ie.ev(a.args[1], env)
        lo, hi = CODE_RANGE[codes]
        size = struct.calcsize(fmt)
        ok = isinstance(v, Iv) and lo <= v.lo and v.hi <= hi and (v.integral or codes in "fde")
        return ok and size == plen, f"struct '{fmt}' ({size} octets, range {lo}..{hi}) receives {v!r}; payload_length {plen}"
    v = ie.ev(a, env)
    if isinstance(v, tuple) and v[0] == "pack" and v[1] == "tuple":
        els = [ie.ev(x, v[3]) for x in v[2]]
        ok = all(isinstance(x, Iv) and x.integral and 0 <= x.lo and x.hi <= 255 for x in els)
        return ok and len(els) == plen, f"octets {els!r}; payload_length {plen}"
    if isinstance(v, Iv):
        return v.integral and 0 <= v.lo and v.hi <= 255 and plen == 1, f"single octet {v!r}; payload_length {plen}"
    return False, f"payload from {v!r}"


def array_refuses_non_octets(repo: Repo) -> bool:
    """DPTArray.__init__ raises ConversionError when an int element is outside 0..255 (read from its body)."""
    ini = repo.func("xknx.dpt.payload", "DPTArray.__init__")
    for n in walk_local(ini.node):
        if isinstance(n, ast.If) and any(isinstance(x, ast.Raise) and "ConversionError" in ast.unparse(x) for x in n.body):
            t = ast.unparse(n.test)
            if "any(" in t and ("not 0 <= octet <= 255" in t or "not 0 <= octet <= 0xFF" in t.replace("0xff", "0xFF")) and "self.value" in t:
                return True
    return False


def pack_refuses(ie: IntervalEval, pack) -> bool:
    """every value on this path is refused by the DPTArray constructor: some octet expression lies wholly outside 0..255"""
    if not (isinstance(pack, tuple) and pack[0] == "pack"):
        return False
    _, fn, args, env = pack
    if fn != "DPTArray" or len(args) != 1:
        return False
    a = args[0]
    if isinstance(a, ast.Call) and call_name(a) == "struct.pack":
        return False
    v = ie.ev(a, env)
    els = [ie.ev(x, v[3]) for x in v[2]] if isinstance(v, tuple) and v[0] == "pack" and v[1] == "tuple" else [v]
    return any(isinstance(x, Iv) and x.integral and (x.lo > 255 or x.hi < 0) for x in els)


def exact_range_predicates(chk: Check, repo: Repo, classes) -> None:
    """`_test_boundaries` is the declared range itself: value_min <= value <= value_max on the argument as given -
    not on a rounded, truncated or absolute copy of it (a value just outside the range that rounds into it would be
    accepted and, for the 16-bit float family, wrap into the sign bit).  Decided on the normalised comparison atoms of the
    returned expression (negations pushed inwards, chains split), so equivalent spellings pass."""
    from ..cfg import CFG
    FLIP = {ast.Lt: ast.Gt, ast.Gt: ast.Lt, ast.LtE: ast.GtE, ast.GtE: ast.LtE}
    NEG = {ast.Lt: ast.GtE, ast.GtE: ast.Lt, ast.Gt: ast.LtE, ast.LtE: ast.Gt}

    def atoms(e: ast.AST, neg: bool) -> list | None:
        """conjunction of (left_text, op_type, right_text); None if not a conjunction of order comparisons"""
        if isinstance(e, ast.UnaryOp) and isinstance(e.op, ast.Not):
            return atoms(e.operand, not neg)
        if isinstance(e, ast.BoolOp) and isinstance(e.op, ast.And if not neg else ast.Or):
            out = []
            for v in e.values:
                a = atoms(v, neg)
                if a is None:
                    return None
                out += a
            return out
        if isinstance(e, ast.Compare) and (not neg or len(e.ops) == 1):
            out = []
            left = e.left
            for op, right in zip(e.ops, e.comparators):
                t = type(op)
                if t not in FLIP:
                    return None
                if neg:
                    t = NEG[t]
                out.append((left, t, right))
                left = right
            return out
        return None
    seen = set()
    for c, _m in classes:
        tb = repo.lookup_method(c, "_test_boundaries")
        if tb is None:
            continue  # struct-packed families: the range is guarded in the encoder body (interval rule above)
        if tb.ref in seen:
            continue
        seen.add(tb.ref)
        chk.unit(tb)
        cfg = CFG(tb.node)
        par = tb.node.args.args[1].arg
        rets = [n for n in cfg.nodes if n.kind == "stmt" and isinstance(n.ast, ast.Return) and n.ast.value is not None]
        ok = len(rets) == 1 and not cfg.falls_off_end()
        detail = "?"
        if ok:
            v = cfg.symbolic(rets[0].id, rets[0].ast.value)
            at = atoms(v, False)
            detail = ast.unparse(v)
            want = set()
            got = set()
            if at is None:
                ok = False
            else:
                for l, t, r in at:
                    lt, rt = ast.unparse(l), ast.unparse(r)
                    if rt == par:  # normalise: parameter on the left
                        lt, rt, t = rt, lt, FLIP[t]
                    got.add((lt, t.__name__, rt))
                want = {(par, "GtE", "cls.value_min"), (par, "LtE", "cls.value_max")}
                ok = got == want
        chk.ob("range-guard-is-the-declared-range", tb.site(), ok, f"{tb.qualname}({par}) returns `{detail}`" + ("" if ok else f" - not exactly `cls.value_min <= {par} <= cls.value_max` on the argument as given"), key=f"range-pred|{tb.qualname}")
    chk.floor("distinct _test_boundaries implementations", len(seen), 2)


def run(chk: Check, repo: Repo) -> None:
    mr = engine(repo)
    classes = numeric_classes(repo)
    chk.floor("concrete numeric DPT classes", len(classes), 150)
    bodies: dict[str, int] = {}
    groups: dict[tuple, list] = {}
    for c, m in classes:
        bodies[m.qualname] = bodies.get(m.qualname, 0) + 1
        sig = (m.qualname,) + tuple(repr(repo.const(c, k)) for k in ("value_min", "value_max", "resolution", "payload_length", "_struct_format"))
        tb = repo.lookup_method(c, "_test_boundaries")
        groups.setdefault(sig + (tb.qualname if tb else "",), []).append((c, m))
    chk.count("encoder signatures (body x constants)", len(groups))
    exact_range_predicates(chk, repo, classes)
    octet_check = array_refuses_non_octets(repo)
    for sig, members in sorted(groups.items(), key=lambda kv: kv[0]):
        c, m = members[0]
        c_names = [k.name for k, _ in members]
        label = f"{m.qualname} as {c.name}" + (f" (+{len(members) - 1} classes with the same constants)" if len(members) > 1 else "")
        check_entry(chk, mr, m, ("ConversionError",), ctx=c, label=label, rule="encoder-refuses-with-conversion-error-only")
        vmin, vmax, res, plen = (repo.const(c, k) for k in ("value_min", "value_max", "resolution", "payload_length"))
        chk.extra.setdefault("signature_members", {})[c.name] = c_names
        site = f"{c.module.relpath}:{c.node.lineno}:{c.name}"
        if not all(isinstance(x, (int, float)) and not isinstance(x, bool) for x in (vmin, vmax, res)) or not isinstance(plen, int):
            raise AnalysisError(f"{c.name}: value_min / value_max / resolution / payload_length do not fold to numbers")
        chk.ob("declared-range-well-formed", site, vmin <= vmax and res > 0, f"{c.name}: value_min={vmin} value_max={vmax} resolution={res}", key=f"wf|{c.name}")
        has_loop = any(isinstance(n, ast.While) for n in walk_local(m.node))
        if has_loop:
            float16(chk, repo, c, m, vmin, vmax, plen)
            continue
        ie = IntervalEval(repo, m, c)
        param = m.node.args.args[1].arg
        try:
            inside = ie.run({param: Iv(vmin, vmax, False)})
        except NotInFragment as u:
            raise AnalysisError(f"{c.name}.to_knx outside the interval fragment: {u}") from u
        rejected = [o for o in inside if o.kind == "raise"]
        returned = [o for o in inside if o.kind == "return"]
        chk.ob("in-range-values-are-accepted", m.site(), not rejected and bool(returned), f"{c.name}: every value in [{vmin}, {vmax}] reaches the return" if not rejected and returned else f"{c.name}: a value in the declared range [{vmin}, {vmax}] is refused ({rejected[0].detail} under {rejected[0].conds[-1:] if rejected[0].conds else ''}) — the guard is not in the units of the declared range" if rejected else f"{c.name}: no returning path", key=f"accept|{c.name}")
        for o in returned:
            ok, why = (pack_ok(ie, o.detail, plen) if isinstance(o.detail, tuple) and o.detail[0] == "pack" else (False, f"returns {o.detail!r}"))
            chk.ob("in-range-values-fit-the-wire-field", m.site(), ok, f"{c.name} over [{vmin}, {vmax}]: {why}", key=f"fit|{c.name}")
        step = res if (isinstance(res, float) and not float(res).is_integer()) else 1
        sides = [("above", None if vmax == INF else Iv(vmax + step, INF, False)), ("below", None if vmin == -INF else Iv(-INF, vmin - step, False))]
        if step == 1:
            # a fraction beyond an integer bound is out of range as well - an encoder that truncates with int() before it
            # compares would clamp 255.9 to 255 instead of refusing it
            # (only where a float can hold a fraction next to the bound: below 2**52)
            if vmax != INF and abs(vmax) < 2 ** 52:
                sides.append(("just above (fraction)", Iv(vmax + 0.25, vmax + 0.75, False)))
            if vmin != -INF and abs(vmin) < 2 ** 52:
                sides.append(("just below (fraction)", Iv(vmin - 0.75, vmin - 0.25, False)))
        for side, iv in sides:
            if iv is None:
                chk.ob("out-of-range-values-are-refused", m.site(), True, f"{c.name}: no value {side} the declared range exists", key=f"refuse|{c.name}|{side}")
                continue
            outs = ie.run({param: iv})
            acc = [o for o in outs if o.kind == "return" and not (octet_check and pack_refuses(ie, o.detail))]  # a return whose octets cannot be octets is the constructor's ConversionError
            bad_exc = [o for o in outs if o.kind == "raise" and o.detail not in ("ConversionError",)]
            chk.ob("out-of-range-values-are-refused", m.site(), not acc and not bad_exc, f"{c.name}: values {side} the declared range ({iv!r}) " + ("are all refused with ConversionError" if not acc and not bad_exc else f"can be accepted (path {acc[0].conds}) — the bound is compared in different units than it is declared" if acc else f"raise {bad_exc[0].detail}"), key=f"refuse|{c.name}|{side}")
        # truncation lint
        for call in calls(m.node):
            if call_name(call) == "int" and call.args and any(isinstance(x, ast.BinOp) and isinstance(x.op, ast.Div) for x in ast.walk(call.args[0])):
                nonint = isinstance(res, float) and not float(res).is_integer()
                chk.ob("scaled-value-is-rounded-not-truncated", m.site(call), not nonint, f"{c.name}: `{ast.unparse(call)}` with resolution {res}" + (" truncates toward zero: e.g. 0.29 / 0.01 = 28.999.. encodes one step low" if nonint else " (integer resolution: the quotient of two integers' floats is exact below 2**53)"), key=f"trunc|{c.name}")
        # ... and a value is scaled to the nearest step, not the next lower one: floor division by a resolution above 1
        # encodes 19 (x 10 ms) as 1 step = 10 - the nearest representable value is 20
        for fd in [x for x in walk_local(m.node) if isinstance(x, ast.BinOp) and isinstance(x.op, ast.FloorDiv)]:
            r_ = repo.fold(fd.right, m.module, c)
            coarse = isinstance(r_, (int, float)) and not isinstance(r_, bool) and r_ > 1
            chk.ob("scaled-value-is-rounded-not-truncated", m.site(fd), not coarse, f"{c.name}: `{ast.unparse(fd)}` with resolution {r_}" + (" rounds down to the next lower step instead of to the nearest representable value" if coarse else " (unit resolution: nothing to round)"), key=f"floor|{m.qualname}|{r_}")
    chk.count("distinct encoder bodies", len(bodies))
    chk.extra["encoder_bodies"] = bodies
    chk.rule("E1 may-raise analysis of every numeric to_knx; E8 interval abstract interpretation of the encoder body over the declared range and one step beyond, with class constants folded; truncation lint")
    finish(chk, mr)


def float16(chk: Check, repo: Repo, c, m, vmin, vmax, plen) -> None:
    """KNX 16-bit float: value*k halved until it fits the signed mantissa; exponent bits next to the sign bit.
    All constants are read from the encoder body (loop bounds, mask, scale, shift)."""
    whiles = [n for n in walk_local(m.node) if isinstance(n, ast.While)]
    guard = [n for n in walk_local(m.node) if isinstance(n, ast.If) and "_test_boundaries" in ast.unparse(n.test) and any(isinstance(x, ast.Raise) for x in n.body)]
    scale = [n for n in walk_local(m.node) if isinstance(n, ast.Assign) and isinstance(n.value, ast.BinOp) and isinstance(n.value.op, ast.Mult) and isinstance(n.value.right, ast.Constant) and isinstance(n.value.left, ast.Name)]
    if len(whiles) != 1 or len(guard) != 1 or not scale:
        raise AnalysisError(f"{c.name}.to_knx: 16-bit float encoder not recognised (loops {len(whiles)}, guards {len(guard)})")
    w = whiles[0]
    t = w.test
    if not (isinstance(t, ast.UnaryOp) and isinstance(t.op, ast.Not) and isinstance(t.operand, ast.Compare) and len(t.operand.ops) == 2 and isinstance(t.operand.comparators[0], ast.Name)):
        raise AnalysisError(f"{c.name}.to_knx: loop condition `{ast.unparse(t)}` not recognised")
    var = t.operand.comparators[0].id
    lo = repo.fold(t.operand.left, m.module, c)
    hi = repo.fold(t.operand.comparators[1], m.module, c)
    op_lo, op_hi = t.operand.ops
    body_txt = [ast.unparse(x) for x in w.body]
    halves = any(bt in (f"{var} /= 2", f"{var} = {var} / 2") for bt in body_txt)
    evar = next((x.target.id for x in w.body if isinstance(x, ast.AugAssign) and isinstance(x.op, ast.Add) and isinstance(x.target, ast.Name) and ast.unparse(x.value) == "1"), None)
    # the rounded mantissa and the mask that cuts it to the field: `round(v) & K`, or a local holding round(v) that is
    # masked later (`m = round(v) ... m &= K`)
    rounded = {n.targets[0].id for n in walk_local(m.node) if isinstance(n, ast.Assign) and len(n.targets) == 1 and isinstance(n.targets[0], ast.Name) and isinstance(n.value, ast.Call) and call_name(n.value) == "round" and n.value.args and ast.unparse(n.value.args[0]) == var}
    masks = [n for n in walk_local(m.node) if isinstance(n, ast.BinOp) and isinstance(n.op, ast.BitAnd) and isinstance(n.left, ast.Call) and call_name(n.left) == "round" and ast.unparse(n.left.args[0]) == var]
    masks += [ast.BinOp(left=n.target, op=ast.BitAnd(), right=n.value) for n in walk_local(m.node) if isinstance(n, ast.AugAssign) and isinstance(n.op, ast.BitAnd) and isinstance(n.target, ast.Name) and n.target.id in rounded]
    shifts = [n for n in walk_local(m.node) if isinstance(n, ast.BinOp) and isinstance(n.op, ast.LShift) and isinstance(n.left, ast.Name) and n.left.id == evar]
    if not (isinstance(lo, (int, float)) and isinstance(hi, (int, float)) and halves and evar and len(masks) == 1 and len(shifts) == 1):
        raise AnalysisError(f"{c.name}.to_knx: 16-bit float encoder constants not recognised")
    mask = repo.fold(masks[0].right, m.module, c)
    sh = repo.fold(shifts[0].right, m.module, c)
    k = scale[0].value.right.value
    mbits = int(mask).bit_length()
    # loop exit range of the mantissa candidate, and what round() can make of it
    r_lo = round(lo) if isinstance(op_lo, ast.LtE) else math.floor(lo) + 0  # `lo < x`: round(x) >= round(lo) as well
    r_hi = round(hi) if isinstance(op_hi, ast.LtE) else (hi if float(hi).is_integer() else round(hi))  # `x < hi` with integral hi: round(x) can reach hi
    # the sign is carried by its own bit (`if x < 0: msb |= 0x80`), the masked field holds the low bits of the
    # two's-complement value: together a (mbits + 1)-bit signed number
    sign = any(isinstance(n, ast.If) and ast.unparse(n.test) == f"{var} < 0" and any(isinstance(x, ast.AugAssign) and isinstance(x.op, ast.BitOr) and repo.fold(x.value, m.module, c) == 0x80 for x in n.body) for n in walk_local(m.node))
    fits = sign and -(1 << mbits) <= r_lo and r_hi <= (1 << mbits) - 1 and mask == (1 << mbits) - 1
    chk.ob("mantissa-fits-its-field-after-rounding", m.site(w), fits, f"{c.name}: the search loop exits with {lo} {'<=' if isinstance(op_lo, ast.LtE) else '<'} {var} {'<=' if isinstance(op_hi, ast.LtE) else '<'} {hi}; round({var}) can reach {r_lo}..{r_hi}; the mantissa field `& {mask:#x}` plus the sign bit holds {-(1 << mbits)}..{(1 << mbits) - 1}" + ("" if fits else " — a rounded mantissa outside the field is masked to a different value (e.g. 2048 -> 0)"), key=f"mantissa|{c.name}" if not fits else f"mantissa|{m.qualname}")
    # rounding the mantissa at the declared limits must not leave the declared range: the decoder of the same class
    # refuses a payload beyond it (and 0x7FFF is the code for invalid data).  Arithmetic on the extracted constants; where
    # plain rounding would overshoot, the encoder has to pull the mantissa back (a statement comparing the scaled mantissa
    # with the class limit and stepping the mantissa).
    def encoded(v: float) -> float:
        x, e_ = v * k, 0
        while not ((lo <= x if isinstance(op_lo, ast.LtE) else lo < x) and (x <= hi if isinstance(op_hi, ast.LtE) else x < hi)):
            x /= 2
            e_ += 1
        return round(x) * (2 ** e_) / k
    over = [(b, encoded(b)) for b in (vmax, vmin) if (encoded(b) > vmax or encoded(b) < vmin)]
    pulls = {"max": False, "min": False}
    for n in walk_local(m.node):
        if isinstance(n, ast.If) and any(isinstance(x, ast.AugAssign) and isinstance(x.target, ast.Name) and x.target.id in rounded for x in n.body):
            t_ = ast.unparse(n.test)
            if "cls.value_max" in t_ and ("<<" in t_ or "**" in t_):
                pulls["max"] = True
            if "cls.value_min" in t_ and ("<<" in t_ or "**" in t_):
                pulls["min"] = True
    need_max = any(b == vmax for b, _ in over)
    need_min = any(b == vmin for b, _ in over)
    ok_pull = (not need_max or pulls["max"]) and (not need_min or pulls["min"])
    chk.ob("rounding-stays-inside-the-declared-range", m.site(), ok_pull, f"{c.name}: plain rounding at the limits gives {[(b, round(v_, 2)) for b, v_ in over] or 'values inside the range'}" + ("" if not over else ("; the encoder pulls the mantissa back inside" if ok_pull else " - a payload its own decoder refuses (beyond the declared range)")), key=f"round-in-range|{c.name}")
    garg = ast.unparse(guard[0].test)
    units_ok = garg in ("not cls._test_boundaries(value)",)
    chk.ob("in-range-values-are-accepted", m.site(), units_ok, f"{c.name}: range guard `{garg}` is applied to the value itself (declared units)", key=f"accept|{c.name}")
    ebits = 8 - 1 - int(sh)  # sign bit, exponent, upper mantissa bits share the first octet
    pos_lim, neg_lim = (hi if isinstance(op_hi, ast.LtE) else hi), -lo
    need_hi = 0 if vmax <= 0 else max(0, math.ceil(math.log2(max(vmax * k / pos_lim, 1))))
    need_lo = 0 if vmin >= 0 else max(0, math.ceil(math.log2(max(-vmin * k / neg_lim, 1))))
    need = max(need_hi, need_lo)
    chk.ob("in-range-values-fit-the-wire-field", m.site(), need <= (1 << ebits) - 1 and plen == 2 and mbits + ebits + 1 == 16, f"{c.name}: [{vmin}, {vmax}] x {k} needs exponent {need} of the {ebits}-bit field (max {(1 << ebits) - 1}); sign + {ebits} + {mbits} bits; payload_length {plen}", key=f"fit|{c.name}")
    chk.ob("out-of-range-values-are-refused", m.site(), units_ok, f"{c.name}: values beyond the declared range fail the same guard and are refused", key=f"refuse|{c.name}|both")
