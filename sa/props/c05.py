"""C05 — decoded application PDUs re-encode to the same octets (reserved bits aside).

E2 bit-provenance, W∘R: for every service class, every accepting path of `from_knx` over a symbolic APDU (input
octet k bit j = `in:k.j`, length L) is fed into `to_knx` of the decoded object; the output is compared with the
input bit by bit:
  * every output bit is the input bit at the same position, or an APCI-code bit the dispatcher fixed, or a constant
    at a position the reserved-bit oracle (oracles/reserved_bits.json, written from the KNX specification) lists
    for that service;
  * variable-length parts are the input octets at the same offsets; total length == L on the path's constraints;
  * `calculated_length()` == encoded length - 1;
  * the decoded fields are functions of the non-dropped bits only (they are, by construction of the comparison) and
    every field type compares by value (class-table rule), so decoding the re-encoded octets gives an equal object.
The writer may refuse a decoded value (range guard tighter than the reader's image): the property is conditional on
"can be encoded again".
"""

from __future__ import annotations

import ast
import json
from pathlib import Path

from ..loader import NOFOLD, AnalysisError, EnumMember, Repo
from ..report import Check
from ..sereval import BV, Blob, Bytes, Lin, Obj, EnumV, ListV, SerEval, Unsupported
from .apci_common import M, class_fields, compare_with_input, dispatch_masks, is_stub, service_classes, encoders_return_fresh_buffers

ORACLE = Path(__file__).resolve().parent.parent.parent / "oracles" / "reserved_bits.json"


def value_equality(chk: Check, repo: Repo, ev: SerEval) -> None:
    """'decodes to an equal service object' needs == to be a value relation on every field type."""
    seen: set[str] = set()

    def has_eq(ci) -> bool:
        if repo.is_enum(ci):
            return True
        for c in repo.mro(ci):
            if "__eq__" in c.methods:
                return True
            if any("dataclass" in ast.unparse(d) and "eq=False" not in ast.unparse(d) for d in c.node.decorator_list):
                return True
        return any(b in ("NamedTuple", "tuple", "int", "str", "bytes") for b in repo.ext_base_names(ci))

    for c in service_classes(repo):
        for name, ann, _ in class_fields(repo, c):
            for part in [p.strip() for p in ann.replace("list[", "").replace("]", "").split("|")]:
                if part in ("int", "bool", "bytes", "None", "str", "float", "bytearray") or part in seen:
                    continue
                ci = ev.cls_of(part, c.module)
                if ci is None:
                    continue
                seen.add(part)
                chk.ob("field-type-compares-by-value", f"{ci.module.relpath}:{ci.node.lineno}:{ci.name}", has_eq(ci), f"{ci.name} (type of {c.name}.{name}) {'defines value equality' if has_eq(ci) else 'inherits identity equality from object: two decodings of the same octets compare unequal'}", key=f"eq|{ci.name}")


def run(chk: Check, repo: Repo) -> None:
    ev = SerEval(repo)
    oracle = json.loads(ORACLE.read_text())["reserved"]
    masks = dispatch_masks(repo)
    classes = service_classes(repo)
    stale = encoders_return_fresh_buffers(chk, repo, classes)
    chk.floor("APCI service classes", len(classes), 80)
    n_paths = n_cls = 0
    table: dict[str, list] = {}
    for c in classes:
        if c.name in stale:
            continue  # reported by encoder-returns-a-buffer-of-its-own
        if is_stub(repo, c):
            chk.ob("not-implemented-stub", f"{c.module.relpath}:{c.node.lineno}:{c.name}", True, f"{c.name}: from_knx / to_knx are not-implemented stubs (nothing to round-trip)", key=f"stub|{c.name}")
            continue
        code = repo.const(c, "CODE")
        if not isinstance(code, EnumMember) or c.name not in masks:
            raise AnalysisError(f"{c.name}: CODE / dispatch arm not found")
        mask, codes = masks[c.name]
        fk, tk, cl = c.methods["from_knx"], c.methods["to_knx"], repo.lookup_method(c, "calculated_length")
        chk.unit(fk); chk.unit(tk)

        def fn(run_, c=c, fk=fk, tk=tk, cl=cl):
            run_.cons.iv["L"] = [2, 255]  # the dispatcher rejects shorter APDUs; an APDU is at most 255 octets
            raw = Bytes((Blob("in", Lin(0), Lin(0, {"L": 1})),))
            o = ev.call_function(fk, [raw], {}, run_, ctx=c)
            run_.notes.append("#decoded")
            out = ev.call_function(tk, [], {}, run_, self_val=o, ctx=c)
            ln = ev.call_function(cl, [], {}, run_, self_val=o, ctx=c) if cl is not None else None
            return o, out, ln

        try:
            paths = ev.paths(fn)
        except Unsupported as u:
            raise AnalysisError(f"{c.name}: codec outside the analysed fragment: {u}") from u
        n_cls += 1
        allowed = {(o_, b) for o_, m_ in oracle.get(c.name, []) for b in range(8) if (m_ >> b) & 1}
        accepted = 0
        for outcome, val, r in paths:
            if outcome != "return":
                # reader rejections are C04's business; a writer refusal after a successful decode is allowed
                continue
            accepted += 1
            n_paths += 1
            o, out, ln = val
            L = r.cons.interval("L")
            desc = f"{c.name} [L in {L[0]}..{L[1] if L[1] != float('inf') else ''}{', ' + '; '.join(n for n in r.notes if n.startswith('branch')) if any(n.startswith('branch') for n in r.notes) else ''}]"
            problems, dropped = compare_with_input(ev, r, out, code.value, mask)
            lossy = [n for n in r.notes if n.startswith("LOSSY")]
            key_path = f"{c.name}|L={L[0]}..{L[1]}|{len([n for n in r.notes if n.startswith('branch')])}"
            chk.ob("reencoded-octets-equal-received", tk.site(), not problems and not lossy, f"{desc}: {'every output bit is the received bit at its position (or a dispatcher-fixed code bit)' if not problems and not lossy else '; '.join(problems + lossy)}", key=f"w∘r|{key_path}" + ("" if not problems and not lossy else "|" + ";".join(problems + lossy)[:200]))
            bad = sorted({(o_, b) for o_, b, _ in dropped} - allowed)
            if dropped:
                table.setdefault(c.name, []).append(sorted({(o_, b) for o_, b, _ in dropped}))
            chk.ob("dropped-bits-are-reserved", fk.site(), not bad, f"{desc}: received bits not carried into the re-encoding: {sorted({(o_, b) for o_, b, _ in dropped}) or 'none'}; reserved per oracle: {sorted(allowed) or 'none'}" + (f" — NOT reserved: {bad}" if bad else ""), key=f"dropped|{c.name}|{bad}" if bad else f"dropped|{key_path}")
            # calculated_length
            if ln is not None:
                enc = ev.length(out, r)
                d = r.cons.norm(ev.to_lin(ln, r) + 1 - enc)
                chk.ob("calculated-length-is-encoded-length-minus-one", cl.site(), d == Lin(0), f"{desc}: calculated_length() = {ln}, encoded length = {enc}", key=f"len|{key_path}" + ("" if d == Lin(0) else f"|{ln}|{enc}"))
        if not accepted:
            chk.ob("reader-accepts-something", fk.site(), False, f"{c.name}: no accepting path of from_knx found", key=f"accept|{c.name}")
    chk.count("service classes analysed", n_cls)
    chk.count("accepting reader paths composed with the writer", n_paths)
    chk.extra["dropped_bits_by_class"] = {k: v for k, v in sorted(table.items())}
    value_equality(chk, repo, ev)
    chk.rule("E2 bit-provenance evaluation of from_knx then to_knx over symbolic APDUs (every path), compared bit by bit against the input and the reserved-bit oracle; symbolic length algebra; class-table rule for value equality of field types")
    chk.assume("reserved-bit oracle oracles/reserved_bits.json (KNX AL 03.03.07 / 03.05.02, as cited in the class docstrings); the upper six bits of octet 0 carry transport control and are outside the APDU (C13)")
