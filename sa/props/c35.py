"""C35 — state updater reads exactly when its tracking policy says (structural part).

Decision tables by abstract path enumeration:
 * _StateTracker.start / _start_init / reset / stop / update_received / one iteration of _update_loop over the
   three tracker types: one read per (re)start; INIT never enters the update loop; only EXPIRE is reset by a
   received update; the loop sleeps the configured interval before each read; the task slot is cancelled
   before it is re-created (never two tasks per tracker).
 * StateUpdater.connection_state_change_callback / start / stop / _start / _stop / update_received /
   register / unregister over {connection state} x {started}: trackers run only while connected, are
   stopped on every other state, an unregistered value's tracker is stopped, a value registered while
   running is started.
 * every read issued by the updater is inside `async with self._semaphore`, a Semaphore(value=parallel_reads)
   whose default (and the only value the library passes) is 2.
Does not decide the read times themselves (virtual-time histories).
"""

from __future__ import annotations

import ast
from itertools import product

from ..absmachine import AbsMachine, ADict, AList, Obj, Outcome, Raise, UNKNOWN, class_isinstance
from ..astx import attr_writes, call_name, call_sites, calls, enclosing_with_items, method_name, walk_local
from ..cfg import CFG
from ..exctable import ExcTable
from ..explore import Explorer
from ..loader import NOFOLD, AnalysisError, EnumMember, Repo
from ..report import Check, canon

M = "xknx.core.state_updater"
TT = f"{M}:StateTrackerType"
CS = "xknx.core.connection_state:XknxConnectionState"


def enum_hook(repo, fi):
    def hook(e, env):
        if isinstance(e, ast.Attribute):
            v = repo.fold(e, fi.module, fi.cls)
            if isinstance(v, EnumMember):
                return v
        return UNKNOWN
    return hook


def _run(repo, fi, cm, env, start=None, stops=()):
    cfg = CFG(fi.node)
    am = AbsMachine(cfg, ExcTable(repo), cm, enum_hook(repo, fi))
    am.isinstance_fn = class_isinstance(repo)
    return cfg, Explorer(cfg, repo, am.step).run(cfg.entry if start is None else start(cfg), list(stops(cfg)) if callable(stops) else [], env)


def tracker(chk: Check, repo: Repo) -> None:
    types = list(repo.enum_members(repo.cls(M, "StateTrackerType")))
    chk.ob("tracker-types", f"{M}:StateTrackerType", sorted(types) == ["EXPIRE", "INIT", "PERIODICALLY"], f"StateTrackerType members {types}", key="tracker-types")

    def cm(c, env):
        n = call_name(c)
        if n == "self.stop":
            return [Outcome("STOP", None)]
        if n == "self.reset":
            return [Outcome("RESET", None)]
        if n == "asyncio.create_task":
            return [Outcome(f"CREATE_TASK({ast.unparse(c.args[0])})", Obj("Task", "new"))]
        if n == "self._read_state":
            return [Outcome("READ", None)]
        if n == "self._task.cancel":
            return [Outcome("CANCEL", None)]
        if n == "asyncio.sleep":
            return [Outcome(f"SLEEP({ast.unparse(c.args[0])})", None)]
        if n in ("self._start_init", "self._update_loop"):
            return [Outcome(None, Obj("coro", n))]
        return None

    T = lambda q: repo.func(M, f"_StateTracker.{q}")
    for q, want in (("start", ("STOP", "CREATE_TASK(self._start_init())")), ("reset", ("STOP", "CREATE_TASK(self._update_loop())"))):
        f = T(q); chk.unit(f)
        cfg, paths = _run(repo, f, cm, {"self._task": Obj("Task", "old")})
        got = {(tuple(p.env.get("trace", ())), repr(p.env.get("self._task"))) for p in paths}
        chk.ob("tracker-slot", f.site(), got == {(want, repr(Obj("Task", "new")))}, f"_StateTracker.{q}: {sorted(got)}; reference stop() then one new task", key=f"tracker|{q}")
    f = T("stop"); chk.unit(f)
    for running in (False, True):
        cfg, paths = _run(repo, f, cm, {"self._task": Obj("Task", "old") if running else None})
        got = {(tuple(p.env.get("trace", ())), repr(p.env.get("self._task"))) for p in paths}
        chk.ob("tracker-slot", f.site(), got == {((("CANCEL",) if running else ()), "None")}, f"_StateTracker.stop running={running}: {sorted(got)}", key=f"tracker|stop|{running}")
    f = T("_start_init"); chk.unit(f)
    for t in types:
        cfg, paths = _run(repo, f, cm, {"self.tracker_type": EnumMember(TT, t)})
        got = {tuple(p.env.get("trace", ())) for p in paths}
        want = {("READ",)} if t == "INIT" else {("READ", "RESET")}
        chk.ob("initial-read-then-policy", f.site(), got == want, f"_start_init type={t}: {sorted(got)}; reference {sorted(want)}", key=f"tracker|_start_init|{t}")
        # the task cancelled (stop / disconnect / unregister) while its read is under way or queued must start nothing:
        # stop() has already cleared the slot, so a task created now would be an orphan nobody can cancel
        def cm_cancel(c, env):
            if call_name(c) == "self._read_state":
                return [Outcome("READ:cancelled", Raise("CancelledError"))]
            return cm(c, env)
        cfg, paths = _run(repo, f, cm_cancel, {"self.tracker_type": EnumMember(TT, t)})
        gotc = {(tuple(x for x in p.env.get("trace", ()) if not x.startswith("raise:")), p.end_kind) for p in paths}
        chk.ob("cancelled-tracker-starts-nothing", f.site(), gotc == {(("READ:cancelled",), "raise")}, f"_start_init type={t}, cancelled during the read: {sorted(gotc)}; reference: the cancellation propagates and nothing else happens", key=f"tracker|_start_init|cancel|{t}")
    f = T("update_received"); chk.unit(f)
    for t in types:
        cfg, paths = _run(repo, f, cm, {"self.tracker_type": EnumMember(TT, t)})
        got = {tuple(p.env.get("trace", ())) for p in paths}
        want = {("RESET",)} if t == "EXPIRE" else {()}
        chk.ob("update-resets-only-expire", f.site(), got == want, f"update_received type={t}: {sorted(got)}; reference {sorted(want)}", key=f"tracker|update_received|{t}")
    f = T("_update_loop"); chk.unit(f)
    cfg = CFG(f.node)
    heads = [n for n in cfg.nodes if n.kind == "join" and isinstance(n.ast, ast.While) and any(l in ("loop", "continue") for _, l in n.pred)]
    if len(heads) != 1:
        raise AnalysisError("_update_loop: loop not found")
    am = AbsMachine(cfg, ExcTable(repo), cm)
    it = {(tuple(p.env.get("trace", ())), "head" if p.end == heads[0].id else p.end_kind) for p in Explorer(cfg, repo, am.step).run(heads[0].id, [heads[0].id], {})}
    for victim in ("asyncio.sleep", "self._read_state"):
        def cm_cancel2(c, env, victim=victim):
            if call_name(c) == victim:
                return [Outcome("CANCELLED", Raise("CancelledError"))]
            return cm(c, env)
        am2 = AbsMachine(cfg, ExcTable(repo), cm_cancel2)
        itc = {(tuple(x for x in p.env.get("trace", ()) if not x.startswith("raise:") and not x.startswith("SLEEP")), p.end_kind) for p in Explorer(cfg, repo, am2.step).run(heads[0].id, [heads[0].id], {})}
        chk.ob("cancelled-tracker-starts-nothing", f.site(), itc == {(("CANCELLED",), "raise")}, f"_update_loop cancelled in {victim}: {sorted(itc)}; reference: the cancellation propagates and nothing else happens", key=f"tracker|_update_loop|cancel|{victim}")
    chk.ob("update-loop-iteration", f.site(), it == {(("SLEEP(self.update_interval)", "READ"), "head")}, f"one iteration of _update_loop: {sorted(it)}; reference sleep(update_interval) then read, forever", key="tracker|_update_loop")
    ini = T("__init__"); chk.unit(ini)
    asg = [n for n in walk_local(ini.node) if isinstance(n, ast.Assign) and ast.unparse(n.targets[0]) == "self.update_interval"]
    chk.ob("interval-in-seconds", ini.site(), len(asg) == 1 and ast.unparse(asg[0].value) == "tracker_options.update_interval_min * 60", "update_interval = update_interval_min * 60 (minutes to seconds)", key="tracker|interval")
    ws = [w for w in attr_writes(repo, "_task", include_mutators=False) if w.func.cls is not None and w.func.cls.name == "_StateTracker"]
    chk.ob("tracker-slot-writers", ini.site(), sorted(w.func.name for w in ws) == ["__init__", "reset", "start", "stop"], f"_StateTracker._task writers: {sorted(w.func.name for w in ws)}", key="tracker|writers")
    creators = sorted((f_.qualname, ast.unparse(c.args[0])) for f_ in repo.all_functions() if f_.module.name == M for c in calls(f_.node) if call_name(c) == "asyncio.create_task")
    chk.ob("update-loop-only-from-reset", ini.site(), creators == [("_StateTracker.reset", "self._update_loop()"), ("_StateTracker.start", "self._start_init()")], f"tasks created in the module: {creators}", key="tracker|creators")


def updater(chk: Check, repo: Repo) -> None:
    S = lambda q: repo.func(M, f"StateUpdater.{q}")
    w1, w2 = Obj("_StateTracker", "w1"), Obj("_StateTracker", "w2")
    workers = ADict(((11, w1), (22, w2)))

    def cm(c, env):
        n = call_name(c)
        if n in ("self._start", "self._stop"):
            return [Outcome(n.split(".")[1].upper(), None)]
        if isinstance(c.func, ast.Attribute) and c.func.attr in ("start", "stop", "update_received"):
            recv = box["am"].ev(c.func.value, env, {}) if "am" in box else None
            if isinstance(recv, Obj) and recv.cls == "_StateTracker":
                return [Outcome(f"{c.func.attr}:{recv.tag}", None)]
        if n == "id":
            return [Outcome(None, env.get("#id", 11))]
        if n.endswith("register_connection_state_changed_cb"):
            return [Outcome("REGISTER_CB" if "unregister" not in n else "UNREGISTER_CB", None)]
        if n.startswith("logger."):
            return [Outcome(None, None)]
        return None

    box = {}
    def run(fi, env):
        cfg = CFG(fi.node)
        am = AbsMachine(cfg, ExcTable(repo), cm, enum_hook(repo, fi))
        box["am"] = am
        return cfg, Explorer(cfg, repo, am.step).run(cfg.entry, [], env)

    states = list(repo.enum_members(repo.cls("xknx.core.connection_state", "XknxConnectionState")))
    f = S("connection_state_change_callback"); chk.unit(f)
    for st, started in product(states, (False, True)):
        cfg, paths = run(f, {"state": EnumMember(CS, st), "self.started": started})
        got = {tuple(p.env.get("trace", ())) for p in paths}
        want = {("_START",)} if (st == "CONNECTED" and not started) else ({("_STOP",)} if (st != "CONNECTED" and started) else {()})
        chk.ob("run-only-while-connected", f.site(), got == want, f"state={st} started={started}: {sorted(got)}; reference {sorted(want)}", key=f"updater|cb|{st}|{started}")
    for q, flag, ev in (("_start", True, "start"), ("_stop", False, "stop")):
        f = S(q); chk.unit(f)
        cfg, paths = run(f, {"self._workers": workers, "self.started": not flag})
        got = {(tuple(p.env.get("trace", ())), p.env.get("self.started")) for p in paths}
        chk.ob("start-stop-all-trackers", f.site(), got == {((f"{ev}:w1", f"{ev}:w2"), flag)}, f"{q}: {sorted(map(str, got))}; reference every tracker {ev}ed and started={flag}", key=f"updater|{q}")
    f = S("start"); chk.unit(f)
    for st in states:
        cfg, paths = run(f, {"self.xknx.connection_manager.state": EnumMember(CS, st)})
        got = {tuple(p.env.get("trace", ())) for p in paths}
        want = {("REGISTER_CB", "_START")} if st == "CONNECTED" else {("REGISTER_CB",)}
        chk.ob("start-only-when-connected", f.site(), got == want, f"start() with connection state {st}: {sorted(got)}; reference {sorted(want)}", key=f"updater|start|{st}")
    f = S("stop"); chk.unit(f)
    cfg, paths = run(f, {})
    chk.ob("stop-stops-all", f.site(), {tuple(p.env.get("trace", ())) for p in paths} == {("UNREGISTER_CB", "_STOP")}, "stop(): unregisters the connection callback and stops every tracker", key="updater|stop")
    f = S("update_received"); chk.unit(f)
    for started, registered in product((False, True), repeat=2):
        cfg, paths = run(f, {"self.started": started, "self._workers": workers, "#id": 11 if registered else 99})
        got = {tuple(p.env.get("trace", ())) for p in paths}
        want = {("update_received:w1",)} if (started and registered) else {()}
        chk.ob("update-delegated-when-running", f.site(), got == want, f"update_received started={started} registered={registered}: {sorted(got)}; reference {sorted(want)}", key=f"updater|update|{started}|{registered}")
    f = S("unregister_remote_value"); chk.unit(f)
    cfg, paths = run(f, {"self._workers": workers, "#id": 11})
    got = {(tuple(p.env.get("trace", ())), repr(p.env.get("self._workers"))) for p in paths}
    chk.ob("unregister-stops-tracker", f.site(), got == {(("stop:w1",), repr(ADict(((22, w2),))))}, f"unregister_remote_value: {sorted(got)}; reference: the popped tracker is stopped", key="updater|unregister")
    # register: start iff running; read inside the semaphore
    f = S("register_remote_value"); chk.unit(f)
    nested = {n.name: n for n in repo.nested_functions(f)}
    rs = nested.get("read_state_mutex")
    ok = rs is not None
    if ok:
        c2 = CFG(rs.node)
        reads = [n for n in c2.nodes if n.kind == "stmt" and n.ast is not None and any(method_name(c) == "read_state" for c in calls(n.ast))]
        ok = len(reads) == 1 and "self._semaphore" in enclosing_with_items(reads[0].withs)
    chk.ob("read-inside-semaphore", f.site(), ok, "the read issued for a tracker is inside `async with self._semaphore`", key="updater|semaphore-scope")
    # only the bus read itself may be shielded from cancellation: a shielded wait for an idle bus would outlive a
    # cancelled tracker (read while disconnected / for an unregistered value / more than two reads in progress)
    rv_param = f.node.args.args[1].arg
    ok_sh = rs is not None
    detail = "read_state_mutex not found"
    if rs is not None:
        c2 = CFG(rs.node)
        shields = [c for n in c2.nodes if n.ast is not None and n.kind == "stmt" for c in calls(n.ast) if call_name(c) == "asyncio.shield"]
        args = [ast.unparse(c.args[0]) if c.args else "" for c in shields]
        joins = [n for n in c2.nodes if n.kind == "stmt" and n.ast is not None and any(call_name(c).endswith("outgoing_queue.join") for c in calls(n.ast))]
        ok_sh = all(a.startswith(f"{rv_param}.read_state(") for a in args) and len(shields) <= 1 and len(joins) == 1 and "self._semaphore" in enclosing_with_items(joins[0].withs) and not any(call_name(c) == "asyncio.shield" for c in calls(joins[0].ast))
        awaited_helpers = [ast.unparse(a.value) for n in c2.nodes if n.ast is not None and n.kind == "stmt" for a in ast.walk(n.ast) if isinstance(a, ast.Await) and isinstance(a.value, ast.Call) and isinstance(a.value.func, ast.Name)]
        ok_sh = ok_sh and not awaited_helpers
        detail = f"shielded: {args}; bus-idle wait awaited directly inside the semaphore: {len(joins) == 1}; awaited local helpers: {awaited_helpers}"
    chk.ob("only-the-read-is-shielded", f.site(), ok_sh, detail, key="updater|shield-scope")
    # ... but a shielded read inside a cancellable tracker task has two consequences of its own (both known findings):
    if rs is not None:
        sh_in_sem = [c for n in c2.nodes if n.ast is not None and n.kind == "stmt" and "self._semaphore" in enclosing_with_items(n.withs) for c in calls(n.ast) if call_name(c) == "asyncio.shield"]
        releases_itself = False  # would need the shielded coroutine to own the slot (acquire/release inside it)
        for c in sh_in_sem:
            inner = c.args[0] if c.args else None
            if isinstance(inner, ast.Call) and isinstance(inner.func, ast.Name):
                helper = next((g for g in repo.nested_functions(rs) if g.name == inner.func.id), None)
                if helper is not None and any(call_name(x).endswith("_semaphore.release") for x in calls(helper.node)):
                    releases_itself = True
        ok1 = not sh_in_sem or releases_itself
        chk.ob("slot-is-held-until-the-read-is-over", rs.site(sh_in_sem[0]) if sh_in_sem else rs.site(), ok1, "the semaphore slot is released by whoever finishes the read" if ok1 else "the read is `asyncio.shield`ed inside `async with self._semaphore` of the tracker task: when that task is cancelled while its read is outstanding (a telegram for an `expire` value, an unregistration, a disconnect) the `async with` exits and frees the slot although the shielded read still waits for its answer — a third (fourth ...) read starts: more than two reads in progress", key="updater|shielded-read-outlives-its-slot")
        rechecks = False
        for c in sh_in_sem:
            inner = c.args[0] if c.args else None
            if isinstance(inner, ast.Call) and isinstance(inner.func, ast.Name):
                helper = next((g for g in repo.nested_functions(rs) if g.name == inner.func.id), None)
                if helper is not None and any(isinstance(x, ast.If) for x in walk_local(helper.node)):
                    rechecks = True
        ok2 = not sh_in_sem or rechecks
        chk.ob("no-read-after-the-tracker-was-stopped", rs.site(sh_in_sem[0]) if sh_in_sem else rs.site(), ok2, "the shielded read re-checks that its tracker is still the active one before it sends" if ok2 else "`asyncio.shield(<read>)` starts the read in a new task on a later loop pass and nothing re-checks the tracker then: a tracker stopped in between (disconnect, unregistration, state update at the expiry instant) still issues its read — a read while disconnected / for an unregistered value", key="updater|shielded-read-starts-after-stop")
    other_reads = [(g.qualname) for g in repo.all_functions() if g.module.name == M for c in calls(g.node) if method_name(c) == "read_state" and not g.qualname.endswith("read_state_mutex")]
    chk.ob("read-inside-semaphore", f.site(), not other_reads, f"other read_state call sites in the updater: {other_reads}", key="updater|other-reads")
    trk = [c for c in calls(f.node) if call_name(c) == "_StateTracker"]
    kw = {k.arg: ast.unparse(k.value) for c in trk for k in c.keywords}
    chk.ob("tracker-gets-mutex-read", f.site(), kw.get("read_state_awaitable") == "read_state_mutex", f"_StateTracker({kw})", key="updater|tracker-read")
    cfgf = CFG(f.node)
    mf = cfgf.must_facts()
    tvars = {n.targets[0].id for n in walk_local(f.node) if isinstance(n, ast.Assign) and len(n.targets) == 1 and isinstance(n.targets[0], ast.Name) and isinstance(n.value, ast.Call) and call_name(n.value) == "_StateTracker"}
    st_ = [n for n in cfgf.nodes if n.kind == "stmt" and n.ast is not None and any(isinstance(c.func, ast.Attribute) and c.func.attr == "start" and isinstance(c.func.value, ast.Name) and c.func.value.id in tvars for c in calls(n.ast))]
    # registering a value again stops the tracker of the earlier registration before it is replaced
    stores = [n for n in cfgf.nodes if n.kind == "stmt" and isinstance(n.ast, ast.Assign) and isinstance(n.ast.targets[0], ast.Subscript) and ast.unparse(n.ast.targets[0].value) == "self._workers"]
    stops = [n for n in cfgf.nodes if n.ast is not None and n.kind in ("stmt", "test") and any(isinstance(c.func, ast.Attribute) and c.func.attr == "stop" for c in calls(n.ast))]
    pops = [n for n in cfgf.nodes if n.ast is not None and n.kind in ("stmt", "test") and any(call_name(c) in ("self._workers.pop", "self._workers.get") for c in calls(n.ast))]
    ok_re = len(stores) == 1 and bool(stops) and bool(pops) and any(cfgf.dominates(p_.id, stores[0].id) for p_ in pops) and all(any(cfgf.dominates(p_.id, s_.id) for p_ in pops) for s_ in stops)
    chk.ob("re-registration-stops-the-previous-tracker", f.site(), ok_re, "register_remote_value looks up an earlier tracker of the value and stops it before storing the new one" if ok_re else "register_remote_value overwrites the worker entry without stopping the tracker of an earlier registration: that tracker keeps reading unowned — after re-registration with another policy, after unregistration and while disconnected", key="updater|re-register")
    chk.ob("register-starts-only-when-running", f.site(), len(st_) == 1 and ("self.started", True) in mf[st_[0].id], "a tracker registered later is started only when the updater is running (connected)", key="updater|register-start")
    ini = S("__init__"); chk.unit(ini)
    sem = [n for n in walk_local(ini.node) if isinstance(n, ast.Assign) and ast.unparse(n.targets[0]) == "self._semaphore"]
    default = None
    for a, d in zip(reversed(ini.node.args.args), reversed(ini.node.args.defaults)):
        if a.arg == "parallel_reads":
            default = repo.fold(d, ini.module, ini.cls)
    chk.ob("at-most-two-reads", ini.site(), len(sem) == 1 and ast.unparse(sem[0].value) == "asyncio.Semaphore(value=parallel_reads)" and default == 2, f"_semaphore = {ast.unparse(sem[0].value) if sem else None}; parallel_reads default {default!r}", key="updater|semaphore-value")
    ctor = [(g.qualname, [k.arg for k in c.keywords], len(c.args)) for g in repo.all_functions() for c in calls(g.node) if call_name(c) == "StateUpdater"]
    chk.ob("at-most-two-reads", ini.site(), all("parallel_reads" not in kws and nargs <= 2 for _, kws, nargs in ctor) and len(ctor) >= 1, f"StateUpdater constructed at {ctor} (parallel_reads left at its default)", key="updater|ctor")
    wsem = [w for w in attr_writes(repo, "_semaphore", include_mutators=False) if w.func.module.name == M]
    chk.ob("at-most-two-reads", ini.site(), len(wsem) == 1, "the semaphore is created once", key="updater|semaphore-slot")


def update_notification(chk: Check, repo: Repo) -> None:
    """Every successfully decoded state telegram restarts an 'expire' interval — also one repeating the current value."""
    fi = repo.func("xknx.remote_value.remote_value", "RemoteValue.process")
    chk.unit(fi)
    cfg = CFG(fi.node)
    exc = ExcTable(repo)
    dest = Obj("GroupAddress", "ga")
    p0 = fi.node.args.args[1].arg
    for value_cell, always in product(("unset", "same", "changed"), (False, True)):
        new = Obj("Value", "new")
        def cm(c, env):
            n = call_name(c)
            if n == "self.from_knx":
                return [Outcome(None, new)]
            if n == "self.group_addresses":
                return [Outcome(None, (dest,))]
            if n.endswith("state_updater.update_received"):
                return [Outcome("UPDATE_RECEIVED", None)]
            if n == "self.after_update_cb":
                return [Outcome("AFTER_UPDATE_CB", None)]
            if n.startswith("logger."):
                return [Outcome(None, None)]
            return None
        am = AbsMachine(cfg, exc, cm)
        am.isinstance_fn = class_isinstance(repo)
        env = {f"{p0}.destination_address": dest, f"{p0}.payload": Obj("GroupValueWrite", "p", (("value", Obj("DPTArray", "raw")),)), f"{p0}.decoded_data": None, "self.dpt_class": None,
               "self._value": None if value_cell == "unset" else (new if value_cell == "same" else Obj("Value", "old")), "always_callback": always, "self.after_update_cb": None}
        paths = Explorer(cfg, repo, am.step).run(cfg.entry, [], env)
        got = {(tuple(t for t in p.env.get("trace", ())), p.env.get("#ret")) for p in paths}
        want = {(("UPDATE_RECEIVED",), True)}
        chk.ob("every-decoded-telegram-notifies-updater", fi.site(), got == want, f"stored value {value_cell}, always_callback={always}: {sorted(map(str, got))}; reference {sorted(map(str, want))}", key=f"process-notify|{value_cell}|{always}")


def run(chk: Check, repo: Repo) -> None:
    tracker(chk, repo)
    updater(chk, repo)
    update_notification(chk, repo)
    chk.rule("E7 decision tables (abstract path enumeration) of the tracker and updater methods; E6 task-slot discipline; E4 lexical semaphore scope; E8 folded semaphore value")
    chk.assume("read times (once per (re)connection, every/after an interval) are virtual-time histories and are not decided; only the control structure is")
