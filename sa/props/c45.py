"""C45 — MCP tools return JSON-native results and invert each other (structural part).

 (a) every field annotation of every result dataclass in xknx/mcp/types.py is in the JSON-native grammar
     (bool | int | float | str | None, list / dict[str, ..] of those, nested result dataclasses, the GroupValue alias),
     recursively; input dataclasses likewise (they are built from JSON).
 (b) `_jsonify` returns a JSON-native kind on every path: DPTComplexData -> as_dict() (C10: JSON-native kinds),
     DPTEnumData -> lower-cased member name, tuple -> list of jsonified items, the native kinds unchanged, anything
     else str(value); every value a decode / read tool puts into a result's `value` goes through `_jsonify`.
 (c) encode_dpt_payload hands the request value to the datapoint type's own to_knx and returns the payload as
     int | list[int]; decode_dpt_payload builds the payload object of the type's payload_type and returns
     _jsonify(from_knx(..)) — so encode/decode inversion is C08 / C10's round trip of that type.
 (d) pagination: the page is items[offset : offset + limit] of a list that does not depend on offset / limit,
     `limit_reached` is 0 <= limit < len(items) - offset, and the next offset is offset + len(window): consecutive
     pages partition the list (each type exactly once) — decided on the symbolic slice algebra.
"""

from __future__ import annotations

import ast

from ..astx import call_name, calls, walk_local
from ..cfg import CFG
from ..loader import AnalysisError, ClassInfo, Repo
from ..report import Check

T = "xknx.mcp.types"
TOOLS = "xknx.mcp.tools"
NATIVE = {"bool", "int", "float", "str", "None", "Any"}


def json_native(repo: Repo, mod, ann: ast.AST, aliases: dict, seen: set) -> tuple[bool, str]:
    if isinstance(ann, ast.Constant) and ann.value is None:
        return True, ""
    if isinstance(ann, ast.Name):
        if ann.id in NATIVE:
            return True, ""
        if ann.id in aliases:
            return json_native(repo, mod, aliases[ann.id], aliases, seen)
        t = repo.resolve(mod.name, ann.id)
        if isinstance(t, ClassInfo) and t.module.name == T:
            if t.name in seen:
                return True, ""
            seen.add(t.name)
            for st in t.node.body:
                if isinstance(st, ast.AnnAssign):
                    ok, why = json_native(repo, mod, st.annotation, aliases, seen)
                    if not ok:
                        return False, f"{t.name}.{ast.unparse(st.target)}: {why}"
            return True, ""
        return False, f"type {ann.id} is not JSON-native"
    if isinstance(ann, ast.BinOp) and isinstance(ann.op, ast.BitOr):
        a, wa = json_native(repo, mod, ann.left, aliases, seen)
        b, wb = json_native(repo, mod, ann.right, aliases, seen)
        return a and b, wa or wb
    if isinstance(ann, ast.Subscript):
        base = ast.unparse(ann.value)
        if base == "list":
            return json_native(repo, mod, ann.slice, aliases, seen)
        if base == "dict" and isinstance(ann.slice, ast.Tuple) and len(ann.slice.elts) == 2:
            k = ast.unparse(ann.slice.elts[0])
            v, wv = json_native(repo, mod, ann.slice.elts[1], aliases, seen)
            return k == "str" and v, wv or (f"dict key type {k}" if k != "str" else "")
        return False, f"generic {base}"
    if isinstance(ann, ast.Constant) and isinstance(ann.value, str):
        return json_native(repo, mod, ast.parse(ann.value, mode="eval").body, aliases, seen)
    return False, f"annotation {ast.unparse(ann)}"


def types_native(chk: Check, repo: Repo) -> None:
    mod = repo.module(T)
    aliases = {k: v for k, v in mod.assigns.items() if isinstance(v, (ast.BinOp, ast.Subscript, ast.Name))}
    n = 0
    for cname, ci in sorted(mod.classes.items()):
        for st in ci.node.body:
            if isinstance(st, ast.AnnAssign) and isinstance(st.target, ast.Name):
                n += 1
                ok, why = json_native(repo, mod, st.annotation, aliases, set())
                chk.ob("result-field-is-json-native", f"{mod.relpath}:{st.lineno}:{cname}", ok, f"{cname}.{st.target.id}: {ast.unparse(st.annotation)}" + (f" — {why}" if not ok else ""), key=f"type|{cname}.{st.target.id}")
    chk.floor("MCP dataclass fields", n, 40)


def jsonify_paths(chk: Check, repo: Repo) -> None:
    f = repo.func(TOOLS, "_jsonify")
    chk.unit(f)
    cfg = CFG(f.node)
    mf = cfg.must_facts()
    p = f.node.args.args[0].arg
    rets = [n for n in cfg.nodes if n.kind == "stmt" and isinstance(n.ast, ast.Return)]
    chk.floor("_jsonify return paths", len(rets), 4)
    seen_kinds = set()
    for n in rets:
        v = n.ast.value
        txt = ast.unparse(v)
        facts = {a for a, val in mf[n.id] if val}
        kind = None
        if txt == f"{p}.as_dict()" and f"isinstance({p}, DPTComplexData)" in facts:
            kind = "complex->as_dict"
        elif txt == f"{p}.name.lower()" and f"isinstance({p}, DPTEnumData)" in facts:
            kind = "enum->name.lower"
        elif isinstance(v, ast.ListComp) and call_name(v.elt) == "_jsonify" and f"isinstance({p}, tuple)" in facts:
            kind = "tuple->list of jsonified"
        elif txt == p and any(a.startswith(f"{p} is None or isinstance({p}, ") for a in facts | {x for x, val in mf[n.id] if val}):
            kind = "native passthrough"
        elif txt == p:
            # passthrough must sit directly under a test whose every disjunct is `p is None` or isinstance(p, <native kinds>)
            par_if = next((x for x in walk_local(f.node) if isinstance(x, ast.If) and n.ast in x.body), None)
            if par_if is not None:
                t = par_if.test
                disj = t.values if isinstance(t, ast.BoolOp) and isinstance(t.op, ast.Or) else [t]
                def native_test(d: ast.AST) -> bool:
                    if ast.unparse(d) == f"{p} is None":
                        return True
                    if isinstance(d, ast.Call) and call_name(d) == "isinstance" and ast.unparse(d.args[0]) == p:
                        names = set()
                        def flat(x):
                            if isinstance(x, ast.BinOp) and isinstance(x.op, ast.BitOr):
                                flat(x.left); flat(x.right)
                            elif isinstance(x, ast.Tuple):
                                for y in x.elts:
                                    flat(y)
                            else:
                                names.add(ast.unparse(x))
                        flat(d.args[1])
                        return names <= {"bool", "int", "float", "str", "list", "dict"}
                    return False
                kind = "native passthrough" if all(native_test(d) for d in disj) else None
        elif txt == f"str({p})":
            kind = "fallback->str"
        seen_kinds.add(kind)
        chk.ob("jsonify-returns-a-json-native-kind", f.site(n.ast), kind is not None, f"_jsonify: `return {txt}` — {kind or 'not one of the JSON-native forms under its guard'}", key=f"jsonify|{txt}")
    # a float is a JSON number only when it is finite (json.dumps writes NaN / Infinity, which is not JSON): the
    # pass-through return is unreachable for a non-finite float - every path to it leaves `isinstance(p, float)` on its
    # false edge or `math.isfinite(p)` on its true edge
    passthrough = [n for n in rets if ast.unparse(n.ast.value) == p]
    t_float = [n.id for n in cfg.nodes if n.kind == "test" and n.ast is not None and ast.unparse(n.ast) == f"isinstance({p}, float)"]
    t_finite = [n.id for n in cfg.nodes if n.kind == "test" and n.ast is not None and ast.unparse(n.ast) == f"math.isfinite({p})"]
    def not_diverted(s_: int, t_: int, lab: str) -> bool:
        if lab == "exc":
            return False
        if s_ in t_float and lab == "false":
            return False
        if s_ in t_finite and lab == "true":
            return False
        return True
    for n in passthrough:
        leak = n.id in cfg.reachable([cfg.entry], edge_ok=not_diverted)
        chk.ob("floats-in-results-are-finite", f.site(n.ast), bool(t_float) and bool(t_finite) and not leak, f"_jsonify: `return {p}` " + ("is reached by a float only past math.isfinite" if t_float and t_finite and not leak else "passes nan / inf through - not JSON numbers"), key="finite|jsonify")
    nb = repo.func(TOOLS, "_numeric_bounds")
    chk.unit(nb)
    floats = [c for c in calls(nb.node) if call_name(c) == "float" and len(c.args) == 1]
    par = {ch: pa for pa in ast.walk(nb.node) for ch in ast.iter_child_nodes(pa)}
    okb = bool(floats)
    for c in floats:
        pa = par.get(c)
        okb = okb and isinstance(pa, ast.IfExp) and pa.body is c and isinstance(pa.test, ast.Call) and call_name(pa.test) == "math.isfinite" and ast.unparse(pa.test.args[0]) == ast.unparse(c.args[0]) and isinstance(pa.orelse, ast.Constant) and pa.orelse.value is None
    chk.ob("floats-in-results-are-finite", nb.site(), okb, "_numeric_bounds: every bound is float(x) only if math.isfinite(x), else None" if okb else "_numeric_bounds copies bounds without a finiteness test (DPT 14 declares -inf / inf)", key="finite|bounds")
    need = {"complex->as_dict", "enum->name.lower", "tuple->list of jsonified", "fallback->str"}
    chk.ob("jsonify-covers-complex-enum-tuple-fallback", f.site(), need <= seen_kinds, f"_jsonify forms present: {sorted(k for k in seen_kinds if k)}", key="jsonify|forms")
    chk.ob("jsonify-returns-a-json-native-kind", f.site(), not CFG(f.node).falls_off_end(), "every path ends in a return statement (no implicit `return None`)", key="jsonify|total")
    # values placed into results go through _jsonify
    mod = repo.module(TOOLS)
    for fn in mod.functions.values():
        for c in calls(fn.node):
            cn = call_name(c)
            if cn in ("GroupValueReadResult", "DecodeDptPayloadResult"):
                kw = next((k.value for k in c.keywords if k.arg == "value"), None)
                ok = isinstance(kw, ast.Call) and call_name(kw) == "_jsonify"
                chk.ob("decoded-values-are-jsonified", fn.site(c), ok, f"{fn.qualname}: {cn}(value={ast.unparse(kw) if kw is not None else '?'})", key=f"jsonified|{fn.qualname}|{cn}")


def group_validity_flags(chk: Check, repo: Repo) -> None:
    """An encoder that marks a *group* of optional fields invalid as a whole (`x_invalid = None in (a, b, ..)`) drops the
    given members of a partially given group: the payload decodes to None for them - neither the written value nor a
    refusal.  Such an encoder (or the range test it calls first) has to refuse a group whose members differ in being
    None.  Census over every `None in (<fields>)` flag of the datapoint encoders."""
    n = 0
    for f in repo.all_functions():
        if not f.module.name.startswith("xknx.dpt.") or f.node.name not in ("_to_knx", "to_knx"):
            continue
        groups = []
        for x in walk_local(f.node):
            if isinstance(x, ast.Compare) and len(x.ops) == 1 and isinstance(x.ops[0], ast.In) and isinstance(x.left, ast.Constant) and x.left.value is None and isinstance(x.comparators[0], ast.Tuple) and len(x.comparators[0].elts) >= 2:
                groups.append([ast.unparse(e) for e in x.comparators[0].elts])
        if not groups:
            continue
        chk.unit(f)
        # guards: the function itself and the same-class helpers it calls
        scope = [f]
        for c in calls(f.node):
            nm = call_name(c)
            if nm.startswith(("cls.", "self.")) and nm.count(".") == 1 and f.cls is not None:
                m = repo.lookup_method(f.cls, nm.split(".")[1])
                if m is not None:
                    scope.append(m)
        def none_test(e: ast.AST) -> str | None:
            if isinstance(e, ast.Compare) and len(e.ops) == 1 and isinstance(e.ops[0], ast.Is) and isinstance(e.comparators[0], ast.Constant) and e.comparators[0].value is None:
                return ast.unparse(e.left)
            return None
        differ: set[frozenset] = set()
        for g in scope:
            for node in walk_local(g.node):
                if isinstance(node, ast.If) and any(isinstance(b, ast.Raise) for b in node.body):
                    for x in ast.walk(node.test):
                        if isinstance(x, ast.Compare) and len(x.ops) == 1 and isinstance(x.ops[0], ast.NotEq):
                            a, b = none_test(x.left), none_test(x.comparators[0])
                            if a and b:
                                differ.add(frozenset((a, b)))
        for grp in groups:
            n += 1
            # the refusals connect the whole group (every member linked to the first by a chain of `!=` tests)
            linked = {grp[0]}
            changed = True
            while changed:
                changed = False
                for pair in differ:
                    if len(pair & linked) == 1 and pair <= set(grp):
                        linked |= pair
                        changed = True
            ok = linked == set(grp)
            chk.ob("partially-given-group-is-refused", f.site(), ok, f"{f.qualname}: the group {grp} is flagged invalid as a whole; " + ("a group whose members differ in being None is refused first" if ok else "nothing refuses a partially given group - its given members are dropped silently"), key=f"group|{f.qualname}|{'+'.join(grp)}")
    chk.count("group validity flags in datapoint encoders", n)


def codec_tools(chk: Check, repo: Repo) -> None:
    from ..astx import inline_locals
    enc = repo.func(TOOLS, "encode_dpt_payload")
    dec = repo.func(TOOLS, "decode_dpt_payload")
    chk.unit(enc); chk.unit(dec)

    def transcoders(f) -> set[str]:
        rq = f.node.args.args[0].arg
        return {n.targets[0].id for n in walk_local(f.node) if isinstance(n, ast.Assign) and len(n.targets) == 1 and isinstance(n.targets[0], ast.Name) and isinstance(n.value, ast.Call) and call_name(n.value) == "DPTBase.get_dpt" and [ast.unparse(a) for a in n.value.args] == [f"{rq}.value_type"]}
    te, rq_e = transcoders(enc), enc.node.args.args[0].arg
    ok = len(te) == 1 and any(isinstance(c.func, ast.Attribute) and c.func.attr == "to_knx" and isinstance(c.func.value, ast.Name) and c.func.value.id in te and [ast.unparse(a) for a in c.args] == [f"{rq_e}.value"] for c in calls(enc.node))
    chk.ob("encode-tool-uses-the-type's-own-encoder", enc.site(), ok, "encode_dpt_payload: <transcoder> = DPTBase.get_dpt(request.value_type); <transcoder>.to_knx(request.value)", key="tool|encode")
    td = transcoders(dec)
    ptype = any(isinstance(n, ast.Compare) and len(n.ops) == 1 and isinstance(n.ops[0], (ast.Is, ast.Eq)) and isinstance(n.left, ast.Attribute) and n.left.attr == "payload_type" and isinstance(n.left.value, ast.Name) and n.left.value.id in td and ast.unparse(n.comparators[0]) == "DPTBinary" for n in ast.walk(dec.node))
    res = [c for c in calls(dec.node) if call_name(c) == "DecodeDptPayloadResult"]
    val = next((k.value for c in res for k in c.keywords if k.arg == "value"), None)
    vin = inline_locals(dec.node, val) if val is not None else None
    jz = isinstance(vin, ast.Call) and call_name(vin) == "_jsonify" and len(vin.args) == 1 and isinstance(vin.args[0], ast.Call) and isinstance(vin.args[0].func, ast.Attribute) and vin.args[0].func.attr == "from_knx"
    recv_ok = False
    if jz:
        r0 = vin.args[0].func.value
        r0 = r0 if isinstance(r0, ast.Name) else None
        # the receiver was inlined to DPTBase.get_dpt(...) when single-assigned: accept either form
        recv_ok = (r0 is not None and r0.id in td) or ast.unparse(vin.args[0].func.value) == f"DPTBase.get_dpt({dec.node.args.args[0].arg}.value_type)"
    ok = len(td) == 1 and ptype and jz and recv_ok
    chk.ob("decode-tool-uses-the-type's-own-decoder", dec.site(), ok, "decode_dpt_payload builds DPTBinary / DPTArray per the type's payload_type and returns _jsonify(<transcoder>.from_knx(raw))", key="tool|decode")


def lin(e: ast.AST):
    """linear form of an integer expression over symbols (names, attribute chains, len(x)) — sa.sereval.Lin"""
    from ..sereval import Lin
    if isinstance(e, ast.Constant) and isinstance(e.value, int):
        return Lin(e.value)
    if isinstance(e, (ast.Name, ast.Attribute)):
        return Lin(0, {ast.unparse(e): 1})
    if isinstance(e, ast.Call) and call_name(e) == "len" and len(e.args) == 1:
        return Lin(0, {f"len({ast.unparse(e.args[0])})": 1})
    if isinstance(e, ast.BinOp) and isinstance(e.op, (ast.Add, ast.Sub)):
        a, b = lin(e.left), lin(e.right)
        return a + b if isinstance(e.op, ast.Add) else a - b
    raise AnalysisError(f"not a linear integer expression: {ast.unparse(e)}")


def constraints(e: ast.AST) -> set:
    """a (chained) comparison / conjunction as a set of canonical constraints `lin >= 0` / `lin > 0`"""
    out = set()
    parts = e.values if isinstance(e, ast.BoolOp) and isinstance(e.op, ast.And) else [e]
    for p in parts:
        if not isinstance(p, ast.Compare):
            raise AnalysisError(f"not a comparison: {ast.unparse(p)}")
        vals = [p.left] + list(p.comparators)
        for a, op, b in zip(vals, p.ops, vals[1:]):
            la, lb = lin(a), lin(b)
            if isinstance(op, ast.LtE):
                out.add(((lb - la).key(), ">="))
            elif isinstance(op, ast.Lt):
                out.add(((lb - la).key(), ">"))
            elif isinstance(op, ast.GtE):
                out.add(((la - lb).key(), ">="))
            elif isinstance(op, ast.Gt):
                out.add(((la - lb).key(), ">"))
            else:
                raise AnalysisError("comparison operator")
    return out


def pagination(chk: Check, repo: Repo) -> None:
    from ..astx import inline_locals
    f = repo.func(TOOLS, "_paginate")
    chk.unit(f)
    items, limit, offset = (a.arg for a in f.node.args.args[:3])
    rets = [n for n in walk_local(f.node) if isinstance(n, ast.Return)]
    win = lr = None
    if len(rets) == 1 and isinstance(rets[0].value, ast.Tuple) and len(rets[0].value.elts) == 2:
        # what is returned, with locals inlined: (page, limit reached)
        win, lr = (inline_locals(f.node, e) for e in rets[0].value.elts)

    def is_page(sl: ast.AST, bounded: bool) -> bool:
        if not (isinstance(sl, ast.Subscript) and ast.unparse(sl.value) == items and isinstance(sl.slice, ast.Slice) and sl.slice.step is None and sl.slice.lower is not None):
            return False
        if lin(sl.slice.lower) != lin(ast.Name(id=offset, ctx=ast.Load())):
            return False
        if not bounded:
            return sl.slice.upper is None
        return sl.slice.upper is not None and lin(sl.slice.upper) == lin(ast.Name(id=offset, ctx=ast.Load())) + lin(ast.Name(id=limit, ctx=ast.Load()))
    ok_w = win is not None and ((isinstance(win, ast.IfExp) and constraints(win.test) == constraints(ast.parse(f"{limit} >= 0", mode="eval").body) and is_page(win.body, True) and is_page(win.orelse, False)) or is_page(win, True))
    chk.ob("page-is-the-slice-offset-limit", f.site(), ok_w, f"page = {ast.unparse(win) if win is not None else '?'}", key="page|window")
    # "limit reached" = the slice stopped before the end - and the page is not empty: an empty page that announces a next
    # one (page size 0) gives a next_offset equal to the offset, and a client following it never gets any type
    nonempty = False
    if isinstance(lr, ast.BoolOp) and isinstance(lr.op, ast.And) and len(lr.values) == 2:
        guards = [v for v in lr.values if not isinstance(v, ast.Compare)]
        cmps = [v for v in lr.values if isinstance(v, ast.Compare)]
        if len(guards) == 1 and len(cmps) == 1:
            g = guards[0]
            g = g.args[0] if isinstance(g, ast.Call) and call_name(g) == "bool" and len(g.args) == 1 else g
            nonempty = win is not None and ast.dump(g) == ast.dump(win)
            lr = cmps[0]
    elif isinstance(lr, ast.Compare):
        # 0 < limit: a page of at least one item whenever items remain
        nonempty = constraints(lr) == constraints(ast.parse(f"0 < {limit} < len({items}) - {offset}", mode="eval").body)
        if nonempty:
            lr = ast.parse(f"0 <= {limit} < len({items}) - {offset}", mode="eval").body
    chk.ob("a-page-that-announces-a-next-one-is-not-empty", f.site(), nonempty, "limit reached implies a non-empty page (next_offset advances)" if nonempty else "a page of size 0 reports `limit reached` with next_offset == offset: following the pages never advances and no type is ever listed", key="page|progress")
    ok_l = lr is not None and constraints(lr) == constraints(ast.parse(f"0 <= {limit} < len({items}) - {offset}", mode="eval").body)
    chk.ob("limit-reached-iff-items-remain", f.site(), ok_l, f"limit reached = {ast.unparse(lr) if lr is not None else '?'} (true exactly when the slice stopped before the end)", key="page|limit_reached")
    ld = repo.func(TOOLS, "list_dpts")
    chk.unit(ld)
    fp = ld.node.args.args[0].arg
    call = [c for c in calls(ld.node) if call_name(c) == "_paginate"]
    lst = call[0].args[0].id if len(call) == 1 and call[0].args and isinstance(call[0].args[0], ast.Name) else None
    # the offset handed over is the filter's own, or that clamped at 0 (a negative one would count from the end)
    def one_def(e: ast.AST) -> ast.AST:
        if isinstance(e, ast.Name):
            ds = [n.value for n in walk_local(ld.node) if isinstance(n, ast.Assign) and len(n.targets) == 1 and isinstance(n.targets[0], ast.Name) and n.targets[0].id == e.id]
            if len(ds) == 1 and e.id != fp:
                return ds[0]
        return e
    off_e = one_def(call[0].args[2]) if len(call) == 1 and len(call[0].args) == 3 else None
    off_ok = off_e is not None and (ast.unparse(off_e) == f"{fp}.offset" or (isinstance(off_e, ast.Call) and call_name(off_e) == "max" and sorted(ast.unparse(a) for a in off_e.args) == sorted([f"{fp}.offset", "0"])))
    ok = lst is not None and ast.unparse(call[0].args[1]) == f"{fp}.limit" and off_ok
    chk.ob("page-is-the-slice-offset-limit", ld.site(), ok, f"list_dpts pages `{lst}` by {fp}.limit / {fp}.offset", key="page|call")
    # the paged list does not depend on offset / limit and is totally ordered
    deps = [n for n in walk_local(ld.node) if isinstance(n, ast.Assign) and ast.unparse(n.targets[0]) == lst]
    dep_ok = len(deps) == 1 and not any(isinstance(x, ast.Attribute) and x.attr in ("offset", "limit") for x in ast.walk(deps[0].value))
    sort_ok = any(isinstance(c.func, ast.Attribute) and c.func.attr == "sort" and ast.unparse(c.func.value) == lst for c in calls(ld.node)) or (len(deps) == 1 and isinstance(deps[0].value, ast.Call) and call_name(deps[0].value) == "sorted")
    chk.ob("paged-list-is-independent-of-the-page", ld.site(), dep_ok and sort_ok, "the list is built from the filters' main / text only and sorted by (main, sub) number before paging", key="page|independent")
    unp = [n for n in walk_local(ld.node) if isinstance(n, ast.Assign) and call and n.value is call[0] and isinstance(n.targets[0], ast.Tuple) and len(n.targets[0].elts) == 2 and all(isinstance(e, ast.Name) for e in n.targets[0].elts)]
    wname, lname = (unp[0].targets[0].elts[0].id, unp[0].targets[0].elts[1].id) if unp else ("?", "?")
    nxt = [k.value for c in calls(ld.node) if call_name(c) == "DptListResult" for k in c.keywords if k.arg == "next_offset"]
    ok = len(nxt) == 1 and isinstance(nxt[0], ast.IfExp) and ast.unparse(nxt[0].test) == lname and isinstance(nxt[0].orelse, ast.Constant) and nxt[0].orelse.value is None and off_e is not None and len(call[0].args) == 3 and lin(nxt[0].body) == lin(ast.parse(f"{ast.unparse(call[0].args[2])} + len({wname})", mode="eval").body)
    chk.ob("next-page-starts-where-this-one-ended", ld.site(), ok, f"next_offset = {ast.unparse(nxt[0]) if nxt else '?'}: pages [o, o+len) are adjacent and disjoint, so every type is listed exactly once", key="page|next")


def run(chk: Check, repo: Repo) -> None:
    # the value-level half of this property (the payload a value encodes to decodes to the same value; a decoded value
    # is accepted by the type's own encoder) is the codec round trip of C08 - its obligations are part of this check
    from . import c08
    c08.run(chk, repo)
    types_native(chk, repo)
    jsonify_paths(chk, repo)
    codec_tools(chk, repo)
    group_validity_flags(chk, repo)
    pagination(chk, repo)
    chk.rule("type-grammar check of the result dataclasses; per-return-path classification of _jsonify under CFG must-facts; structural wiring of the codec tools; slice algebra of the pagination")
    chk.assume("json.dumps serialises exactly the JSON-native grammar; complex as_dict forms are JSON-native (C10); encode/decode inversion per type is C08/C10")
