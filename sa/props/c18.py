"""C18 — secured group addresses never take plain data; bad frames never crash the receive path.

 (a) DataSecure.received_cemi decision table over {payload class: SecureAPDU / every other APCI class / None}
     x {destination: group / individual} x {group key present?}: a plain payload to a group address
     with a key raises DataSecureError (-> key-issue callbacks only, C14 table); other plain frames pass
     unchanged; secured payloads go through verification.
 (b) DataSecure.outgoing_cemi: group destination with a key -> secured; otherwise unchanged; and
     CEMIHandler.send_telegram routes every telegram through it when Data Secure is configured.
 (c) the key-issue path ends in the key-issue callbacks (each isolated by try/except Exception) and
     reaches neither the telegram queue nor management.
 (d) no-raise clause of the receive path: decided by the may-raise engine (see check_no_raise).
"""

from __future__ import annotations

import ast

from ..absmachine import AbsMachine, Obj, Outcome, Raise, UNKNOWN, class_isinstance
from ..astx import attr_writes, call_name, call_sites, calls, method_name, walk_local
from ..cfg import CFG
from ..exctable import ExcTable
from ..explore import Explorer
from ..loader import AnalysisError, Repo
from ..report import Check

DS = "xknx.secure.data_secure"


def table_received(chk: Check, repo: Repo) -> None:
    fi = repo.func(DS, "DataSecure.received_cemi")
    chk.unit(fi)
    cfg = CFG(fi.node)
    exc = ExcTable(repo)
    apci = repo.cls("xknx.telegram.apci", "APCI")
    payload_classes = [c.name for c in repo.subclasses(apci, strict=True)]
    chk.floor("apci_classes", len(payload_classes), 80)
    p0 = fi.node.args.args[1].arg
    cells = 0
    for pc in payload_classes + [None]:
        for dst_cls in ("GroupAddress", "IndividualAddress"):
            for has_key in (False, True):
                cells += 1
                dst = Obj(dst_cls, "dst")
                frame = Obj("CEMILData", "frame")
                payload = Obj(pc, "p") if pc else None

                def call_model(c: ast.Call, env):
                    n = call_name(c)
                    if n == "self._received_secure_cemi":
                        return [Outcome("VERIFY", Obj("CEMILData", "decrypted"))]
                    if n == "self._group_key_table.get":
                        return [Outcome(None, Obj("bytes", "key") if has_key else None)]
                    return None

                env = {p0: frame, f"{p0}.payload": payload, f"{p0}.dst_addr": dst, "self._group_key_table": (dst,) if has_key else ()}
                am = AbsMachine(cfg, exc, call_model)
                am.isinstance_fn = class_isinstance(repo)
                paths = Explorer(cfg, repo, am.step).run(cfg.entry, [], env)
                got = set()
                for p in paths:
                    if p.end == cfg.exit:
                        got.add(("return", repr(p.env.get("#ret")), tuple(t for t in p.env.get("trace", ()))))
                    else:
                        got.add(("raise", p.env.get("#raised"), tuple(t for t in p.env.get("trace", ()) if not t.startswith("raise:"))))
                if pc == "SecureAPDU":
                    want = {("return", repr(Obj("CEMILData", "decrypted")), ("VERIFY",))}
                elif dst_cls == "GroupAddress" and has_key:
                    want = {("raise", "DataSecureError", ())}
                else:
                    want = {("return", repr(frame), ())}
                ok = got == want
                if not ok or pc in ("SecureAPDU", "GroupValueWrite", "GroupValueRead", "GroupValueResponse", None) :
                    chk.ob("plain-to-secure-group-rejected", fi.site(), ok, f"payload={pc} dst={dst_cls} key={'present' if has_key else 'absent'}: code {sorted(got)}; reference {sorted(want)}", key=f"recv|{pc}|{dst_cls}|{has_key}" + ("" if ok else f"|{sorted(got)}"))
    chk.count("received_cemi_cells", cells)


def table_outgoing(chk: Check, repo: Repo) -> None:
    fi = repo.func(DS, "DataSecure.outgoing_cemi")
    chk.unit(fi)
    cfg = CFG(fi.node)
    exc = ExcTable(repo)
    p0 = fi.node.args.args[1].arg
    for dst_cls in ("GroupAddress", "IndividualAddress"):
        for has_key in (False, True):
            frame = Obj("CEMILData", "frame")
            dst = Obj(dst_cls, "dst")

            def call_model(c: ast.Call, env):
                n = call_name(c)
                if n == "self._secure_data_cemi":
                    return [Outcome("SECURE", Obj("CEMILData", "secured"))]
                if n == "self._group_key_table.get":
                    return [Outcome(None, Obj("bytes", "key") if has_key else None)]
                if method_name(c) == "SecurityControlField":
                    return [Outcome(None, Obj("SecurityControlField", "scf"))]
                return None

            env = {p0: frame, f"{p0}.dst_addr": dst, "self._group_key_table": (dst,) if has_key else ()}
            am = AbsMachine(cfg, exc, call_model)
            am.isinstance_fn = class_isinstance(repo)
            paths = Explorer(cfg, repo, am.step).run(cfg.entry, [], env)
            got = {(p.end_kind, repr(p.env.get("#ret")), tuple(p.env.get("trace", ()))) for p in paths}
            want = {("exit", repr(Obj("CEMILData", "secured")), ("SECURE",))} if (dst_cls == "GroupAddress" and has_key) else {("exit", repr(frame), ())}
            chk.ob("outgoing-secured-iff-key", fi.site(), got == want, f"dst={dst_cls} key={'present' if has_key else 'absent'}: code {sorted(got)}; reference {sorted(want)}", key=f"out|{dst_cls}|{has_key}" + ("" if got == want else f"|{sorted(got)}"))
    # send_telegram routes through outgoing_cemi whenever data_secure is configured
    st = repo.func("xknx.cemi.cemi_handler", "CEMIHandler.send_telegram")
    chk.unit(st)
    c2 = CFG(st.node)
    mf = c2.must_facts()
    send = [n for n in c2.nodes if n.kind == "stmt" and n.ast is not None and any(method_name(c) == "send_cemi" for c in calls(n.ast))]
    outc = [n for n in c2.nodes if n.kind == "stmt" and isinstance(n.ast, ast.Assign) and any(call_name(c) == "self.data_secure.outgoing_cemi" for c in calls(n.ast))]
    ok = len(send) == 1 and len(outc) == 1 and ast.unparse(outc[0].ast.targets[0]).endswith(".data")
    if ok:
        # every path to the send on which data_secure is not None passes the assignment
        def skip_none_branch(s, t, lab):
            n = c2.nodes[s]
            if n.kind == "test" and n.ast is not None and "self.data_secure" in ast.unparse(n.ast):
                from ..astx import is_none_test
                r = is_none_test(n.ast, lab == "true", lambda x: x == "self.data_secure")
                if r is True:
                    return False  # edge on which data_secure is None: not relevant
            return True
        # the send must be unreachable once the *normal completion* of the securing assignment is removed
        # (an exceptional exit of outgoing_cemi that is swallowed would otherwise fall through with plain data)
        def only_failed_securing(s_, t_, lab_):
            if s_ == outc[0].id and lab_ != "exc":
                return False
            return skip_none_branch(s_, t_, lab_)
        r = c2.reachable([c2.entry], edge_ok=only_failed_securing)
        ok = send[0].id not in r
        # the frame that is sent is the object whose .data was replaced
        frame_name = ast.unparse(outc[0].ast.targets[0]).rsplit(".", 1)[0]
        sent = [ast.unparse(a) for c in calls(send[0].ast) if method_name(c) == "send_cemi" for a in c.args]
        ok = ok and sent == [frame_name]
    chk.ob("send-routes-through-outgoing", st.site(), ok, "with Data Secure configured, the frame handed to the interface has had its data replaced by outgoing_cemi(...) on every path", key="send-routes-through-outgoing")


def incoming_gate(chk: Check, repo: Repo) -> None:
    """With Data Secure configured, no received frame reaches `cemi.data.telegram()` / telegram_received without having
    gone through DataSecure.received_cemi (whatever its source address or other fields): every path from the entry of
    handle_cemi_frame to the hand-over passes the received_cemi call or a point where `self.data_secure is None` holds."""
    h = repo.func("xknx.cemi.cemi_handler", "CEMIHandler.handle_cemi_frame")
    chk.unit(h)
    cfg = CFG(h.node)
    mf = cfg.must_facts()

    def has_call(n, pred) -> bool:
        return n.ast is not None and n.kind in ("stmt", "test", "with") and any(isinstance(x, ast.Call) and pred(call_name(x)) for x in ast.walk(n.ast))
    targets = [n.id for n in cfg.nodes if has_call(n, lambda nm: nm == "self.telegram_received" or nm.endswith(".data.telegram"))]
    through = [n.id for n in cfg.nodes if has_call(n, lambda nm: nm.endswith("data_secure.received_cemi"))]
    unconfigured = [n.id for n in cfg.nodes if any(v and a == "self.data_secure is None" for a, v in mf.get(n.id, frozenset())) or any((not v) and a in ("self.data_secure is not None", "self.data_secure") for a, v in mf.get(n.id, frozenset()))]
    chk.count("hand-over points in handle_cemi_frame", len(targets))
    chk.floor("hand-over points in handle_cemi_frame", len(targets), 1)
    ok = bool(through) and cfg.all_paths_hit(cfg.entry, through + unconfigured, targets)
    chk.ob("incoming-frame-passes-data-secure-before-hand-over", h.site(), ok, f"handle_cemi_frame: every path to the hand-over ({len(targets)} node(s)) passes `received_cemi` ({len(through)} site(s)) unless Data Secure is not configured" if ok else "handle_cemi_frame: a path reaches cemi.data.telegram() / telegram_received with Data Secure configured and without calling DataSecure.received_cemi — a plain frame to a keyed group address on that path is delivered", key="gate|incoming")


def configuration_wiring(chk: Check, repo: Repo) -> None:
    """Data Secure cannot silently stay off: (1) the handler's `data_secure` slot is written only by its constructor
    (None) and data_secure_init, which installs DataSecure.init_from_keyring(keyring) for every keyring; (2) every call
    of data_secure_init lets its DataSecureError propagate (no enclosing handler swallows it) and, in
    KNXIPInterface._start, precedes every connection start on all paths — so a failed initialisation stops the start
    instead of bringing the connection up with plain group communication."""
    hcls = repo.cls("xknx.cemi.cemi_handler", "CEMIHandler")
    ws = [w for w in attr_writes(repo, "data_secure", include_mutators=False) if (w.receiver == "self" and w.func.cls is hcls) or w.receiver.endswith("cemi_handler")]
    owners = sorted({w.func.qualname for w in ws})
    chk.ob("data-secure-slot-written-only-by-init", f"{hcls.module.relpath}:{hcls.node.lineno}:{hcls.name}", set(owners) <= {"CEMIHandler.__init__", "CEMIHandler.data_secure_init"} and "CEMIHandler.data_secure_init" in owners, f"`data_secure` is assigned in {owners}", key="wiring|slot-writers")
    di = repo.func("xknx.cemi.cemi_handler", "CEMIHandler.data_secure_init")
    chk.unit(di)
    cfg = CFG(di.node)
    mf = cfg.must_facts()
    kp = di.node.args.args[1].arg
    good = True
    seen = 0
    for n in cfg.nodes:
        if n.kind == "stmt" and isinstance(n.ast, ast.Assign) and ast.unparse(n.ast.targets[0]) == "self.data_secure":
            seen += 1
            v = n.ast.value
            none_branch = any((val and a == f"{kp} is None") or ((not val) and a in (f"{kp} is not None", kp)) for a, val in mf[n.id])
            if isinstance(v, ast.Constant) and v.value is None:
                good = good and none_branch
            else:
                good = good and isinstance(v, ast.Call) and call_name(v) == "DataSecure.init_from_keyring" and [ast.unparse(a) for a in v.args] + [ast.unparse(k.value) for k in v.keywords] == [kp]
    chk.ob("keyring-always-installs-data-secure", di.site(), good and seen >= 2 and cfg.all_paths_hit(cfg.entry, [n.id for n in cfg.nodes if n.kind == "stmt" and isinstance(n.ast, ast.Assign) and ast.unparse(n.ast.targets[0]) == "self.data_secure"], [cfg.exit], edge_ok=cfg.normal_only), "data_secure_init: None only without a keyring, otherwise DataSecure.init_from_keyring(keyring); assigned on every normal path", key="wiring|init")
    # (1b) ... and init_from_keyring itself answers None only for a keyring without group keys: a keyring whose secured
    # groups list no senders still makes its group addresses keyed (plain frames to them are refused, frames to them
    # are sent secured)
    ik = repo.func("xknx.secure.data_secure", "DataSecure.init_from_keyring")
    chk.unit(ik)
    icfg = CFG(ik.node)
    imf = icfg.must_facts()
    keys_local = next((t.id for n in walk_local(ik.node) if isinstance(n, ast.Assign) and isinstance(n.value, ast.Call) and call_name(n.value).endswith("get_data_secure_group_keys") for t in n.targets if isinstance(t, ast.Name)), None)
    nones = [n for n in icfg.nodes if n.kind == "stmt" and isinstance(n.ast, ast.Return) and (n.ast.value is None or (isinstance(n.ast.value, ast.Constant) and n.ast.value.value is None))]
    ok_none = keys_local is not None and bool(nones) and all(any((a == f"not {keys_local}" and v) or (a == keys_local and v is False) for a, v in imf[n.id]) for n in nones) and not icfg.falls_off_end()
    chk.ob("keyring-with-group-keys-always-gives-data-secure", ik.site(), ok_none, "DataSecure.init_from_keyring returns None " + ("only where the keyring has no group keys" if ok_none else "also for a keyring that has group keys (eg. none of them lists a sender): Data Secure stays off - plain frames to the keyed addresses are delivered and telegrams to them are sent plain"), key="wiring|init-from-keyring-none")
    n_sites = 0
    for f, c in call_sites(repo, "data_secure_init"):
        if f.module.name.startswith("xknx.") is False:
            continue
        n_sites += 1
        swallowing = []
        for t in walk_local(f.node):
            if isinstance(t, ast.Try) and any(x is c for b in t.body for x in ast.walk(b)):
                for hd in t.handlers:
                    names = [ast.unparse(x) for x in (hd.type.elts if isinstance(hd.type, ast.Tuple) else [hd.type])] if hd.type is not None else ["BaseException"]
                    if any(nm.split(".")[-1] in ("DataSecureError", "XKNXException", "Exception", "BaseException") for nm in names) and not isinstance(hd.body[-1], ast.Raise):
                        swallowing.append(", ".join(names))
        chk.ob("data-secure-init-failure-propagates", f.site(c), not swallowing, f"{f.qualname}: `{ast.unparse(c)[:60]}`" + (f" is inside `except {swallowing[0]}` that does not re-raise: a failed initialisation leaves Data Secure off and the caller carries on" if swallowing else " — a DataSecureError leaves the caller"), key=f"wiring|propagate|{f.qualname}")
    chk.count("data_secure_init call sites", n_sites)
    chk.floor("data_secure_init call sites", n_sites, 1)
    st = repo.func("xknx.io.knxip_interface", "KNXIPInterface._start")
    chk.unit(st)
    cfg = CFG(st.node)
    inits = [n.id for n in cfg.nodes if n.ast is not None and n.kind == "stmt" and any(isinstance(x, ast.Call) and call_name(x).endswith(".data_secure_init") for x in ast.walk(n.ast))]
    starts = [n.id for n in cfg.nodes if n.ast is not None and n.kind == "stmt" and any(isinstance(x, ast.Call) and call_name(x).startswith("self._start_") for x in ast.walk(n.ast))]
    chk.count("connection start sites in _start", len(starts))
    chk.floor("connection start sites in _start", len(starts), 4)
    ok = bool(inits) and cfg.all_paths_hit(cfg.entry, inits, starts, edge_ok=cfg.normal_only)
    chk.ob("data-secure-initialised-before-any-connection-start", st.site(), ok, f"KNXIPInterface._start: every path to one of the {len(starts)} connection starts passes data_secure_init (normal completion)", key="wiring|order")


def check_key_issue(chk: Check, repo: Repo) -> None:
    h = repo.func("xknx.cemi.cemi_handler", "CEMIHandler.handle_data_secure_key_issue")
    chk.unit(h)
    names = {call_name(c) for c in calls(h.node)}
    bad = {n for n in names if n.endswith("put_nowait") or "management" in n or n.endswith("devices.process") or n == "self.telegram_received"}
    chk.ob("key-issue-not-delivered", h.site(), not bad and any(n.endswith("received_data_secure_group_key_issue") for n in names), f"handle_data_secure_key_issue calls {sorted(names)}; delivery calls: {sorted(bad)}", key="key-issue-not-delivered")
    q = repo.func("xknx.core.telegram_queue", "TelegramQueue.received_data_secure_group_key_issue")
    chk.unit(q)
    names_q = {call_name(c) for c in calls(q.node)}
    cb_calls = [c for c in calls(q.node) if isinstance(c.func, ast.Name)]
    isolated = True
    cfgq = CFG(q.node)
    for n in cfgq.nodes:
        if n.kind == "stmt" and n.ast is not None and any(c in cb_calls for c in calls(n.ast)):
            isolated = isolated and any(any(hh.type is not None and ast.unparse(hh.type) == "Exception" for hh in t.handlers) for t in n.tries) and bool(n.loops)
    bad_q = {n for n in names_q if n.endswith("put_nowait") or "devices" in n or "telegram_received" in n}
    chk.ob("key-issue-callbacks-isolated", q.site(), bool(cb_calls) and isolated and not bad_q, "key-issue callbacks are called inside the loop, each under try/except Exception; nothing else is reached", key="key-issue-callbacks-isolated")
    # "only reported to the key-issue callbacks" means to every one of them, without raising: a callback that
    # unregisters itself while the live registry is walked shifts a list (the callback registered behind it never
    # hears of the frame) and makes a set/dict raise RuntimeError out of the receive path
    from .common_rules import dispatch_iterates_a_snapshot
    dispatch_iterates_a_snapshot(chk, repo, q, "_data_secure_group_key_issue_cbs", "the registered key-issue callbacks", "key-issue|snapshot")


def run(chk: Check, repo: Repo) -> None:
    table_received(chk, repo)
    table_outgoing(chk, repo)
    check_key_issue(chk, repo)
    incoming_gate(chk, repo)
    configuration_wiring(chk, repo)
    chk.rule("E7 decision tables of DataSecure.received_cemi (over every APCI payload class) and outgoing_cemi; E4 must-pass-through of outgoing_cemi in send_telegram; E5 callee census of the key-issue path")
    try:
        from .c18_noraise import check_no_raise
    except ImportError:
        check_no_raise = None
    if check_no_raise is not None:
        check_no_raise(chk, repo)
    else:
        chk.notes.append("no-raise clause: may-raise engine not yet wired in")
    chk.assume("delivery of a DataSecureError to the key-issue handler only: C14 routing table")
