"""C07 — datapoint decoding is total with declared errors only.

E1 may-raise analysis of `from_knx` of every concrete datapoint type (MRO-resolved body, class constants bound to
the concrete class), under the input assumption "payload is a DPTBinary (0..63) or a DPTArray of octets, of any
length": only CouldNotParseTelegram / ConversionError can leave it.  The contract of
DPTBase.validate_payload (exactly payload_length octets / one value below 2**payload_length, else
CouldNotParseTelegram) that the discharge rules rely on is checked on its own CFG.  The consumer calls the eager
decode (GroupAddressDPT.set_decoded_data) before its protecting try: its escape set must be empty.
"""

from __future__ import annotations

import ast

from ..astx import call_name, calls, walk_local
from ..cfg import CFG
from ..loader import NOFOLD, AnalysisError, Repo
from ..report import Check
from .e1_common import check_entry, engine, finish

DECLARED = ("CouldNotParseTelegram", "ConversionError")


def concrete_dpts(repo: Repo):
    base = repo.cls("xknx.dpt.dpt", "DPTBase")
    out = []
    for c in repo.subclasses(base, strict=True):
        abstract = False
        for m in ("from_knx", "to_knx"):
            f = repo.lookup_method(c, m)
            if f is None or any("abstractmethod" in d for d in f.decorators):
                abstract = True
        if not abstract:
            out.append(c)
    return out


def validate_contract(chk: Check, repo: Repo) -> None:
    fi = repo.func("xknx.dpt.dpt", "DPTBase.validate_payload")
    chk.unit(fi)
    cfg = CFG(fi.node)
    mf = cfg.must_facts()
    rets = [n for n in cfg.nodes if isinstance(n.ast, ast.Return)]
    ok = len(rets) == 2
    details = []
    for r in rets:
        facts = {t: v for t, v in mf[r.id]}
        txt = ast.unparse(r.ast.value)
        if txt == "payload.value":
            good = facts.get("cls.payload_length == len(payload.value)") is True and facts.get("isinstance(payload, DPTArray)") is True and facts.get("cls.payload_type is DPTArray") is True
            # ... and only when every element is an integer: DPTArray range-checks integers only, so a list from JSON can
            # hold floats or text - the decoders index, shift and mask these elements (TypeError) or copy them into the value
            octets = any(v and a.startswith("all(") and "isinstance(" in a and ", int)" in a and "payload.value" in a for a, v in mf[r.id])
            chk.ob("decoders-see-octets-only", fi.site(r.ast), octets, "validate_payload hands the elements to the decoder " + ("only after all(isinstance(.., int) ..) held" if octets else "without checking that they are integers"), key="validate-octets")
        elif txt == "(payload.value,)":
            good = facts.get("payload.value >= 2 ** cls.payload_length") is False and facts.get("isinstance(payload, DPTBinary)") is True and facts.get("cls.payload_type is DPTBinary") is True
        else:
            good = False
        details.append(f"`return {txt}` under {sorted(k for k, v in facts.items())}: {good}")
        ok = ok and good
    # everything else raises CouldNotParseTelegram: no path falls off the end (implicit `return None`), and every raise
    # statement of the function raises that class
    byid = {n.id: n for n in cfg.nodes}
    falls_off = [p_ for p_, _ in byid[cfg.exit].pred if not isinstance(byid[p_].ast, ast.Return)]
    raises_ = [n for n in cfg.nodes if isinstance(n.ast, ast.Raise)]
    ok = ok and not falls_off and bool(raises_) and all(n.ast.exc is not None and "CouldNotParseTelegram" in ast.unparse(n.ast.exc) for n in raises_)
    chk.ob("validate-payload-contract", fi.site(), ok, "validate_payload returns the octets only when their count equals payload_length (DPTArray) or the single value only when below 2**payload_length (DPTBinary), and raises CouldNotParseTelegram otherwise: " + "; ".join(details), key="validate-contract")
    overrides = [c.name for c in repo.subclasses(repo.cls("xknx.dpt.dpt", "DPTBase"), strict=True) if "validate_payload" in c.methods]
    chk.ob("validate-payload-contract", fi.site(), not overrides, f"validate_payload overrides: {overrides}", key="validate-overrides")


def run(chk: Check, repo: Repo) -> None:
    mr = engine(repo)
    validate_contract(chk, repo)
    classes = concrete_dpts(repo)
    chk.floor("concrete datapoint types", len(classes), 200)
    bodies = set()
    n_bad = 0
    for c in sorted(classes, key=lambda x: x.name):
        f = repo.lookup_method(c, "from_knx")
        bodies.add(f.ref)
        bad = check_entry(chk, mr, f, DECLARED, ctx=c, label=f"{c.name}.from_knx")
        n_bad += len(bad)
    chk.count("distinct_from_knx_bodies", len(bodies))
    chk.floor("distinct decoder bodies", len(bodies), 25)
    # the consumer decodes before its own error handling
    sd = repo.func("xknx.core.group_address_dpt", "GroupAddressDPT.set_decoded_data")
    # transcoder.from_knx(...) is a call through a stored class: resolve to every concrete DPT (checked above)
    from ..astx import walk_local
    # the local holding the stored transcoder class (bound from self.get(<address>)) and the local(s) holding a logger method
    tnames = {(n.target if isinstance(n, ast.NamedExpr) else n.targets[0]).id for n in walk_local(sd.node) if (isinstance(n, ast.NamedExpr) or (isinstance(n, ast.Assign) and len(n.targets) == 1 and isinstance(n.targets[0], ast.Name))) and isinstance(n.value, ast.Call) and call_name(n.value) == "self.get"}
    lognames = {n.targets[0].id for n in walk_local(sd.node) if isinstance(n, ast.Assign) and len(n.targets) == 1 and isinstance(n.targets[0], ast.Name) and isinstance(n.value, ast.Attribute) and n.value.attr in ("debug", "info", "warning", "error") and "LOGGER" in ast.unparse(n.value.value).upper()}
    dec_calls = [c for c in calls(sd.node) if isinstance(c.func, ast.Attribute) and c.func.attr == "from_knx" and isinstance(c.func.value, ast.Name) and c.func.value.id in tnames]
    chk.floor("decode calls through the stored transcoder", len(dec_calls), 1)
    exc_tab = mr.exc
    for c in dec_calls:
        # the per-class analysis above shows each decoder raises at most DECLARED; here: the call is inside a try that catches all of them
        caught: set[str] = set()
        for t in walk_local(sd.node):
            if isinstance(t, ast.Try) and any(x is c for b in t.body for x in ast.walk(b)):
                for h in t.handlers:
                    names = [ast.unparse(x).split(".")[-1] for x in (h.type.elts if isinstance(h.type, ast.Tuple) else [h.type])] if h.type is not None else ["BaseException"]
                    if not any(isinstance(x, ast.Raise) for b in h.body for x in ast.walk(b)):
                        caught.update(names)
        missing = [d for d in DECLARED if not any(exc_tab.is_subclass(d, k) for k in caught)]
        chk.ob("eager-decode-errors-are-handled", sd.site(c), not missing, f"`{ast.unparse(c)[:60]}` runs inside handlers for {sorted(caught)}" + (f" — {missing} (raised by decoders for a payload that cannot be converted) escapes into the telegram consumer, whose loop ends: nothing queued afterwards is processed or marked done" if missing else f", which cover everything a decoder may raise {sorted(DECLARED)}"), key="consumer-decode-handled")

    def cb(fi, c):
        if fi.qualname == "GroupAddressDPT.set_decoded_data" and isinstance(c.func, ast.Attribute) and isinstance(c.func.value, ast.Name) and c.func.value.id in tnames and c.func.attr in ("from_knx", "dpt_name"):
            return []  # from_knx: analysed per class above, and handled (obligation above); dpt_name: a classmethod returning text
        if fi.qualname == "GroupAddressDPT.set_decoded_data" and isinstance(c.func, ast.Name) and c.func.id in lognames:
            return []
        return None
    mr2 = engine(repo, callback_targets=cb)
    # no reviewed entry: an assertion on the telegram's shape here ends the consumer for a hand-built telegram (a group
    # value service addressed to an individual address - repaired 847eb28)
    check_entry(chk, mr2, sd, (), label="GroupAddressDPT.set_decoded_data (runs outside the consumer's try)")
    tc = repo.func("xknx.core.telegram_queue", "TelegramQueue._telegram_consumer")
    chk.unit(tc)
    cfg = CFG(tc.node)
    dec = [n for n in cfg.nodes if n.kind == "stmt" and n.ast is not None and any(call_name(c).endswith("set_decoded_data") for c in calls(n.ast))]
    chk.ob("eager-decode-site", tc.site(), len(dec) == 1 and not dec[0].tries, "the consumer calls set_decoded_data outside any try (hence its escape set must be empty, shown above)", key="consumer-decode-site")
    chk.rule("E1 may-raise analysis of every concrete DPT from_knx (per class constants) and of GroupAddressDPT.set_decoded_data; contract check of DPTBase.validate_payload by CFG must-facts")
    chk.assume("payloads are DPTBinary(0..63) or DPTArray of octets (what the cEMI/APCI parsers produce)")
    finish(chk, mr)
