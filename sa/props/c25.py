"""C25 — connection lifecycle stays consistent under any failure schedule (structural part).

Decided (step-level, all schedules by induction):
 (a) ConnectionManager._connection_state_changed table over {state equal/different} x {new state}: no-op on
     equal state; otherwise the state is written once, `connected` is set iff the new state is CONNECTED
     (cleared otherwise) and every registered callback is called exactly once, after the write.
 (b) census of every connection_state_changed(...) call: CONNECTED is reported only after a successful
     connect (dominated by the awaited transport/connect request), DISCONNECTED on every teardown path.
 (c) single reconnect: _tunnel_lost table over {auto_reconnect} x {reconnect task running?}; the task slot's
     writers; _reconnect's retry loop (fail -> sleep -> retry, success -> done); disconnect() stops the
     heartbeat, reports DISCONNECTED, cancels the reconnect and closes the transport on every exit.
 (d) task-slot discipline (E6) for the heartbeat task and the invalid-sequence-number reconnect task.
Not decided: "sends nothing after the user disconnected" and overlapping-failure races (would need a
sound may-happen-in-parallel analysis of asyncio tasks with cancellation).
"""

from __future__ import annotations

import ast
from itertools import product

from ..absmachine import AbsMachine, AList, Obj, Outcome, Raise, UNKNOWN, class_isinstance
from ..astx import attr_writes, call_name, call_sites, calls, method_name, walk_local
from ..cfg import CFG
from ..exctable import ExcTable
from ..explore import Explorer
from ..loader import NOFOLD, AnalysisError, EnumMember, Repo
from ..report import Check, canon

CM = "xknx.core.connection_manager"
T = "xknx.io.tunnel"
ST = "xknx.core.connection_state:XknxConnectionState"


def enum_hook(repo, fi):
    def hook(e, env):
        if isinstance(e, ast.Attribute):
            v = repo.fold(e, fi.module, fi.cls)
            if isinstance(v, EnumMember):
                return v
        return UNKNOWN
    return hook


def manager(chk: Check, repo: Repo) -> None:
    fi = repo.func(CM, "ConnectionManager._connection_state_changed")
    chk.unit(fi)
    cfg = CFG(fi.node)
    exc = ExcTable(repo)
    states = list(repo.enum_members(repo.cls("xknx.core.connection_state", "XknxConnectionState")))
    chk.floor("connection states", len(states), 3)
    cb1, cb2 = Obj("Callback", "cb1"), Obj("Callback", "cb2")
    for old, new in product(states, states):
        def cm(c: ast.Call, env):
            n = call_name(c)
            if n == "self.connected.set":
                return [Outcome("FLAG:set", None)]
            if n == "self.connected.clear":
                return [Outcome("FLAG:clear", None)]
            if n == "self._reset_counters":
                return [Outcome(None, None)]
            if isinstance(c.func, ast.Name) and isinstance(env.get(c.func.id), Obj) and env[c.func.id].cls == "Callback":
                return [Outcome(f"NOTIFY:{env[c.func.id].tag}(state={env.get('self._state')!r})", None)]
            return None
        am = AbsMachine(cfg, exc, cm, enum_hook(repo, fi))
        env = {"self._state": EnumMember(ST, old), "state": EnumMember(ST, new), "self._connection_state_changed_cbs": AList((cb1, cb2))}
        paths = Explorer(cfg, repo, am.step).run(cfg.entry, [], env)
        got = {(tuple(p.env.get("trace", ())), getattr(p.env.get("self._state"), "name", None), p.end_kind) for p in paths}
        if old == new:
            want = {((), old, "exit")}
        else:
            newr = repr(EnumMember(ST, new))
            want = {((("FLAG:set",) if new == "CONNECTED" else ("FLAG:clear",)) + (f"NOTIFY:cb1(state={newr})", f"NOTIFY:cb2(state={newr})"), new, "exit")}
        chk.ob("state-change-cell", fi.site(), got == want, f"{old} -> {new}: {sorted(map(str, got))}; reference {sorted(map(str, want))}", key=f"csc|{old}|{new}" + ("" if got == want else f"|{sorted(map(str, got))}"))
    ws = [w for w in attr_writes(repo, "_state", include_mutators=False) if w.func.module.name == CM]
    chk.ob("state-writers", fi.site(), sorted(w.func.name for w in ws) == ["__init__", "_connection_state_changed"], f"_state writers: {[w.func.qualname for w in ws]}", key="state-writers")
    flag = [(f.qualname, call_name(c)) for f in repo.all_functions() for c in calls(f.node) if call_name(c) in ("self.connected.set", "self.connected.clear") and f.module.name == CM]
    chk.ob("flag-owner", fi.site(), all(q == "ConnectionManager._connection_state_changed" for q, _ in flag) and len(flag) == 2, f"connected.set/clear sites: {flag}", key="flag-owner")
    ext = [(f.qualname, call_name(c)) for f in repo.all_functions() for c in calls(f.node) if call_name(c).endswith("connection_manager.connected.set") or call_name(c).endswith("connection_manager.connected.clear")]
    chk.ob("flag-owner", fi.site(), not ext, f"foreign writers of the connected flag: {ext}", key="flag-foreign")
    # public wrapper dispatches exactly once
    w = repo.func(CM, "ConnectionManager.connection_state_changed")
    chk.unit(w)
    cfgw = CFG(w.node)
    for loop in (None, Obj("Loop", "l")):
        def cm2(c, env):
            n = call_name(c)
            if n == "self._connection_state_changed":
                return [Outcome("DIRECT", None)]
            if n == "self._main_loop.call_soon_threadsafe":
                return [Outcome(f"SCHEDULED({ast.unparse(c.args[0])})", None)]
            return None
        am = AbsMachine(cfgw, exc, cm2)
        got = {tuple(p.env.get("trace", ())) for p in Explorer(cfgw, repo, am.step).run(cfgw.entry, [], {"self._main_loop": loop})}
        want = {("SCHEDULED(self._connection_state_changed)",)} if loop else {("DIRECT",)}
        chk.ob("wrapper-dispatches-once", w.site(), got == want, f"main loop {'registered' if loop else 'not registered'}: {sorted(got)}", key=f"wrapper|{bool(loop)}")


def state_reports(chk: Check, repo: Repo) -> None:
    sites = []
    for f in repo.all_functions():
        for c in calls(f.node):
            if call_name(c).endswith("connection_manager.connection_state_changed") and c.args:
                v = repo.fold(c.args[0], f.module, f.cls)
                sites.append((f, c, v.name if isinstance(v, EnumMember) else ast.unparse(c.args[0])))
    chk.floor("connection_state_changed call sites", len(sites), 7)
    allowed = {
        ("_Tunnel.connect", "CONNECTING"), ("_Tunnel.connect", "DISCONNECTED"), ("_Tunnel.connect", "CONNECTED"), ("_Tunnel._prepare_disconnect", "DISCONNECTED"),
        ("Routing.connect", "CONNECTING"), ("Routing.connect", "DISCONNECTED"), ("Routing.connect", "CONNECTED"), ("Routing.disconnect", "DISCONNECTED"),
    }
    for f, c, st in sites:
        chk.ob("state-report-site", f.site(c), (f.qualname, st) in allowed, f"{f.qualname} reports {st}", key=f"report|{f.qualname}|{st}")
    for modname, qual, need in ((T, "_Tunnel.connect", "self._connect_request"), ("xknx.io.routing", "Routing.connect", "self.transport.connect")):
        f = repo.func(modname, qual)
        chk.unit(f)
        cfg = CFG(f.node)
        con = [n for n in cfg.nodes if n.kind == "stmt" and n.ast is not None and any(call_name(c).endswith("connection_state_changed") and c.args and ast.unparse(c.args[0]).endswith(".CONNECTED") for c in calls(n.ast))]
        dis = [n for n in cfg.nodes if n.kind == "stmt" and n.ast is not None and any(call_name(c).endswith("connection_state_changed") and c.args and ast.unparse(c.args[0]).endswith(".DISCONNECTED") for c in calls(n.ast))]
        est = [n for n in cfg.nodes if n.kind == "stmt" and n.ast is not None and any(call_name(c) == need for c in calls(n.ast))]
        ok = len(con) == 1 and len(est) == 1 and cfg.dominates(est[0].id, con[0].id)
        # CONNECTED not reachable from the exceptional exit of the establishing call
        if ok:
            exc_targets = [t for t, lab in est[0].succ if lab == "exc"]
            ok = not (cfg.reachable(exc_targets) & {con[0].id})
        chk.ob("connected-only-after-success", f.site(), ok, f"{qual}: CONNECTED is reported only after `{need}()` completed normally", key=f"connected-after|{qual}")
        # failure path reports DISCONNECTED and re-raises
        ok2 = bool(dis) and all(d.handlers for d in dis) and cfg.all_paths_hit(dis[0].id, [cfg.raise_exit], ends=[cfg.exit, cfg.raise_exit]) and cfg.exit not in cfg.reachable([dis[0].id], avoid=[cfg.raise_exit])
        chk.ob("failed-connect-reports-disconnected", f.site(), ok2, f"{qual}: the failure handler reports DISCONNECTED and leaves by raising", key=f"disc-on-fail|{qual}")
    for modname, qual in ((T, "_Tunnel._prepare_disconnect"), ("xknx.io.routing", "Routing.disconnect")):
        f = repo.func(modname, qual)
        cfg = CFG(f.node)
        dis = [n.id for n in cfg.nodes if n.kind == "stmt" and n.ast is not None and any(call_name(c).endswith("connection_state_changed") for c in calls(n.ast))]
        chk.ob("teardown-reports-disconnected", f.site(), bool(dis) and cfg.all_paths_hit(cfg.entry, dis, ends=[cfg.exit]), f"{qual}: every normal path reports DISCONNECTED", key=f"teardown|{qual}")
    # every teardown entry point goes through _prepare_disconnect
    for qual in ("_Tunnel._reconnect", "_Tunnel.disconnect", "_Tunnel._tunnel_lost"):
        f = repo.func(T, qual)
        chk.unit(f)
        cfg = CFG(f.node)
        pd = [n.id for n in cfg.nodes if n.kind == "stmt" and n.ast is not None and any(call_name(c) == "self._prepare_disconnect" for c in calls(n.ast))]
        if qual == "_Tunnel._tunnel_lost":
            # only the no-reconnect branch tears down here; the reconnect branch does it inside _reconnect
            mf = cfg.must_facts()
            ok = len(pd) == 1 and ("self.auto_reconnect", False) in mf[pd[0]]
            ts = [n.id for n in cfg.nodes if n.kind == "stmt" and n.ast is not None and any(call_name(c) == "self.transport.stop" for c in calls(n.ast))]
            ok = ok and bool(ts)
        else:
            first = [n for n in cfg.nodes if n.kind == "stmt" and n.ast is not None and not (isinstance(n.ast, ast.Expr) and isinstance(n.ast.value, ast.Constant))]
            ok = len(pd) >= 1 and cfg.all_paths_hit(cfg.entry, pd, ends=[cfg.exit, cfg.raise_exit])
        chk.ob("teardown-through-prepare-disconnect", f.site(), ok, f"{qual} passes _prepare_disconnect() (heartbeat stop + DISCONNECTED)", key=f"prepare|{qual}")
    pdm = {c.name: c.methods["_prepare_disconnect"] for c in repo.subclasses(repo.cls(T, "_Tunnel")) if "_prepare_disconnect" in c.methods}
    for name, m in pdm.items():
        if name != "_Tunnel":
            chk.ob("prepare-disconnect-override-calls-super", m.site(), any(call_name(c) == "super()._prepare_disconnect" for c in calls(m.node)), f"{name}._prepare_disconnect calls super()", key=f"prepare-super|{name}")


def reconnect(chk: Check, repo: Repo) -> None:
    exc = ExcTable(repo)
    tl = repo.func(T, "_Tunnel._tunnel_lost")
    cfg = CFG(tl.node)
    # the flag disconnect() raises before it first yields (a user disconnect is in progress), found by what the code does
    dcf = repo.func(T, "_Tunnel.disconnect")
    dcfg = CFG(dcf.node)
    awaits_ = [n.id for n in dcfg.nodes if n.ast is not None and n.kind in ("stmt", "test", "with") and any(isinstance(x, ast.Await) for x in ast.walk(n.ast))]
    flags = []
    for n in dcfg.nodes:
        if n.kind == "stmt" and isinstance(n.ast, ast.Assign) and len(n.ast.targets) == 1 and isinstance(n.ast.targets[0], ast.Attribute) and ast.unparse(n.ast.targets[0].value) == "self" and isinstance(n.ast.value, ast.Constant) and n.ast.value.value is True:
            if awaits_ and all(dcfg.dominates(n.id, a) for a in awaits_):
                flags.append(n.ast.targets[0].attr)
    flag = flags[0] if len(flags) == 1 else None
    chk.ob("user-disconnect-is-flagged-before-it-yields", dcf.site(), flag is not None, f"disconnect() sets {['self.' + f for f in flags]} = True before its first await" if flag else "disconnect() raises no flag before it awaits the DisconnectResponse: a server DisconnectRequest, heartbeat failure or failed send in that window calls _tunnel_lost(), which cannot tell that the user is disconnecting and starts a reconnect (a ConnectRequest is sent after the user disconnected)", key="disconnect-flag")
    # the flag connect() raises while it is pending (no tunnel to lose yet: the attempt reports its own failure)
    cnf = repo.func(T, "_Tunnel.connect")
    ccfg = CFG(cnf.node)
    c_awaits = [n.id for n in ccfg.nodes if n.ast is not None and n.kind in ("stmt", "test", "with") and any(isinstance(x, ast.Await) for x in ast.walk(n.ast))]
    cflags = []
    for n in ccfg.nodes:
        if n.kind == "stmt" and isinstance(n.ast, ast.Assign) and len(n.ast.targets) == 1 and isinstance(n.ast.targets[0], ast.Attribute) and ast.unparse(n.ast.targets[0].value) == "self" and isinstance(n.ast.value, ast.Constant) and n.ast.value.value is True:
            if c_awaits and all(ccfg.dominates(n.id, a) for a in c_awaits):
                cflags.append(n.ast.targets[0].attr)
    cflag = cflags[0] if len(cflags) == 1 else None
    cleared = cflag is not None and any(isinstance(t, ast.Try) and any(isinstance(x, ast.Assign) and ast.unparse(x.targets[0]) == f"self.{cflag}" and isinstance(x.value, ast.Constant) and x.value.value is False for x in t.finalbody) for t in walk_local(cnf.node))
    chk.ob("pending-connect-is-flagged", cnf.site(), cflag is not None and cleared, f"connect() sets self.{cflag} = True before its first await and clears it in `finally`" if cflag and cleared else "connect() raises no flag while it is pending (or does not clear it on every exit): a transport loss during the attempt (gateway closes the TCP connection on the ConnectRequest) makes _tunnel_lost() start a reconnect task next to the pending connect() — two connection attempts at once, and a reconnect loop nobody owns once connect() raises", key="connect-flag")
    # a user disconnect arriving while connect() is suspended is honoured: the disconnect flag is re-tested after the
    # transport is up (before the ConnectRequest) and after the ConnectResponse (before the tunnel is declared established)
    if flag is not None:
        def nodes_calling(name: str) -> list[int]:
            return [n.id for n in ccfg.nodes if n.ast is not None and n.kind == "stmt" and any(call_name(c) == name for c in calls(n.ast))]
        tests = [n.id for n in ccfg.nodes if n.kind == "test" and n.ast is not None and ast.unparse(n.ast) in (f"self.{flag}", f"not self.{flag}")]
        tc, cr, est = nodes_calling("self.transport.connect"), nodes_calling("self._connect_request"), nodes_calling("self._tunnel_established")
        ok_h = bool(tc) and bool(cr) and bool(est) and ccfg.all_paths_hit(tc[0], tests, cr, edge_ok=ccfg.normal_only, include_start=False) and ccfg.all_paths_hit(cr[0], tests, est, edge_ok=ccfg.normal_only, include_start=False)
        chk.ob("disconnect-during-connect-is-honoured", cnf.site(), ok_h, f"connect() re-tests self.{flag} between the transport connect and the ConnectRequest, and between the ConnectResponse and _tunnel_established" if ok_h else f"connect() clears self.{flag} on entry and does not test it again after its awaits: a disconnect() issued while connect() waits for the TCP handshake / ConnectResponse is forgotten — the ConnectRequest goes out and the tunnel reports CONNECTED after the user disconnected", key="connect-honours-disconnect")
    # a loss reported while connect() is suspended (a DisconnectRequest behind the ConnectResponse in the same TCP
    # segment, the transport going away) is not dropped either: the pending-connect branch of _tunnel_lost records it, and
    # connect() tests the record after the ConnectResponse, before it declares the tunnel established
    if cflag is not None:
        tmf = cfg.must_facts()
        rec = sorted({n.ast.targets[0].attr for n in cfg.nodes if n.kind == "stmt" and isinstance(n.ast, ast.Assign) and len(n.ast.targets) == 1 and isinstance(n.ast.targets[0], ast.Attribute) and ast.unparse(n.ast.targets[0].value) == "self"
                      and isinstance(n.ast.value, ast.Constant) and n.ast.value.value is True and (f"self.{cflag}", True) in tmf[n.id]})
        ok_l = False
        if len(rec) == 1:
            lf = rec[0]
            ltests = [n.id for n in ccfg.nodes if n.kind == "test" and n.ast is not None and ast.unparse(n.ast) in (f"self.{lf}", f"not self.{lf}")]
            cr_ = [n.id for n in ccfg.nodes if n.ast is not None and n.kind == "stmt" and any(call_name(c) == "self._connect_request" for c in calls(n.ast))]
            est_ = [n.id for n in ccfg.nodes if n.ast is not None and n.kind == "stmt" and any(call_name(c) == "self._tunnel_established" for c in calls(n.ast))]
            resets = [n.id for n in ccfg.nodes if n.kind == "stmt" and isinstance(n.ast, ast.Assign) and ast.unparse(n.ast.targets[0]) == f"self.{lf}" and isinstance(n.ast.value, ast.Constant) and n.ast.value.value is False]
            ok_l = bool(cr_) and bool(est_) and bool(ltests) and ccfg.all_paths_hit(cr_[0], ltests, est_, edge_ok=ccfg.normal_only, include_start=False) and any(all(ccfg.dominates(r_, a_) for a_ in c_awaits) for r_ in resets)
        chk.ob("loss-during-connect-is-honoured", cnf.site(), ok_l, (f"_tunnel_lost records a loss reported while connect() is pending (self.{rec[0]}), connect() clears the record before its first await and tests it between the ConnectResponse and _tunnel_established" if ok_l else
               f"a loss reported while connect() is pending is dropped (records: {rec}): a DisconnectRequest processed between the ConnectResponse and the resumption of connect() leaves the interface reading 'connected' for a channel the server has closed"), key="connect|loss-heard")
    # disconnect() stops the transport; a transport connect() that is still suspended in the TCP connection set-up has to
    # notice: it compares a marker that stop() changes with its value from before the await and gives up - else the
    # pending connect goes on (a secure session sends its SessionRequest, SessionAuthenticate ...) after the user's
    # disconnect() has returned
    tt = repo.cls("xknx.io.transport.tcp_transport", "TCPTransport")
    tstop, tcon = tt.methods.get("stop"), tt.methods.get("connect")
    ok_m, why_m = False, "TCPTransport.stop() leaves no mark a pending connect() could see"
    if tstop is not None and tcon is not None:
        chk.unit(tcon)
        marks = sorted({ast.unparse(n.target if isinstance(n, ast.AugAssign) else n.targets[0]) for n in walk_local(tstop.node) if isinstance(n, (ast.AugAssign, ast.Assign)) and ast.unparse(n.target if isinstance(n, ast.AugAssign) else n.targets[0]).startswith("self._")})
        tc_cfg = CFG(tcon.node)
        aw = [n.id for n in tc_cfg.nodes if n.ast is not None and n.kind == "stmt" and any(isinstance(x, ast.Await) for x in ast.walk(n.ast))]
        for mk in marks:
            snaps = [(n.id, n.ast.targets[0].id) for n in tc_cfg.nodes if n.kind == "stmt" and isinstance(n.ast, ast.Assign) and isinstance(n.ast.targets[0], ast.Name) and ast.unparse(n.ast.value) == mk]
            for sid, loc in snaps:
                tests = [n.id for n in tc_cfg.nodes if n.kind == "test" and isinstance(n.ast, ast.Compare) and {ast.unparse(n.ast.left), ast.unparse(n.ast.comparators[0])} == {mk, loc}]
                if aw and tests and all(tc_cfg.dominates(sid, a) for a in aw) and all(tc_cfg.all_paths_hit(a, tests, [tc_cfg.exit], edge_ok=tc_cfg.normal_only, include_start=False) for a in aw):
                    ok_m, why_m = True, f"TCPTransport.connect() compares {mk} (changed by stop()) with its value from before the await and gives up on a difference"
    chk.ob("transport-connect-notices-a-stop", tcon.site() if tcon is not None else tt.module.relpath, ok_m, why_m + ("" if ok_m else ": disconnect() during the initial connect of a secure tunnel returns, and the SessionRequest is sent afterwards"), key="connect|stop-heard")
    for disc, conn_, auto, task, transport, channel in product((False, True), (False, True), (False, True), ("none", "running", "finished"), (False, True), (False, True)):
        if (disc and flag is None) or (conn_ and cflag is None) or (disc and conn_):
            continue

        def cm(c, env, task=task):
            n = call_name(c)
            if n == "asyncio.create_task":
                return [Outcome(f"CREATE_TASK({ast.unparse(c.args[0])})", Obj("Task", "new"))]
            if n == "self._reconnect_task.add_done_callback":
                return [Outcome(f"ON_DONE({ast.unparse(c.args[0])})", None)]
            if n == "self._reconnect_task.done":
                return [Outcome(None, task == "finished")]
            if n == "self._prepare_disconnect":
                return [Outcome("PREPARE_DISCONNECT", None)]
            if n == "self.transport.send":
                return [Outcome("SEND_DISCONNECT_REQUEST", None)]
            if n == "self.transport.stop":
                return [Outcome("TRANSPORT_STOP", None)]
            if n.startswith("logger.") or n in ("DisconnectRequest", "KNXIPFrame.init_from_body", "self._reconnect"):
                return [Outcome(None, Obj("x", n))]
            return None
        am = AbsMachine(cfg, exc, cm)
        old = Obj("Task", "old") if task != "none" else None
        env = {"self.auto_reconnect": auto, "self._reconnect_task": old, "self.transport.transport": Obj("Transport", "t") if transport else None, "self.communication_channel": 7 if channel else None}
        if flag is not None:
            env[f"self.{flag}"] = disc
        if cflag is not None:
            env[f"self.{cflag}"] = conn_
        paths = Explorer(cfg, repo, am.step).run(cfg.entry, [], env)
        got = {(tuple(p.env.get("trace", ())), repr(p.env.get("self._reconnect_task"))) for p in paths}
        if disc or conn_:
            want = {((), repr(old))}  # the user is disconnecting (disconnect() tears down) / a connect() is pending (it reports its own failure): nothing is started or sent here
        elif auto:
            if task == "running":
                want = {((), repr(old))}
            else:  # no task, or one that has finished but whose done-callback has not run yet
                want = {(("CREATE_TASK(self._reconnect())", "ON_DONE(_reconnect_task_cleanup)"), repr(Obj("Task", "new")))}
        else:
            tr = ("PREPARE_DISCONNECT",) + ((("SEND_DISCONNECT_REQUEST",) if channel else ()) + ("TRANSPORT_STOP",) if transport else ())
            want = {(tr, repr(old))}
        chk.ob("tunnel-lost-cell", tl.site(), got == want, f"user_disconnecting={disc} connect_pending={conn_} auto_reconnect={auto} reconnect_task={task} transport={transport} channel={channel}: {sorted(map(str, got))}; reference {sorted(map(str, want))}", key=f"lost|{disc}|{conn_}|{auto}|{task}|{transport}|{channel}" + ("" if got == want else f"|{sorted(map(str, got))}"))
    # cleanup callback resets the slot — only if it still holds the task that finished (a newer task may be there)
    nested = repo.nested_functions(tl)
    ok = False
    if len(nested) == 1:
        nf = nested[0]
        tparam = nf.node.args.args[0].arg if nf.node.args.args else None
        resets = [n for n in walk_local(nf.node) if isinstance(n, ast.Assign) and ast.unparse(n.targets[0]) == "self._reconnect_task" and ast.unparse(n.value) == "None"]
        ncfg = CFG(nf.node)
        nmf = ncfg.must_facts()
        ok = len(resets) == 1 and tparam is not None and any(v and a in (f"self._reconnect_task is {tparam}", f"{tparam} is self._reconnect_task") for n in ncfg.nodes if n.ast is resets[0] for a, v in nmf[n.id])
    chk.ob("reconnect-slot-reset-on-done", tl.site(), ok, "the done-callback of a reconnect task resets the slot to None only while the slot still holds that task (a finished task does not block the next reconnect, and its late callback does not drop a newer task)", key="reconnect-cleanup")
    ws = [w for w in attr_writes(repo, "_reconnect_task", include_mutators=False)]
    for w in ws:
        q = w.func.qualname
        ok = q in ("_Tunnel.__init__", "_Tunnel._tunnel_lost", "_Tunnel._tunnel_lost.<locals>._reconnect_task_cleanup") or (q == "_Tunnel._tunnel_lost")
        chk.ob("reconnect-slot-writer", w.func.site(w.stmt), ok, f"`{canon(w.stmt)[:70]}` in {q}", key=f"reconnect-writer|{q}|{canon(w.stmt)[:40]}")
    creators = [f.qualname for f in repo.all_functions() for c in calls(f.node) if call_name(c) == "asyncio.create_task" and c.args and ast.unparse(c.args[0]) == "self._reconnect()"]
    chk.ob("reconnect-single-creator", tl.site(), creators == ["_Tunnel._tunnel_lost"], f"_reconnect() tasks are created in {creators}", key="reconnect-creator")
    # _reconnect loop
    rc = repo.func(T, "_Tunnel._reconnect")
    cfgr = CFG(rc.node)
    def cmr(c, env):
        n = call_name(c)
        if n == "self.connect":
            return [Outcome("CONNECT:ok", None), Outcome("CONNECT:fail", Raise("CommunicationError"))]
        if n == "asyncio.sleep":
            return [Outcome(f"SLEEP({ast.unparse(c.args[0])})", None)]
        if n == "self._prepare_disconnect":
            return [Outcome("PREPARE_DISCONNECT", None)]
        if n == "self._disconnect_request":
            return [Outcome("DISCONNECT_REQUEST", None)]
        if n == "self.transport.stop":
            return [Outcome("TRANSPORT_STOP", None)]
        if n.startswith("logger."):
            return [Outcome(None, None)]
        return None
    heads = [n for n in cfgr.nodes if n.kind == "join" and isinstance(n.ast, ast.While) and not n.loops and any(l in ("loop", "continue") for _, l in n.pred)]
    if len(heads) != 1:
        raise AnalysisError("_reconnect: retry loop not found")
    head = heads[0].id
    am = AbsMachine(cfgr, exc, cmr)
    pre = {tuple(p.env.get("trace", ())) for p in Explorer(cfgr, repo, am.step).run(cfgr.entry, [head], {"self.transport.transport": Obj("Transport", "t")})}
    chk.ob("reconnect-prologue", rc.site(), pre == {("PREPARE_DISCONNECT", "DISCONNECT_REQUEST", "TRANSPORT_STOP")}, f"before the retry loop: {sorted(pre)}", key="reconnect-prologue")
    it = {(tuple(p.env.get("trace", ())), "head" if p.end == head else p.end_kind) for p in Explorer(cfgr, repo, am.step).run(head, [head], {"attempt": 1})}
    want = {(("CONNECT:ok",), "exit"), (("CONNECT:fail", "SLEEP(self.auto_reconnect_wait)"), "head")}
    chk.ob("reconnect-retry-loop", rc.site(), it == want, f"one iteration: {sorted(it)}; reference {sorted(want)}", key="reconnect-loop" + ("" if it == want else f"|{sorted(it)}"))
    # disconnect()
    dc = repo.func(T, "_Tunnel.disconnect")
    cfgd = CFG(dc.node)
    def cmd(c, env):
        n = call_name(c)
        if n == "self._prepare_disconnect":
            return [Outcome("PREPARE_DISCONNECT", None)]
        if n == "self._stop_reconnect":
            return [Outcome("STOP_RECONNECT", None)]
        if n == "self._disconnect_request":
            return [Outcome("DISCONNECT_REQUEST:ok", None), Outcome("DISCONNECT_REQUEST:fail", Raise("CommunicationError"))]
        if n == "self.transport.stop":
            return [Outcome("TRANSPORT_STOP", None)]
        return None
    am = AbsMachine(cfgd, exc, cmd)
    got = {(tuple(t for t in p.env.get("trace", ()) if not t.startswith("raise:")), p.end_kind) for p in Explorer(cfgd, repo, am.step).run(cfgd.entry, [], {})}
    want = {(("PREPARE_DISCONNECT", "STOP_RECONNECT", "DISCONNECT_REQUEST:ok", "TRANSPORT_STOP"), "exit"), (("PREPARE_DISCONNECT", "STOP_RECONNECT", "DISCONNECT_REQUEST:fail", "TRANSPORT_STOP"), "raise")}
    chk.ob("disconnect-shape", dc.site(), got == want, f"disconnect(): {sorted(got)}; reference {sorted(want)}", key="disconnect" + ("" if got == want else f"|{sorted(got)}"))
    sr = repo.func(T, "_Tunnel._stop_reconnect")
    chk.unit(sr)
    chk.ob("stop-reconnect-cancels", sr.site(), any(call_name(c) == "self._reconnect_task.cancel" for c in calls(sr.node)), "_stop_reconnect cancels a running reconnect task", key="stop-reconnect")


def task_slots(chk: Check, repo: Repo) -> None:
    exc = ExcTable(repo)
    hb = "xknx.io.data_connection"
    for qual, cells in (("ConnectionHeartbeat.start", (None, "old")), ("ConnectionHeartbeat.stop", (None, "old", "self"))):
        f = repo.func(hb, qual)
        chk.unit(f)
        cfg = CFG(f.node)
        for cell in cells:
            old = Obj("Task", "old") if cell == "old" else (Obj("Task", "me") if cell == "self" else None)
            def cm(c, env):
                n = call_name(c)
                if n == "self.stop":
                    return [Outcome("STOP", None)]
                if n == "asyncio.create_task":
                    return [Outcome("CREATE_TASK", Obj("Task", "new"))]
                if n == "asyncio.current_task":
                    return [Outcome(None, Obj("Task", "me"))]
                if n == "self._task.cancel":
                    return [Outcome("CANCEL", None)]
                if n == "self._run":
                    return [Outcome(None, Obj("coro", "run"))]
                return None
            am = AbsMachine(cfg, exc, cm)
            got = {(tuple(p.env.get("trace", ())), repr(p.env.get("self._task"))) for p in Explorer(cfg, repo, am.step).run(cfg.entry, [], {"self._task": old})}
            if qual.endswith("start"):
                want = {(("STOP", "CREATE_TASK"), repr(Obj("Task", "new")))}
            else:
                want = {((), "None")} if cell is None else ({(("CANCEL",), "None")} if cell == "old" else {((), "None")})
            chk.ob("heartbeat-slot", f.site(), got == want, f"{qual} with task={cell}: {sorted(got)}; reference {sorted(want)}", key=f"hb|{qual}|{cell}" + ("" if got == want else f"|{sorted(got)}"))
    ws = [w for w in attr_writes(repo, "_task", include_mutators=False) if w.func.cls is not None and w.func.cls.name == "ConnectionHeartbeat"]
    chk.ob("heartbeat-slot-writers", repo.func(hb, "ConnectionHeartbeat.start").site(), sorted(w.func.name for w in ws) == ["__init__", "start", "stop"], f"heartbeat task slot writers: {[w.func.name for w in ws]}", key="hb-writers")
    # invalid sequence number reconnect schedule
    f = repo.func(T, "UDPTunnel._invalid_sequence_number_reconnect_schedule")
    chk.unit(f)
    cfg = CFG(f.node)
    for sched, rec in product((None, "old"), (None, "old")):
        def cm(c, env):
            if call_name(c) == "asyncio.create_task":
                return [Outcome("CREATE_TASK", Obj("Task", "new"))]
            if call_name(c) == "_schedule_tunnel_lost":
                return [Outcome(None, Obj("coro", "c"))]
            return None
        am = AbsMachine(cfg, exc, cm)
        got = {tuple(p.env.get("trace", ())) for p in Explorer(cfg, repo, am.step).run(cfg.entry, [], {"self._invalid_sequence_number_reconnect_task": Obj("Task", "o") if sched else None, "self._reconnect_task": Obj("Task", "r") if rec else None, "seconds": 2})}
        want = {("CREATE_TASK",)} if (sched is None and rec is None) else {()}
        chk.ob("invalid-seq-schedule-slot", f.site(), got == want, f"scheduled={sched is not None} reconnect_running={rec is not None}: {sorted(got)}; reference {sorted(want)}", key=f"invseq|{sched}|{rec}")
    nested = repo.nested_functions(f)
    ok = len(nested) == 1
    if ok:
        body = nested[0].node
        idx = {canon(s): i for i, s in enumerate(body.body)}
        clr = [i for s, i in idx.items() if s == "self._invalid_sequence_number_reconnect_task = None"]
        lost = [i for s, i in idx.items() if s == "self._tunnel_lost()"]
        ok = bool(clr) and bool(lost) and clr[0] < lost[0]
    chk.ob("invalid-seq-schedule-clears-slot-first", f.site(), ok, "the scheduled coroutine clears its own slot before calling _tunnel_lost() (so the teardown does not cancel the running task itself)", key="invseq-clear")
    cz = repo.func(T, "UDPTunnel._cancel_invalid_sequence_number_reconnect_schedule")
    chk.unit(cz)
    cfgc = CFG(cz.node)
    for cell in (None, "old"):
        def cm(c, env):
            if call_name(c) == "self._invalid_sequence_number_reconnect_task.cancel":
                return [Outcome("CANCEL", None)]
            if call_name(c).startswith("logger."):
                return [Outcome(None, None)]
            return None
        am = AbsMachine(cfgc, exc, cm)
        got = {(tuple(p.env.get("trace", ())), repr(p.env.get("self._invalid_sequence_number_reconnect_task"))) for p in Explorer(cfgc, repo, am.step).run(cfgc.entry, [], {"self._invalid_sequence_number_reconnect_task": Obj("Task", "o") if cell else None})}
        want = {(("CANCEL",), "None")} if cell else {((), "None")}
        chk.ob("invalid-seq-cancel", cz.site(), got == want, f"cancel with task={cell}: {sorted(got)}", key=f"invseq-cancel|{cell}")


def transport_slot(chk: Check, repo: Repo) -> None:
    """A lost stream connection reaches the tunnel through `TCPTransport._connection_lost`, which tells a loss from a
    deliberate stop by the transport slot: `self.transport is not None` means nobody stopped it.  So the slot of a
    KNX/IP transport object is cleared only by `KNXIPTransport.stop()` - a second site that clears it (e.g. next to a
    `close()` whose `connection_lost` is meant to report the loss) makes the report look intentional: the interface keeps
    reading 'connected' with no connection, and no reconnect starts."""
    base = repo.cls("xknx.io.transport.ip_transport", "KNXIPTransport")
    fam = {c.name for c in [base] + repo.subclasses(base, strict=True)}
    ws = [w for w in attr_writes(repo, "transport", include_mutators=False) if w.func.cls is not None and w.func.cls.name in fam and isinstance(w.stmt, ast.Assign) and any(ast.unparse(t) == "self.transport" for t in w.stmt.targets)]
    clears = [w for w in ws if isinstance(w.stmt.value, ast.Constant) and w.stmt.value.value is None and w.func.name != "__init__"]
    chk.floor("clear sites of the transport slot", len(clears), 1)
    for w in clears:
        ok = w.func.qualname == "KNXIPTransport.stop"
        chk.ob("only-stop-clears-the-transport-slot", w.func.site(w.stmt), ok, f"`self.transport = None` in {w.func.qualname}" + ("" if ok else ": the loss reported for this connection afterwards passes `_connection_lost`'s guards as an intentional stop - the tunnel is never told, 'connected' stays set"), key=f"transport-slot|{w.func.qualname}")
    tl = repo.func("xknx.io.transport.tcp_transport", "TCPTransport._connection_lost")
    chk.unit(tl)
    cfg = CFG(tl.node)
    mf = cfg.must_facts()
    cbs = [n for n in cfg.nodes if n.ast is not None and n.kind == "stmt" and any(call_name(c) == "self._connection_lost_cb" for c in calls(n.ast))]
    ok = bool(cbs) and all(("self.transport is not None", True) in mf[n.id] or ("self.transport is None", False) in mf[n.id] or ("self.transport", True) in mf[n.id] for n in cbs)
    chk.ob("only-stop-clears-the-transport-slot", tl.site(), ok, "TCPTransport._connection_lost reports a loss only while the slot is set (the fact the rule above protects)", key="transport-slot|guard")


def connect_does_not_swallow_a_stop(chk: Check, repo: Repo) -> None:
    """`connect()` of an interface reports CONNECTED when the awaited set-up returns.  A set-up step that turns its own
    cancellation - `stop()` cancels what it waits for - into a normal return makes connect() go on as if the step had
    succeeded: CONNECTED is reported on a transport the user has just closed.  So in the routing connect path (transport
    connect, secure timer synchronisation) no `except asyncio.CancelledError` handler ends without raising."""
    n = 0
    for mod, qual in (("xknx.io.ip_secure", "SecureGroup.connect"), ("xknx.io.ip_secure", "SecureSequenceTimer.synchronize"), ("xknx.io.transport.udp_transport", "UDPTransport.connect"), ("xknx.io.routing", "Routing.connect")):
        f = repo.func(mod, qual)
        chk.unit(f)
        for h in [x for x in walk_local(f.node) if isinstance(x, ast.ExceptHandler) and x.type is not None and "CancelledError" in ast.unparse(x.type)]:
            n += 1
            ok = isinstance(h.body[-1], ast.Raise)
            # ... and the other way round: the handler may turn the cancellation of what it WAITS FOR (stop() cancels the
            # awaited reply) into an error, but not the cancellation of the task itself - that one looks the same from
            # inside (the awaited future is cancelled along with the task) and is told apart by `Task.cancelling()`
            for r in [x for st in h.body for x in ast.walk(st) if isinstance(x, ast.Raise) and x.exc is not None]:
                guards = [i_ for i_ in ast.walk(h) if isinstance(i_, ast.If) and any(y is r for b_ in i_.body for y in ast.walk(b_))]
                told = any("cancelling()" in ast.unparse(g.test) for g in guards)
                chk.ob("connect-does-not-swallow-a-stop", f.site(r), told, f"{qual}: `{ast.unparse(r)[:60]}` in the CancelledError handler " + ("only where the task itself is not being cancelled" if told else "also answers a cancellation of the connecting task itself: the cancellation request is lost, the caller sees an error instead"), key=f"connect-converts-task-cancel|{qual}")
            chk.ob("connect-does-not-swallow-a-stop", f.site(h), ok, f"{qual}: `except {ast.unparse(h.type)}` " + ("ends in raise" if ok else "returns normally: a stop() during this step lets connect() continue and report CONNECTED on the closed transport"), key=f"connect-swallows-cancel|{qual}")
    chk.count("cancellation handlers in the routing connect path", n)
    # ... and a disconnect() that ran while connect() was suspended in the transport's connect (plain UDP: nothing is
    # cancelled, the sockets are simply opened afterwards) is noticed: CONNECTED is reported only where the flag
    # disconnect() raises is known to be down, and the flag is lowered before the await, not after it
    rc = repo.func("xknx.io.routing", "Routing.connect")
    rd = repo.func("xknx.io.routing", "Routing.disconnect")
    chk.unit(rd)
    cfg = CFG(rc.node)
    mf = cfg.must_facts()
    conn = [x for x in cfg.nodes if x.ast is not None and x.kind == "stmt" and any(call_name(c).endswith("connection_state_changed") and any(ast.unparse(a_).endswith("XknxConnectionState.CONNECTED") for a_ in c.args) for c in calls(x.ast))]
    flags = sorted({ast.unparse(w.stmt.targets[0]) for w in attr_writes(repo, "_disconnecting", include_mutators=False) if w.func.qualname == "Routing.disconnect" and isinstance(w.stmt, ast.Assign) and isinstance(w.stmt.value, ast.Constant) and w.stmt.value.value is True})
    aw = [x for x in cfg.nodes if x.ast is not None and x.kind == "stmt" and any(isinstance(y, ast.Await) and "transport.connect" in ast.unparse(y) for y in ast.walk(x.ast))]
    lowered = [x for x in cfg.nodes if x.ast is not None and isinstance(x.ast, ast.Assign) and ast.unparse(x.ast.targets[0]) in flags and isinstance(x.ast.value, ast.Constant) and x.ast.value.value is False]
    ok = bool(conn) and bool(flags) and len(aw) == 1 and all(any((fl, False) in mf[x.id] or (f"not {fl}", True) in mf[x.id] for fl in flags) for x in conn) and bool(lowered) and all(aw[0].id in cfg.reachable([x.id], include_start=False) and x.id not in cfg.reachable([aw[0].id], include_start=False) for x in lowered)
    chk.ob("connect-notices-a-disconnect", rc.site(), ok, "Routing.connect reports CONNECTED only where the flag Routing.disconnect raises is down, lowering it before the transport's connect" if ok else "Routing.connect reports CONNECTED without looking whether disconnect() ran while it was suspended in the transport's connect: stop() during start() is undone - CONNECTED with no interface, sockets left open", key="routing-connect|disconnect-while-connecting")


def state_callbacks_are_isolated(chk: Check, repo: Repo) -> None:
    """Every registered callback is told of a change, and the interface that reports it goes on with its own steps (the
    tunnel's disconnect notifies DISCONNECTED before it sends the DisconnectRequest and closes the transport): a callback
    that raises is contained where it is called - the call sits in a `try` whose `except Exception` does not re-raise."""
    f = repo.func("xknx.core.connection_manager", "ConnectionManager._connection_state_changed")
    loops = [n for n in walk_local(f.node) if isinstance(n, (ast.For, ast.AsyncFor)) and "_connection_state_changed_cbs" in ast.unparse(n.iter)]
    ok = False
    if len(loops) == 1 and isinstance(loops[0].target, ast.Name):
        v = loops[0].target.id
        for t in [x for x in ast.walk(loops[0]) if isinstance(x, ast.Try)]:
            called = any(isinstance(c, ast.Call) and isinstance(c.func, ast.Name) and c.func.id == v for st in t.body for c in ast.walk(st))
            contained = any(h.type is not None and ast.unparse(h.type) in ("Exception", "BaseException") and not any(isinstance(x, ast.Raise) for st in h.body for x in ast.walk(st)) for h in t.handlers)
            ok = ok or (called and contained)
    chk.ob("state-callbacks-are-isolated", f.site(), ok, "each connection state callback is called inside try/except Exception (logged, not re-raised)" if ok else "a connection state callback that raises ends the dispatch: the callbacks behind it never learn of the change, and the exception aborts the interface's own connect / disconnect in the middle (DISCONNECTED reported, channel still open)", key="state-callbacks|isolated")


def run(chk: Check, repo: Repo) -> None:
    state_callbacks_are_isolated(chk, repo)
    transport_slot(chk, repo)
    connect_does_not_swallow_a_stop(chk, repo)
    from .common_rules import dispatch_iterates_a_snapshot
    dispatch_iterates_a_snapshot(chk, repo, repo.func("xknx.core.connection_manager", "ConnectionManager._connection_state_changed"), "_connection_state_changed_cbs", "the state-change callbacks", "snapshot|state-callbacks")
    manager(chk, repo)
    state_reports(chk, repo)
    reconnect(chk, repo)
    task_slots(chk, repo)
    chk.rule("E7 decision tables (abstract path enumeration) of the connection manager, _tunnel_lost, _reconnect, disconnect and the task-slot methods; E5 census of state reports and slot writers; E4 dominance of CONNECTED by the successful connect")
    chk.assume("not decided: 'sends nothing after the user disconnected' and freedom from overlapping-failure races (schedule-dependent; no sound may-happen-in-parallel analysis of asyncio tasks is available)")
