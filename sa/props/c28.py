"""C28 — IP Secure wrapping: wrap/unwrap agreement and tamper gate (structural part).

E10: encrypt_frame (sender) vs decrypt_frame (receiver) feed the CBC-MAC and the CTR primitive with
the same inputs after mapping the fields the sender puts into the SecureWrapper to the fields the
receiver reads from it; the wrapper header the sender authenticates is the header the frame will
carry (service type SECURE_WRAPPER, total length = 6 + SecureWrapper.calculated_length()).
E4/def-use: every protected component (header, session id, sequence information, serial number,
message tag, ciphertext, MAC) reaches the receiver's MAC computation / comparison, which gates the
return (C29 checks the gate itself).  Same agreement for timer notifications (send_timer_notify vs
verify_timer_notify_mac) and the SessionResponse MAC check in the handshake.
Does not decide conformance with an independent implementation (values of the cipher).
"""

from __future__ import annotations

import ast

from ..astx import call_name, calls, method_name, norm_cmp, walk_local
from ..cfg import CFG
from ..loader import NOFOLD, AnalysisError, EnumMember, Repo
from ..report import Check
from ..shape import bind_call, names_in, normalise, single_assignments

M = "xknx.io.ip_secure"
PRIM = "xknx.secure.security_primitives"


def _one(fn, name):
    cs = [c for c in calls(fn.node) if call_name(c) == name]
    if len(cs) != 1:
        raise AnalysisError(f"{fn.qualname}: expected exactly one {name}(...) call, found {len(cs)}")
    return cs[0]


def wrap_unwrap(chk: Check, repo: Repo) -> None:
    enc = repo.func(M, "_IPSecureTransportLayer.encrypt_frame")
    dec = repo.func(M, "_IPSecureTransportLayer.decrypt_frame")
    chk.unit(enc); chk.unit(dec)
    macfn = repo.func(PRIM, "calculate_message_authentication_code_cbc")
    encfn = repo.func(PRIM, "encrypt_data_ctr")
    decfn = repo.func(PRIM, "decrypt_ctr")
    ds, dr = single_assignments(enc.node), single_assignments(dec.node)
    p_dec = dec.node.args.args[1].arg
    # sender field map from the SecureWrapper(...) it builds
    sw = _one(enc, "SecureWrapper")
    fields = {k.arg: ast.unparse(k.value) for k in sw.keywords if k.arg}
    need = {"secure_session_id", "sequence_information", "serial_number", "message_tag", "encrypted_data", "message_authentication_code"}
    chk.ob("wrapper-fields", enc.site(sw), set(fields) == need, f"SecureWrapper built with fields {sorted(fields)}", key="wrapper-fields")
    e_call = _one(enc, "encrypt_data_ctr")
    d_call = _one(dec, "decrypt_ctr")
    es, er = bind_call(e_call, encfn), bind_call(d_call, decfn)
    # outputs of the CTR primitives
    e_stmt = [n for n in walk_local(enc.node) if isinstance(n, ast.Assign) and n.value is e_call]
    d_stmt = [n for n in walk_local(dec.node) if isinstance(n, ast.Assign) and n.value is d_call]
    if not e_stmt or not d_stmt or not isinstance(e_stmt[0].targets[0], ast.Tuple) or not isinstance(d_stmt[0].targets[0], ast.Tuple):
        raise AnalysisError("CTR primitive results are not tuple-unpacked")
    e_out = [ast.unparse(x) for x in e_stmt[0].targets[0].elts]
    d_out = [ast.unparse(x) for x in d_stmt[0].targets[0].elts]
    chk.ob("wrapper-carries-ctr-output", enc.site(sw), fields.get("encrypted_data") == e_out[0] and fields.get("message_authentication_code") == e_out[1], f"wrapper carries the CTR outputs {e_out}", key="wrapper-ctr-out")
    plain_s = ast.unparse(es["payload"])
    plain_r = d_out[0]
    # the sender's header local, found by what it is (4 constant octets + a 2-octet length), not by its name
    hdr_name = next((k for k, v in ds.items() if isinstance(v, ast.BinOp) and isinstance(v.op, ast.Add) and isinstance(repo.fold(v.left, enc.module, enc.cls), bytes) and len(repo.fold(v.left, enc.module, enc.cls)) == 4), None)
    if hdr_name is None:
        raise AnalysisError("encrypt_frame: the wrapper header (4 constant octets + total length) is not a single-assignment local")
    ren_s = {fields["sequence_information"]: "W.sequence_information", fields["serial_number"]: "W.serial_number", fields["message_tag"]: "W.message_tag", fields["secure_session_id"]: "W.secure_session_id", plain_s: "PLAIN", hdr_name: "HEADER"}
    ren_r = {f"{p_dec}.body.{f}": f"W.{f}" for f in need}
    ren_r.update({plain_r: "PLAIN", f"{p_dec}.header.to_knx()": "HEADER"})
    ds2 = {k: v for k, v in ds.items() if k not in ren_s}
    dr2 = {k: v for k, v in dr.items() if k not in ren_r}

    def norm_r(e):
        t = normalise(e, dr2, {})
        for k, v in sorted(ren_r.items(), key=lambda kv: -len(kv[0])):
            t = t.replace(k, v)
        return t

    def norm_s(e):
        return normalise(e, ds2, ren_s)

    ms, mr = bind_call(_one(enc, "calculate_message_authentication_code_cbc"), macfn), bind_call(_one(dec, "calculate_message_authentication_code_cbc"), macfn)
    for p in sorted(set(ms) | set(mr)):
        a = norm_s(ms[p]) if p in ms else "<absent>"
        b = norm_r(mr[p]) if p in mr else "<absent>"
        a = a.replace("self.session_id.to_bytes", "W.secure_session_id.to_bytes")
        chk.ob("mac-input-agreement", dec.site(), a == b, f"MAC argument `{p}`: sender `{a}` vs receiver `{b}`", key=f"wrap-mac|{p}")
    for p in ("key", "counter_0"):
        a = norm_s(es[p]) if p in es else "<absent>"
        b = norm_r(er[p]) if p in er else "<absent>"
        chk.ob("ctr-input-agreement", dec.site(d_call), a == b and a != "<absent>", f"CTR `{p}`: sender `{a}` vs receiver `{b}`", key=f"wrap-ctr|{p}")
    chk.ob("ctr-input-agreement", dec.site(d_call), norm_r(er.get("payload", ast.Constant(None))) == "W.encrypted_data" and norm_r(er.get("mac", ast.Constant(None))) == "W.message_authentication_code", "receiver decrypts the transmitted ciphertext and MAC", key="wrap-ctr|receiver-inputs")
    mac_s = [ast.unparse(n.targets[0]) for n in walk_local(enc.node) if isinstance(n, ast.Assign) and isinstance(n.value, ast.Call) and call_name(n.value) == "calculate_message_authentication_code_cbc"]
    chk.ob("ctr-input-agreement", enc.site(e_call), [ast.unparse(es.get("mac_cbc", ast.Constant(None)))] == mac_s, "sender encrypts the CBC-MAC it computed", key="wrap-ctr|sender-mac")
    # protected components all appear among the receiver's MAC/CTR inputs
    blob = " ".join(norm_r(v) for v in list(mr.values()) + list(er.values()))
    for comp in ("HEADER", "W.secure_session_id", "W.sequence_information", "W.serial_number", "W.message_tag", "W.encrypted_data", "W.message_authentication_code"):
        chk.ob("protected-component-reaches-mac", dec.site(), comp in blob, f"{comp} is an input of the receiver's MAC/CTR computation", key=f"wrap-protected|{comp}")
    # header the sender authenticates == header the frame carries
    hdr = ds.get(hdr_name)
    tl_name = hdr.right.func.value.id if isinstance(hdr, ast.BinOp) and isinstance(hdr.right, ast.Call) and isinstance(hdr.right.func, ast.Attribute) and hdr.right.func.attr == "to_bytes" and isinstance(hdr.right.func.value, ast.Name) and [repo.fold(a, enc.module, enc.cls) for a in hdr.right.args] == [2, "big"] else None
    tl = ds.get(tl_name) if tl_name else None
    sw_cls = repo.cls("xknx.knxip.secure_wrapper", "SecureWrapper")
    sec_info = repo.module_const("xknx.knxip.secure_wrapper", "SECURITY_INFORMATION_LENGTH")
    mac_len = repo.module_const("xknx.knxip.secure_wrapper", "MESSAGE_AUTHENTICATION_CODE_LENGTH")
    hl = repo.const(repo.cls("xknx.knxip.header", "KNXIPHeader"), "HEADERLENGTH")
    svc = repo.fold(ast.parse("KNXIPServiceType.SECURE_WRAPPER", mode="eval").body, repo.module(M))
    ok = False
    detail = "the wrapper header is not `<4 constant octets> + <total length local>.to_bytes(2, 'big')` with a single-assignment total length"
    if hdr is not None and tl is not None:
        t = normalise(tl, {k: v for k, v in ds2.items() if k != tl_name}, ren_s)
        prefix = repo.fold(hdr.left, enc.module, enc.cls)
        want_prefix = bytes([hl, 0x10]) + (svc.value.to_bytes(2, "big") if isinstance(svc, EnumMember) and isinstance(svc.value, int) else b"??") if isinstance(hl, int) else None
        want_total = (hl + sec_info + mac_len) if all(isinstance(x, int) for x in (hl, sec_info, mac_len)) else None
        ok = prefix == want_prefix and t in (f"{want_total} + len(PLAIN)", f"len(PLAIN) + {want_total}")
        detail = f"sender header prefix {prefix!r} (required {want_prefix!r}: header length, version 0x10, service SECURE_WRAPPER); total length = {t} (required {want_total} + len(PLAIN) = header {hl} + security info {sec_info} + MAC {mac_len} + payload)"
    chk.ob("authenticated-header-is-sent-header", enc.site(), ok, detail, key="wrap-header")


def mac_locals(fn) -> tuple[set[str], set[str]]:
    """(locals bound to a recomputed CBC-MAC, locals bound to the transmitted MAC recovered by decrypt_ctr) — by the
    calls that define them, not by their names"""
    cbc, tr = set(), set()
    for n in walk_local(fn.node):
        if isinstance(n, ast.Assign) and len(n.targets) == 1 and isinstance(n.value, ast.Call):
            t = n.targets[0]
            nm = call_name(n.value)
            if nm == "calculate_message_authentication_code_cbc" and isinstance(t, ast.Name):
                cbc.add(t.id)
            if nm == "decrypt_ctr" and isinstance(t, ast.Tuple) and len(t.elts) == 2 and isinstance(t.elts[1], ast.Name):
                tr.add(t.elts[1].id)
    return cbc, tr


def mismatch_fact(facts, cbc: set[str], tr: set[str]) -> bool:
    """the facts say: recomputed MAC != transmitted MAC"""
    for text, val in facts:
        nc = norm_cmp(ast.parse(text, mode="eval").body, val)
        if nc and nc[1] == "!=" and ((nc[0] in cbc and nc[2] in tr) or (nc[0] in tr and nc[2] in cbc)):
            return True
    return False


def match_fact(facts, cbc: set[str], tr: set[str]) -> bool:
    for text, val in facts:
        nc = norm_cmp(ast.parse(text, mode="eval").body, val)
        if nc and nc[1] == "==" and ((nc[0] in cbc and nc[2] in tr) or (nc[0] in tr and nc[2] in cbc)):
            return True
    return False


def timer_notify(chk: Check, repo: Repo) -> None:
    snd = repo.func(M, "SecureSequenceTimer.send_timer_notify")
    rcv = repo.func(M, "SecureSequenceTimer.verify_timer_notify_mac")
    chk.unit(snd); chk.unit(rcv)
    macfn = repo.func(PRIM, "calculate_message_authentication_code_cbc")
    tn = _one(snd, "TimerNotify")
    f = {k.arg: ast.unparse(k.value) for k in tn.keywords if k.arg}
    p = rcv.node.args.args[1].arg
    ds, dr = single_assignments(snd.node), single_assignments(rcv.node)
    # timer bytes: both sides serialise the timer value with to_bytes(6, 'big')
    ren_s = {f["serial_number"]: "N.serial_number", f["message_tag"]: "N.message_tag", f["timer_value"]: "N.timer_value"}
    ren_r = {f"{p}.serial_number": "N.serial_number", f"{p}.message_tag": "N.message_tag", f"{p}.timer_value": "N.timer_value"}

    def nr(e):
        t = normalise(e, dr, {})
        for k, v in ren_r.items():
            t = t.replace(k, v)
        return t

    ms, mr = bind_call(_one(snd, "calculate_message_authentication_code_cbc"), macfn), bind_call(_one(rcv, "calculate_message_authentication_code_cbc"), macfn)
    for q in sorted(set(ms) | set(mr)):
        a = normalise(ms[q], {k: v for k, v in ds.items() if k not in ren_s}, ren_s) if q in ms else "<absent>"
        b = nr(mr[q]) if q in mr else "<absent>"
        chk.ob("timer-mac-agreement", rcv.site(), a == b, f"TimerNotify MAC argument `{q}`: sender `{a}` vs receiver `{b}`", key=f"timer-mac|{q}")
    es = bind_call(_one(snd, "encrypt_data_ctr"), repo.func(PRIM, "encrypt_data_ctr"))
    er = bind_call(_one(rcv, "decrypt_ctr"), repo.func(PRIM, "decrypt_ctr"))
    for q in ("key", "counter_0"):
        a = normalise(es[q], {k: v for k, v in ds.items() if k not in ren_s}, ren_s)
        b = nr(er[q])
        chk.ob("timer-ctr-agreement", rcv.site(), a == b, f"TimerNotify CTR `{q}`: sender `{a}` vs receiver `{b}`", key=f"timer-ctr|{q}")
    chk.ob("timer-ctr-agreement", rcv.site(), nr(er.get("mac", ast.Constant(None))) == f"{p}.message_authentication_code", "receiver decrypts the transmitted MAC", key="timer-ctr|mac")
    # verification gate: mismatch raises
    cfg = CFG(rcv.node)
    raises = [n for n in cfg.nodes if isinstance(n.ast, ast.Raise) and "KNXSecureValidationError" in ast.unparse(n.ast)]
    mf = cfg.must_facts()
    cbc_n, tr_n = mac_locals(rcv)
    ok = any(mismatch_fact(mf[r.id], cbc_n, tr_n) for r in raises)
    exit_ok = match_fact(mf[cfg.exit], cbc_n, tr_n)
    chk.ob("timer-mac-gate", rcv.site(), ok and exit_ok, "verify_timer_notify_mac raises on MAC mismatch and returns normally only on equality", key="timer-gate")


def handshake(chk: Check, repo: Repo) -> None:
    hs = repo.func(M, "SecureSession.handshake")
    chk.unit(hs)
    cfg = CFG(hs.node)
    mf = cfg.must_facts()
    raises = [n for n in cfg.nodes if isinstance(n.ast, ast.Raise) and "IPSecureError" in ast.unparse(n.ast)]
    cbc_n, tr_n = mac_locals(hs)
    ok = any(("self._device_authentication_code", True) in mf[r.id] and mismatch_fact(mf[r.id], cbc_n, tr_n) for r in raises)
    chk.ob("handshake-mac-checked", hs.site(), ok, "with a device authentication code configured, a SessionResponse whose MAC differs from the recomputed one raises IPSecureError", key="handshake-gate")
    # the key derivation / authenticate MAC happen after the check
    key_w = [n for n in cfg.nodes if isinstance(n.ast, ast.Assign) and ast.unparse(n.ast.targets[0]) == "self._key"]
    chk.ob("handshake-order", hs.site(), bool(key_w) and bool(raises) and all(cfg.nodes[r.id].id not in cfg.reachable([k.id]) for r in raises for k in key_w), "the session key is derived only after the SessionResponse MAC check", key="handshake-order")
    # recomputed MAC covers header, session id and both public keys
    macs = [c for c in calls(hs.node) if call_name(c) == "calculate_message_authentication_code_cbc"]
    ds = single_assignments(hs.node)
    # the MAC call whose result is compared with the transmitted MAC (see the gate above)
    resp = [n.value for n in walk_local(hs.node) if isinstance(n, ast.Assign) and len(n.targets) == 1 and isinstance(n.targets[0], ast.Name) and n.targets[0].id in cbc_n and any(mismatch_fact(mf[r.id], {n.targets[0].id}, tr_n) for r in raises)]
    hdr_names = {k for k, v in ds.items() if isinstance(repo.fold(v, hs.module, hs.cls), bytes) and len(repo.fold(v, hs.module, hs.cls)) == 6}
    txt = normalise(bind_call(resp[0], repo.func(PRIM, "calculate_message_authentication_code_cbc"))["additional_data"], {k: v for k, v in ds.items() if k not in hdr_names}, {k: "RESPONSE_HEADER" for k in hdr_names}) if resp else ""
    sr = hs.node.args.args[1].arg
    chk.ob("handshake-mac-inputs", hs.site(), all(x in txt for x in ("RESPONSE_HEADER", "self.session_id.to_bytes(2, 'big')", "self.public_key", f"{sr}.ecdh_server_public_key")), f"SessionResponse MAC input: {txt}", key="handshake-inputs")


def cbc_padding(chk: Check, repo: Repo) -> None:
    """CBC-MAC zero padding is shorter than one AES block: every zero-fill `bytes(<n>)` that reaches the CBC input in
    xknx.secure has n in 0..15 (interval analysis with the constant block size every caller passes).  A fill that can be
    a whole block (e.g. `bytes(16 - len(x) % 16)`) authenticates a different message than the specification's."""
    from ..mayraise import MayRaise, _FuncAnalysis
    mr = MayRaise(repo, None)
    n = 0
    for mod in ("xknx.secure.security_primitives", "xknx.secure.util"):
        for f in repo.module(mod).functions.values():
            enc_vars = {n.targets[0].id for n in walk_local(f.node) if isinstance(n, ast.Assign) and len(n.targets) == 1 and isinstance(n.targets[0], ast.Name) and isinstance(n.value, ast.Call) and call_name(n.value).endswith(".encryptor")}

            def is_update(c: ast.Call) -> bool:
                return isinstance(c.func, ast.Attribute) and c.func.attr == "update" and isinstance(c.func.value, ast.Name) and c.func.value.id in enc_vars
            feeds_cbc = f.name == "byte_pad" or any(is_update(c) for c in calls(f.node))
            if not feeds_cbc or f.name not in ("byte_pad", "calculate_message_authentication_code_cbc"):
                continue
            an = _FuncAnalysis(mr, f, None)
            for c in calls(f.node):
                if call_name(c) == "bytes" and len(c.args) == 1 and not isinstance(c.args[0], (ast.List, ast.Tuple, ast.Constant, ast.Name, ast.Attribute, ast.Call)):
                    n += 1
                    cfg_facts = tuple(an.facts(c))
                    r = an.int_range(c.args[0], cfg_facts)
                    ok = r is not None and 0 <= r[0] and r[1] <= 15
                    chk.ob("cbc-zero-padding-shorter-than-a-block", f.site(c), ok, f"{f.qualname}: `{ast.unparse(c)}` fills {r if r else 'an unknown number of'} octets" + ("" if ok else " — may add a whole block (or an unbounded run) to the authenticated message"), key=f"pad|{f.qualname}|{ast.unparse(c)[:50]}")
            if f.name == "calculate_message_authentication_code_cbc":
                ups = [c for c in calls(f.node) if is_update(c)]
                ok = len(ups) == 1 and isinstance(ups[0].args[0], ast.Call) and call_name(ups[0].args[0]) == "byte_pad" and any(k.arg == "block_size" and repo.fold(k.value, f.module, None) == 16 for k in ups[0].args[0].keywords)
                chk.ob("cbc-input-is-padded-once-to-the-block-size", f.site(), ok, f"CBC input: {[ast.unparse(u.args[0])[:60] for u in ups]} (one update over byte_pad(.., block_size=16))", key="pad|cbc-input")
    chk.floor("zero-fill sites feeding CBC", n, 1)
    chk.floor("CBC input rules", sum(1 for o in chk.obligations if o.rule == "cbc-input-is-padded-once-to-the-block-size"), 1)


def run(chk: Check, repo: Repo) -> None:
    from .common_rules import kdf_parameters
    kdf_parameters(chk, repo, ["xknx.secure.security_primitives:derive_device_authentication_password", "xknx.secure.security_primitives:derive_user_password"])
    cbc_padding(chk, repo)
    wrap_unwrap(chk, repo)
    timer_notify(chk, repo)
    handshake(chk, repo)
    chk.rule("E10 sibling call-shape agreement of wrap/unwrap and timer-notify MAC/CTR inputs under the field map read from the constructed wrapper; E4 gates; def-use of protected components")
    chk.assume("encrypt_data_ctr/decrypt_ctr are inverse for equal key and counter_0; CBC-MAC is deterministic and collision resistant")
    chk.assume("conformance of the cipher values with an independent implementation is not decided (values, not structure)")
