"""Shared extraction for the Data Secure checks (C15, C16)."""

from __future__ import annotations

import ast
from dataclasses import dataclass

from ..astx import call_name, calls, method_name, walk_local
from ..cfg import CFG
from ..loader import AnalysisError, EnumMember, FuncInfo, Repo
from ..shape import bind_call, normalise, single_assignments

ASDU = "xknx.secure.data_secure_asdu"
MACFN = "calculate_message_authentication_code_cbc"


@dataclass
class Side:
    fi: FuncInfo
    cfg: CFG
    algo: str
    mac_call: ast.Call
    mac_node: object
    mac_trunc: str  # slice text applied to the MAC call result
    defs: dict[str, ast.expr]
    plaintext: str  # expression text playing the plaintext role
    seq: str  # expression text of the 6 sequence-number octets


def _algo_of(repo: Repo, fi: FuncInfo, facts) -> str | None:
    for text, val in facts:
        if not val or "algorithm" not in text:
            continue
        e = ast.parse(text, mode="eval").body
        if isinstance(e, ast.Compare) and len(e.ops) == 1 and isinstance(e.ops[0], (ast.Eq, ast.Is)):
            for side in (e.left, e.comparators[0]):
                v = repo.fold(side, fi.module, fi.cls)
                if isinstance(v, EnumMember) and v.enum.endswith("SecurityAlgorithmIdentifier"):
                    return v.name
    return None


def sides(repo: Repo, qual: str) -> dict[str, Side]:
    fi = repo.func(ASDU, qual)
    cfg = CFG(fi.node)
    mf = cfg.must_facts()
    defs_all = single_assignments(fi.node)
    out: dict[str, Side] = {}
    for n in cfg.nodes:
        if n.kind != "stmt" or n.ast is None:
            continue
        for c in calls(n.ast):
            if call_name(c) == MACFN:
                algo = _algo_of(repo, fi, mf[n.id])
                if algo is None:
                    raise AnalysisError(f"{qual}: MAC computation at line {c.lineno} is not under an algorithm test")
                if algo in out:
                    raise AnalysisError(f"{qual}: two MAC computations for {algo}")
                # truncation: the call must be the value of a Subscript
                trunc = ""
                for x in walk_local(n.ast):
                    if isinstance(x, ast.Subscript) and x.value is c:
                        trunc = ast.unparse(x.slice)
                out[algo] = Side(fi, cfg, algo, c, n, trunc, {}, "", "")
    if set(out) != {"CCM_AUTHENTICATION", "CCM_ENCRYPTION"}:
        raise AnalysisError(f"{qual}: MAC computations found for {sorted(out)}; both algorithms expected")
    return out


def branch_stmts(side: Side) -> list[ast.stmt]:
    """Statements of the algorithm branch containing the MAC call (the innermost if-body)."""
    target = side.mac_node.ast  # type: ignore[attr-defined]
    best: list[ast.stmt] | None = None
    for n in walk_local(side.fi.node):
        if isinstance(n, ast.If):
            for body in (n.body, n.orelse):
                if any(target is s or any(target is y for y in ast.walk(s)) for s in body):
                    best = body
    if best is None:
        raise AnalysisError(f"{side.fi.qualname}: branch of {side.algo} not found")
    return best


def branch_defs(side: Side) -> dict[str, ast.expr]:
    """Single-assignment locals visible in the branch: function-level ones outside any `if`, plus the branch's own."""
    d: dict[str, ast.expr] = {}
    for st in side.fi.node.body:
        if isinstance(st, ast.Assign) and len(st.targets) == 1 and isinstance(st.targets[0], ast.Name):
            d[st.targets[0].id] = st.value
    for st in branch_stmts(side):
        if isinstance(st, ast.Assign) and len(st.targets) == 1 and isinstance(st.targets[0], ast.Name):
            d[st.targets[0].id] = st.value
    return d


def find_call(stmts: list[ast.stmt], name: str) -> tuple[ast.Call, ast.stmt] | None:
    for st in stmts:
        for c in calls(st):
            if call_name(c) == name:
                return c, st
    return None
