"""Shared extraction for the Data Secure checks (C15, C16)."""

from __future__ import annotations

import ast
from dataclasses import dataclass

from ..astx import call_name, calls, method_name, walk_local
from ..cfg import CFG
from ..loader import AnalysisError, EnumMember, FuncInfo, Repo
from ..shape import bind_call, normalise, single_assignments

ASDU = "xknx.secure.data_secure_asdu"
MACFN = "calculate_message_authentication_code_cbc"


@dataclass
class Side:
    fi: FuncInfo
    cfg: CFG
    algo: str
    mac_call: ast.Call
    mac_node: object
    mac_trunc: str  # slice text applied to the MAC call result
    defs: dict[str, ast.expr]
    plaintext: str  # expression text playing the plaintext role
    seq: str  # expression text of the 6 sequence-number octets


def _algo_of(repo: Repo, fi: FuncInfo, facts) -> str | None:
    for text, val in facts:
        if not val or "algorithm" not in text:
            continue
        e = ast.parse(text, mode="eval").body
        if isinstance(e, ast.Compare) and len(e.ops) == 1 and isinstance(e.ops[0], (ast.Eq, ast.Is)):
            for side in (e.left, e.comparators[0]):
                v = repo.fold(side, fi.module, fi.cls)
                if isinstance(v, EnumMember) and v.enum.endswith("SecurityAlgorithmIdentifier"):
                    return v.name
    return None


def sides(repo: Repo, qual: str) -> dict[str, Side]:
    fi = repo.func(ASDU, qual)
    cfg = CFG(fi.node)
    mf = cfg.must_facts()
    defs_all = single_assignments(fi.node)
    out: dict[str, Side] = {}
    for n in cfg.nodes:
        if n.kind != "stmt" or n.ast is None:
            continue
        for c in calls(n.ast):
            if call_name(c) == MACFN:
                algo = _algo_of(repo, fi, mf[n.id])
                if algo is None:
                    raise AnalysisError(f"{qual}: MAC computation at line {c.lineno} is not under an algorithm test")
                if algo in out:
                    raise AnalysisError(f"{qual}: two MAC computations for {algo}")
                # truncation: the call must be the value of a Subscript
                trunc = ""
                for x in walk_local(n.ast):
                    if isinstance(x, ast.Subscript) and x.value is c:
                        trunc = ast.unparse(x.slice)
                out[algo] = Side(fi, cfg, algo, c, n, trunc, {}, "", "")
    if set(out) != {"CCM_AUTHENTICATION", "CCM_ENCRYPTION"}:
        raise AnalysisError(f"{qual}: MAC computations found for {sorted(out)}; both algorithms expected")
    return out


def branch_stmts(side: Side) -> list[ast.stmt]:
    """Statements of the algorithm branch containing the MAC call (the innermost if-body)."""
    target = side.mac_node.ast  # type: ignore[attr-defined]
    best: list[ast.stmt] | None = None
    for n in walk_local(side.fi.node):
        if isinstance(n, ast.If):
            for body in (n.body, n.orelse):
                if any(target is s or any(target is y for y in ast.walk(s)) for s in body):
                    best = body
    if best is None:
        raise AnalysisError(f"{side.fi.qualname}: branch of {side.algo} not found")
    return best


def branch_defs(side: Side) -> dict[str, ast.expr]:
    """Single-assignment locals visible in the branch: function-level ones outside any `if`, plus the branch's own."""
    d: dict[str, ast.expr] = {}
    for st in side.fi.node.body:
        if isinstance(st, ast.Assign) and len(st.targets) == 1 and isinstance(st.targets[0], ast.Name):
            d[st.targets[0].id] = st.value
    for st in branch_stmts(side):
        if isinstance(st, ast.Assign) and len(st.targets) == 1 and isinstance(st.targets[0], ast.Name):
            d[st.targets[0].id] = st.value
    return d


def find_call(stmts: list[ast.stmt], name: str) -> tuple[ast.Call, ast.stmt] | None:
    for st in stmts:
        for c in calls(st):
            if call_name(c) == name:
                return c, st
    return None


def scf_roundtrip(chk, repo: Repo, rule_prefix: str = "scf") -> None:
    """E2: SecurityControlField.from_knx followed by to_knx is the identity on all 8 bits (no bit is dropped by the
    reader or moved by the writer) — otherwise a tampered SCF bit would be invisible to the MAC, which is computed
    over the re-serialised field."""
    from .. import bits as B
    from ..absmachine import AbsMachine, Obj, Outcome, UNKNOWN
    from ..exctable import ExcTable
    from ..explore import Explorer
    from ..loader import NOFOLD

    fk = repo.func(ASDU, "SecurityControlField.from_knx")
    tk = repo.func(ASDU, "SecurityControlField.to_knx")
    chk.unit(fk); chk.unit(tk)
    raw = B.BitRec(tuple((i, 1, B.SymBits(f"b{i}", 1)) for i in range(8)))
    cfg = CFG(fk.node)
    box = {}

    def call_model(c: ast.Call, env):
        n = method_name(c)
        tgt = repo.resolve(fk.module.name, n) if isinstance(c.func, ast.Name) else None
        am = box["am"]
        from ..loader import ClassInfo
        if isinstance(tgt, ClassInfo) and repo.is_enum(tgt) and len(c.args) == 1:
            return [Outcome(None, am.ev(c.args[0], env, {}))]  # Enum(v) is transparent on its member set
        if isinstance(tgt, ClassInfo) and tgt.name == "SecurityControlField":
            kw = tuple((k.arg, am.ev(k.value, env, {})) for k in c.keywords if k.arg)
            init = tgt.methods.get("__init__")
            if c.args and init is not None:
                names = [a.arg for a in init.node.args.args][1:]
                kw += tuple((nm, am.ev(a, env, {})) for nm, a in zip(names, c.args))
            return [Outcome(None, Obj("SecurityControlField", "", kw))]
        return None

    am = AbsMachine(cfg, ExcTable(repo), call_model)
    box["am"] = am
    p0 = fk.node.args.args[0].arg
    paths = Explorer(cfg, repo, am.step).run(cfg.entry, [], {p0: raw})
    objs = [p.env.get("#ret") for p in paths if p.end == cfg.exit]
    if len(objs) != 1 or not isinstance(objs[0], Obj):
        raise AnalysisError("SecurityControlField.from_knx: not a single straight-line construction")
    obj = objs[0]
    cfg2 = CFG(tk.node)

    def name_hook(e, env):
        if isinstance(e, ast.Attribute) and isinstance(e.value, ast.Name) and e.value.id == "self":
            return obj.get(e.attr)
        return UNKNOWN

    am2 = AbsMachine(cfg2, ExcTable(repo), lambda c, e: None, name_hook)
    paths2 = Explorer(cfg2, repo, am2.step).run(cfg2.entry, [], {})
    outs = [p.env.get("#ret") for p in paths2 if p.end == cfg2.exit]
    ok = len(outs) == 1 and isinstance(outs[0], (B.BitRec,)) and B.eq(outs[0], raw) is True and len(B.to_fields(outs[0])) == 8
    used = set()
    for _, v in obj.fields:
        fs = B.to_fields(v) if isinstance(v, (B.BitRec, B.SymBits)) else ()
        for lo, w, x in fs or ():
            if isinstance(x, B.SymBits):
                used.add(x.name)
    missing = sorted({f"b{i}" for i in range(8)} - used)
    chk.ob(f"{rule_prefix}-reader-uses-all-bits", fk.site(), not missing, f"SecurityControlField.from_knx reads bits {sorted(used)}; dropped: {missing} (a dropped bit is not covered by the MAC, which is computed over to_knx())", key=f"{rule_prefix}|reader-bits")
    chk.ob(f"{rule_prefix}-roundtrip-identity", tk.site(), ok, f"to_knx(from_knx(octet)) = {outs[0] if outs else None!r}; required: the same 8 bits at the same positions", key=f"{rule_prefix}|roundtrip")


def block0_octet_is_the_wire_octet(chk, repo: Repo) -> None:
    """Block 0 authenticates the TPCI/APCI octet pair of the secured frame as it is on the wire: the first octet is the
    transport PDU's own octet (what TPCI.to_knx() returns, already in position) with the two high APCI bits of
    A_SecureData in its low bits.  A shifted copy agrees with the wire only for the all-zero TPCI (T_Data_Group /
    Broadcast / Individual): a tag-group frame of a conforming sender would never verify, and a numbered PDU does not
    fit an octet.  Decided by evaluating the octet expression for every data TPCI octet (abstract machine, constants
    folded - nothing runs) against `tpci | (A_SecureData code >> 8)`."""
    from ..absmachine import AbsMachine, UNKNOWN
    from ..exctable import ExcTable
    from ..loader import NOFOLD
    M = "xknx.secure.data_secure_asdu"
    b0 = repo.func(M, "block_0")
    chk.unit(b0)
    rets = [n for n in walk_local(b0.node) if isinstance(n, ast.Return) and n.value is not None]
    elts = [e for r in rets for t in ast.walk(r.value) if isinstance(t, ast.Tuple) for e in t.elts if any(isinstance(x, ast.Name) and x.id == "tpci_int" for x in ast.walk(e))]
    if len(elts) != 1:
        raise AnalysisError("block_0: the octet built from tpci_int not found")
    sec = repo.cls("xknx.telegram.apci", "SecureAPDU")
    code = repo.const(sec, "CODE")
    codev = code.value if isinstance(code, EnumMember) else None
    if not isinstance(codev, int):
        raise AnalysisError("SecureAPDU.CODE does not fold")
    high = (codev >> 8) & 0x03

    def hook(e, env):
        v = repo.fold(e, b0.module, None) if isinstance(e, (ast.Name, ast.Attribute)) else NOFOLD
        return v if isinstance(v, int) and not isinstance(v, bool) else UNKNOWN
    am = AbsMachine(CFG(b0.node), ExcTable(repo), None, hook)
    bad = []
    octets = [0x00, 0x04] + [0x40 | (k << 2) for k in range(16)]
    for t in octets:
        got = am.ev(elts[0], {"tpci_int": t}, {})
        if got != (t | high):
            bad.append(f"{t:#04x} -> {got if not isinstance(got, int) else hex(got)} (wire {t | high:#04x})")
    chk.ob("block0-authenticates-the-wire-octet", b0.site(elts[0]), not bad, f"block_0 octet `{ast.unparse(elts[0])}` over {len(octets)} data TPCI octets: " + ("equals TPCI octet | A_SecureData high bits for each" if not bad else "differs from the octet on the wire for " + "; ".join(bad[:4])), key="b0|wire-octet")
