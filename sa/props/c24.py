"""C24 — outgoing tunnel frames are sequenced and confirmed only by their own ACK.

 (a) `_increase_sequence_number` is the modular successor over 256 (symbolic evaluation);
     writers of the tunnel's `sequence_number` are __init__/_tunnel_established (0) and it.
 (b) `connect` reaches CONNECTED only through `_tunnel_established` (counter restarts at 0).
 (c) send_cemi (base and UDP) by abstract path enumeration over the outcomes of one
     tunnelling request {ok, TunnellingAckError, CommunicationError} and of awaiting the
     reconnect {ok, cancelled}: exactly one increment per call, after the last request;
     at most two requests (no increment in between) before the reconnect, at most one after;
     normal return only directly after an acknowledged request.
 (d) every `_tunnelling_request` call is inside `async with self._send_ready()`, which
     holds `_send_lock` around its yield (one outstanding request).
 (e) ACK correlation: the acceptance of a TunnellingAck / DeviceConfigurationAck is
     control-dependent on equality of channel id and sequence counter with the request
     and on status E_NO_ERROR.
"""

from __future__ import annotations

import ast

from ..absmachine import AbsMachine, Outcome, Raise, Sym, SymInt, UNKNOWN
from ..astx import attr_writes, call_name, call_sites, calls, enclosing_with_items, method_name, walk_local
from ..cfg import CFG
from ..exctable import ExcTable
from ..explore import Explorer
from ..loader import NOFOLD, AnalysisError, Repo
from ..report import Check, canon

T = "xknx.io.tunnel"


def check_counter(chk: Check, repo: Repo) -> None:
    fi = repo.func(T, "_Tunnel._increase_sequence_number")
    chk.unit(fi)
    cfg = CFG(fi.node)
    am = AbsMachine(cfg, ExcTable(repo), lambda c, e: None)
    # the flag that says "a frame of the current connection carried this counter value": the attribute tested here
    flags = sorted({ast.unparse(n.test) for n in walk_local(fi.node) if isinstance(n, ast.If) and isinstance(n.test, ast.Attribute) and ast.unparse(n.test.value) == "self"})
    flag = flags[0] if len(flags) == 1 else None
    chk.ob("counter-advances-only-for-a-frame-of-this-connection", fi.site(), flag is not None, f"_increase_sequence_number is conditional on {flags}" if flag else "_increase_sequence_number advances the counter unconditionally: a send_cemi() still pending while the tunnel was re-established (its `finally` runs after _tunnel_established reset the counter) turns the new connection's 0 into 1 — the first frame of the new connection carries counter 1", key="counter-flag")
    for used in ((False, True) if flag else (True,)):
        env0 = {"self.sequence_number": SymInt("s", 0, 256)}
        if flag:
            env0[flag] = used
        paths = Explorer(cfg, repo, am.step).run(cfg.entry, [], env0)
        want = SymInt("s", 1 if used else 0, 256)
        ok = len(paths) == 1 and paths[0].end == cfg.exit and paths[0].env.get("self.sequence_number") == want and (flag is None or paths[0].env.get(flag) is False)
        chk.ob("counter-successor", fi.site(), ok, f"_increase_sequence_number with used={used} maps s to {paths[0].env.get('self.sequence_number') if paths else None!r} (flag afterwards {paths[0].env.get(flag) if paths and flag else '-'}); reference {want!r}, flag cleared", key=f"counter-successor|{used}")
    if flag:
        fattr = flag.split(".", 1)[1]
        tr_ = repo.func(T, "_Tunnel._tunnelling_request")
        chk.unit(tr_)
        cfg_t = CFG(tr_.node)
        sets = [n.id for n in cfg_t.nodes if n.kind == "stmt" and isinstance(n.ast, ast.Assign) and ast.unparse(n.ast.targets[0]) == flag and isinstance(n.ast.value, ast.Constant) and n.ast.value.value is True]
        hand = [n.id for n in cfg_t.nodes if n.ast is not None and n.kind == "stmt" and any(call_name(c) == "self._send_tunnelling_request" for c in calls(n.ast))]
        okf = len(sets) == 1 and len(hand) == 1 and cfg_t.dominates(sets[0], hand[0])
        chk.ob("counter-advances-only-for-a-frame-of-this-connection", tr_.site(), okf, "_tunnelling_request marks the counter as used before it hands the frame (built with the current counter) to the transport", key="counter-flag|set")
        for w in attr_writes(repo, fattr):
            q = w.func.qualname
            v = repo.fold(w.stmt.value, w.func.module, w.func.cls) if hasattr(w.stmt, "value") else NOFOLD
            okw = (q in ("_Tunnel.__init__", "_Tunnel._tunnel_established", "_Tunnel._increase_sequence_number") and v is False) or (q == "_Tunnel._tunnelling_request" and v is True)
            chk.ob("counter-advances-only-for-a-frame-of-this-connection", w.func.site(w.stmt), okw, f"`{canon(w.stmt)}` in {q} (allowed: False in __init__/_tunnel_established/_increase_sequence_number, True in _tunnelling_request)", key=f"counter-flag|writer|{q}|{v}")
        te0 = repo.func(T, "_Tunnel._tunnel_established")
        okr = any(isinstance(n, ast.Assign) and ast.unparse(n.targets[0]) == flag and isinstance(n.value, ast.Constant) and n.value.value is False and n in te0.node.body for n in walk_local(te0.node))
        chk.ob("counter-advances-only-for-a-frame-of-this-connection", te0.site(), okr, "_tunnel_established clears the flag together with the counter: what a send of the old connection still does in its `finally` cannot touch the new counter", key="counter-flag|reset")
    tunnel = repo.cls(T, "_Tunnel")
    fam = set(repo.subclasses(tunnel))
    ws = [w for w in attr_writes(repo, "sequence_number") if w.func.cls in fam and w.receiver == "self"]
    for w in ws:
        if w.func.name == "_increase_sequence_number":
            ok_w = True
        else:
            v = repo.fold(w.stmt.value, w.func.module, w.func.cls) if hasattr(w.stmt, "value") else NOFOLD
            ok_w = w.func.name in ("__init__", "_tunnel_established") and v == 0
        chk.ob("counter-writer", w.func.site(w.stmt), ok_w, f"`{canon(w.stmt)}` in {w.func.qualname} (allowed: 0 in __init__/_tunnel_established, successor in _increase_sequence_number)", key=f"counter-writer|{w.func.qualname}|{canon(w.stmt)}")
    chk.floor("tunnel_sequence_number_writers", len(ws), 2)
    te_w = [w for w in ws if w.func.qualname == "_Tunnel._tunnel_established"]
    chk.ob("restart-on-connect", repo.func(T, "_Tunnel._tunnel_established").site(), len(te_w) == 1 and te_w[0].stmt in repo.func(T, "_Tunnel._tunnel_established").node.body,
           "_tunnel_established unconditionally assigns sequence_number = 0", key="restart-on-connect|assign")
    # outside writers through another receiver (e.g. tunnel.sequence_number = ...) anywhere in the repo
    for w in attr_writes(repo, "sequence_number"):
        if w.receiver != "self" and w.func.cls not in fam:
            cls_names = {c.name for c in fam}
            # only flag when the receiver is plausibly a tunnel: name contains 'tunnel' or 'interface'
            if "tunnel" in w.receiver.lower() or "interface" in w.receiver.lower():
                chk.ob("counter-writer", w.func.site(w.stmt), False, f"foreign write `{canon(w.stmt)}`", key=f"counter-writer|foreign|{w.func.ref}")
    te = repo.func(T, "_Tunnel._tunnel_established")
    chk.unit(te)
    con = repo.func(T, "_Tunnel.connect")
    chk.unit(con)
    cfg2 = CFG(con.node)
    est = cfg2.stmt_nodes(lambda a: any(call_name(c) == "self._tunnel_established" for c in calls(a)))
    creq = cfg2.stmt_nodes(lambda a: any(call_name(c) == "self._connect_request" for c in calls(a)))
    connected = cfg2.stmt_nodes(lambda a: any(method_name(c) == "connection_state_changed" and c.args and ast.unparse(c.args[0]).endswith(".CONNECTED") for c in calls(a)))
    ok = bool(est) and bool(creq) and bool(connected) and cfg2.all_paths_hit(cfg2.entry, [n.id for n in est], ends=[cfg2.exit]) and all(cfg2.dominates(creq[0].id, e.id) for e in est) and all(any(cfg2.dominates(e.id, c.id) for e in est) for c in connected)
    chk.ob("restart-on-connect", con.site(), ok, "every normal return of connect() passes _tunnel_established() (sequence_number = 0), after _connect_request() and before CONNECTED is reported", key="restart-on-connect")
    for m in repo.subclasses(tunnel):
        if "connect" in m.methods and m != tunnel:
            chk.ob("restart-on-connect", m.methods["connect"].site(), False, f"{m.name} overrides connect(): restart of the counter not established for it", key=f"restart-on-connect|override|{m.name}")
    chk.rule("E7 symbolic successor + E5 writer census for the outgoing counter; E4 must-pass-through of _tunnel_established on connect()'s success paths")


def check_send(chk: Check, repo: Repo, qual: str, udp: bool) -> None:
    fi = repo.func(T, qual)
    chk.unit(fi)
    cfg = CFG(fi.node)
    exc = ExcTable(repo)

    def call_model(c: ast.Call, env):
        n = call_name(c)
        if n == "self._tunnelling_request":
            outs = [Outcome("REQ:ok", None), Outcome("REQ:comm", Raise("CommunicationError"))]
            if udp:
                outs.insert(1, Outcome("REQ:ack", Raise("TunnellingAckError")))
            return outs
        if n == "self._increase_sequence_number":
            return [Outcome("INC", None)]
        if n == "self._tunnel_lost":
            return [Outcome("LOST", None)]
        if n == "super().send_cemi":
            return [Outcome("SUPER", None)]
        return None

    def stmt_hook(node, env):
        # awaiting the reconnect task: ok or cancelled
        pass

    am = AbsMachine(cfg, exc, call_model)
    base_step = am.step

    def step(node, env):
        a = node.ast
        if node.kind == "stmt" and isinstance(a, ast.Expr) and isinstance(a.value, ast.Await) and ast.unparse(a.value.value) == "self._reconnect_task":
            e1 = dict(env); e1["trace"] = tuple(env.get("trace", ())) + ("AWAIT_RECONNECT:ok",)
            e2 = dict(env); e2["trace"] = tuple(env.get("trace", ())) + ("AWAIT_RECONNECT:cancelled",); e2["#raised"] = "CancelledError"
            return [("next", e1), (f"goto:{am._exc_target(node, 'CancelledError')}", e2)]
        return base_step(node, env)

    paths = Explorer(cfg, repo, step).run(cfg.entry, [], {})
    chk.count(f"paths:{qual}", len(paths))
    if not paths:
        raise AnalysisError(f"{qual}: no paths")
    distinct = {}
    for p in paths:
        tr = tuple(t for t in p.env.get("trace", ()) if not t.startswith("raise:"))
        distinct.setdefault((tr, p.end_kind), p)
    for (tr, end), p in sorted(distinct.items()):
        reqs = [i for i, t in enumerate(tr) if t.startswith("REQ:")]
        incs = [i for i, t in enumerate(tr) if t == "INC"]
        aw = [i for i, t in enumerate(tr) if t.startswith("AWAIT_RECONNECT")]
        problems = []
        if len(incs) != 1 or incs[0] != len(tr) - 1:
            problems.append("counter must advance exactly once, after the last request (finally)")
        before = [i for i in reqs if not aw or i < aw[0]]
        after = [i for i in reqs if aw and i > aw[0]]
        if len(before) > (2 if udp else 1):
            problems.append(f"{len(before)} requests with the same counter before re-establishing the tunnel (max {'2' if udp else '1'})")
        if len(after) > 1:
            problems.append("more than one request after the reconnect")
        if end == "exit":
            if not reqs or tr[reqs[-1]] != "REQ:ok":
                problems.append("normal return without an acknowledged request")
        else:
            if reqs and tr[reqs[-1]] == "REQ:ok":
                problems.append("acknowledged request but send fails")
        for a_, b_ in zip(reqs, reqs[1:]):
            if tr[a_] == "REQ:ok":
                problems.append("request repeated after it was acknowledged")
            if tr[a_] == "REQ:comm":
                problems.append("request repeated after a communication error")
        if udp and len(before) == 2 and tr[before[1]] == "REQ:ack" and not aw and "LOST" not in tr and end == "exit":
            problems.append("two unacknowledged requests without reconnect/teardown")
        chk.ob("send-path", fi.site(), not problems, f"trace {list(tr)} -> {end}" + (": " + "; ".join(problems) if problems else ""), key=f"{qual}|{tr}|{end}")
    if udp:
        need = [("REQ:ok", "INC"), ("REQ:ack", "REQ:ok", "INC")]
        for n_ in need:
            chk.ob("send-path-present", fi.site(), (n_, "exit") in distinct, f"reference success trace {list(n_)} exists", key=f"{qual}|present|{n_}")
        chk.ob("send-path-present", fi.site(), any(tr[:2] == ("REQ:ack", "REQ:ack") and any(t.startswith("AWAIT_RECONNECT") for t in tr) and end == "exit" for (tr, end) in distinct), "a twice-unacknowledged frame is re-sent once after the reconnect", key=f"{qual}|present|reconnect")
    else:
        chk.ob("send-path-present", fi.site(), (("REQ:ok", "INC"), "exit") in distinct, "reference success trace [REQ:ok, INC] exists", key=f"{qual}|present|ok")
    # lexical: every request inside `async with self._send_ready()`
    for n in cfg.nodes:
        if n.ast is not None and n.kind == "stmt" and any(call_name(c) == "self._tunnelling_request" for c in calls(n.ast)):
            inside = any(w.startswith("self._send_ready()") for w in enclosing_with_items(n.withs))
            chk.ob("request-under-send-lock", fi.site(n.ast), inside, "`_tunnelling_request` is awaited inside `async with self._send_ready()`", key=f"{qual}|lock|{canon(n.ast)}")


def check_lock(chk: Check, repo: Repo) -> None:
    fi = repo.func(T, "_Tunnel._send_ready")
    chk.unit(fi)
    cfg = CFG(fi.node)
    ys = cfg.stmt_nodes(lambda a: isinstance(a, ast.Expr) and isinstance(a.value, ast.Yield))
    ok = len(ys) >= 1 and all(any(w == "self._send_lock" for w in enclosing_with_items(y.withs)) for y in ys) and "asynccontextmanager" in " ".join(fi.decorators)
    chk.ob("send-ready-holds-lock", fi.site(), ok, "_send_ready is an asynccontextmanager whose every yield is inside `async with self._send_lock`", key="send-ready-holds-lock")
    tcls = repo.cls("xknx.io.tunnel", "_Tunnel")
    ws = [w for w in attr_writes(repo, "_send_lock") if w.func.cls is not None and (repo.is_subclass(w.func.cls, tcls) or repo.is_subclass(tcls, w.func.cls))]  # the tunnel's lock (other classes may have a slot of the same name)
    okw = len(ws) == 1 and ws[0].func.name == "__init__" and call_name(ws[0].stmt.value) == "asyncio.Lock"
    chk.ob("send-lock-slot", ws[0].func.site(ws[0].stmt) if ws else fi.site(), okw, "_send_lock is one asyncio.Lock created in __init__ and never replaced", key="send-lock-slot")
    sites = call_sites(repo, "_tunnelling_request")
    chk.floor("tunnelling_request_call_sites", len(sites), 4)
    for f, c in sites:
        chk.ob("request-callers", f.site(c), f.qualname in ("_Tunnel.send_cemi", "UDPTunnel.send_cemi"), f"_tunnelling_request called from {f.qualname} (allowed: send_cemi implementations)", key=f"request-callers|{f.qualname}")
    # the request carries the current counter
    tr = repo.func(T, "_Tunnel._tunnelling_request")
    chk.unit(tr)
    ctor = [c for c in calls(tr.node) if method_name(c) == "TunnellingRequest"]
    okc = len(ctor) == 1 and any(k.arg == "sequence_counter" and ast.unparse(k.value) == "self.sequence_number" for k in ctor[0].keywords) and any(k.arg == "communication_channel_id" and ast.unparse(k.value) == "self.communication_channel" for k in ctor[0].keywords)
    chk.ob("request-carries-counter", tr.site(), okc, "TunnellingRequest(sequence_counter=self.sequence_number, communication_channel_id=self.communication_channel)", key="request-carries-counter")
    chk.rule("E4 lexical with-scope + E5 call-site census for the send lock")


def _accept_facts(repo: Repo, cls, chk: Check):
    """Facts that must hold on every path to `_response_received_event.set()` in the MRO-resolved callback chain."""
    m = repo.lookup_method(cls, "_response_rec_callback")
    if m is None:
        raise AnalysisError(f"{cls.name}: _response_rec_callback vanished")
    facts: set[tuple[str, bool]] = set()
    chain = []
    seen = set()
    awaited_names = ["self.AWAITED_RESPONSE_CLASS"]
    for b in cls.base_exprs:
        if isinstance(b, ast.Subscript):
            awaited_names.append(ast.unparse(b.slice))
    while m is not None and m.ref not in seen:
        seen.add(m.ref)
        chain.append(m)
        chk.unit(m)
        cfg = CFG(m.node)

        def awaited_only(s_: int, t_: int, lab: str, cfg=cfg) -> bool:
            # paths on which the body is not of the awaited class are rejected by the base callback (checked below)
            n_ = cfg.nodes[s_]
            if n_.kind == "test" and n_.ast is not None and lab == "false":
                txt = ast.unparse(n_.ast)
                if txt.startswith("isinstance(") and any(a in txt for a in awaited_names):
                    return False
            return True

        mf = cfg.must_facts(edge_ok=awaited_only)
        sets = [n for n in cfg.nodes if n.ast is not None and n.kind == "stmt" and any(call_name(c) == "self._response_received_event.set" for c in calls(n.ast))]
        if sets:
            f = None
            for s in sets:
                f = set(mf[s.id]) if f is None else f & set(mf[s.id])
            facts |= f or set()
            return facts, chain, sets[0], m
        sup = [n for n in cfg.nodes if n.ast is not None and n.kind == "stmt" and any(call_name(c) == "super()._response_rec_callback" for c in calls(n.ast))]
        if not sup:
            raise AnalysisError(f"{m.qualname}: neither sets the response event nor defers to super()")
        f = None
        for s in sup:
            f = set(mf[s.id]) if f is None else f & set(mf[s.id])
        facts |= f or set()
        nxt = None
        for b in repo.mro(m.cls)[1:]:
            if "_response_rec_callback" in b.methods:
                nxt = b.methods["_response_rec_callback"]
                break
        m = nxt
    raise AnalysisError("response callback chain has no event set()")


def check_ack_correlation(chk: Check, repo: Repo) -> None:
    for modname, cname, req_attr in (
        ("xknx.io.request_response.tunnelling", "Tunnelling", "tunnelling_request"),
        
    ):
        cls = repo.cls(modname, cname)
        facts, chain, setnode, owner = _accept_facts(repo, cls, chk)
        eqs = []
        for text, val in facts:
            try:
                e = ast.parse(text, mode="eval").body
            except SyntaxError:
                continue
            if isinstance(e, ast.Compare) and len(e.ops) == 1:
                op = e.ops[0]
                if (isinstance(op, ast.Eq) and val) or (isinstance(op, ast.NotEq) and not val):
                    eqs.append((ast.unparse(e.left), ast.unparse(e.comparators[0])))
        def has_eq(field: str) -> bool:
            for a, b in eqs:
                if a.endswith("." + field) and b.endswith("." + field) and (("self." + req_attr) in a) != (("self." + req_attr) in b):
                    return True
            return False
        site = owner.site(setnode.ast)
        for field in ("communication_channel_id", "sequence_counter"):
            chk.ob("ack-correlation", site, has_eq(field),
                   f"{cname}: accepting an acknowledgement (event set) is control-dependent on `<ack>.{field} == self.{req_attr}.{field}`; equalities established on the path: {sorted(eqs)}",
                   key=f"ack-correlation|{cname}|{field}")
    # status: response stored only if status_code == E_NO_ERROR (base class), otherwise request() raises
    base = repo.func("xknx.io.request_response.request_response", "RequestResponse._response_rec_callback")
    cfg = CFG(base.node)
    mf = cfg.must_facts()
    stores = [n for n in cfg.nodes if n.ast is not None and isinstance(n.ast, ast.Assign) and ast.unparse(n.ast.targets[0]) == "self._response"]

    def error_edge_removed(s_: int, t_: int, lab: str) -> bool:
        # drop the edges on which "body has no status" or "status is E_NO_ERROR" holds; the store must then be unreachable
        n_ = cfg.nodes[s_]
        if n_.kind != "test" or n_.ast is None:
            return True
        txt = ast.unparse(n_.ast)
        if txt.startswith("isinstance(") and "KNXIPBodyResponse" in txt and lab == "false":
            return False
        if "status_code" in txt and "E_NO_ERROR" in txt:
            from ..astx import norm_cmp
            nc = norm_cmp(n_.ast, lab == "true")
            if nc is not None and nc[1] in ("==", "is"):
                return False
        return True

    r = cfg.reachable([cfg.entry], edge_ok=error_edge_removed)
    ok = bool(stores) and not any(s_.id in r for s_ in stores)
    chk.ob("ack-status", base.site(), ok, "the response body is stored only when it carries no status or status_code == E_NO_ERROR", key="ack-status")
    req = repo.func("xknx.io.request_response.request_response", "RequestResponse.request")
    chk.unit(req)
    cfg2 = CFG(req.node)
    mf2 = cfg2.must_facts()
    rets = [n for n in cfg2.nodes if isinstance(n.ast, ast.Return)]
    ok2 = bool(rets) and all(("self._response is None", False) in mf2[r.id] for r in rets)
    chk.ob("request-returns-only-stored-response", req.site(), ok2, "request() returns only when a response was stored (else raises RequestResponseError)", key="request-returns-stored")
    chk.rule("E4 must-facts: equalities dominating the acceptance of an ACK in the MRO-resolved callback chain")


def run(chk: Check, repo: Repo) -> None:
    check_counter(chk, repo)
    check_send(chk, repo, "_Tunnel.send_cemi", udp=False)
    check_send(chk, repo, "UDPTunnel.send_cemi", udp=True)
    chk.rule("E4 abstract path enumeration of send_cemi over request/reconnect outcomes: one increment per call (finally), <=2 requests per counter before reconnect, success only after an acknowledged request")
    check_lock(chk, repo)
    check_ack_correlation(chk, repo)
    # subclasses overriding send_cemi other than UDPTunnel are not analysed
    tunnel = repo.cls(T, "_Tunnel")
    for c in repo.subclasses(tunnel, strict=True):
        if "send_cemi" in c.methods and c.name != "UDPTunnel":
            chk.ob("send-override", c.methods["send_cemi"].site(), False, f"{c.name}.send_cemi overrides the analysed implementations", key=f"send-override|{c.name}")
    chk.assume("TunnellingAckError is raised by _send_tunnelling_request exactly for a missing/negative ACK (RequestResponseError mapping in UDPTunnel._send_tunnelling_request)")
