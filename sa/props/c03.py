"""C03 — transport-layer control octets decode only to PDUs that re-encode to them.

The control octet is an abstract bit record [control:1][numbered:1][seq:4][flags:2]; the sequence
field is split into the cells the code distinguishes {0, 1, other (symbolic, != 0,1)}.  TPCI.resolve
is enumerated over control x numbered x seq-cell x flags x destination kind (144 cells) by the
abstract machine (no repository code is run); for every accepting cell the returned class's
MRO-resolved to_knx is evaluated over the same abstract values and compared on the transport bits
(bits 7..2, plus 1..0 for control PDUs).  Conversely every TPCI class, for every seq cell, encodes
to a record that resolves back to the same class and sequence number for its destination kind.
"""

from __future__ import annotations

import ast

from .. import bits as B
from ..absmachine import AbsMachine, Obj, Outcome, UNKNOWN, class_isinstance
from ..astx import call_name, method_name
from ..cfg import CFG
from ..exctable import ExcTable
from ..explore import Explorer
from ..loader import NOFOLD, AnalysisError, Repo
from ..report import Check

M = "xknx.telegram.tpci"


_CUTS: list[int] = [0, 1]


def _seq_cells(name="seq"):
    """Cells of the 4-bit sequence field: every constant the decoder mentions (cut points) + a symbolic 'other'."""
    cells = [(str(c), c) for c in _CUTS]
    if len(_CUTS) < 16:
        cells.append(("other", B.SymBits(name, 4, frozenset(_CUTS))))
    return cells


def _mk_resolver(chk: Check, repo: Repo):
    fi = repo.func(M, "TPCI.resolve")
    chk.unit(fi)
    cfg = CFG(fi.node)
    exc = ExcTable(repo)
    tp = repo.cls(M, "TPCI")
    classes = {c.name: c for c in repo.subclasses(tp, strict=True)}
    params = [a.arg for a in fi.node.args.args]
    if len(params) != 3:
        raise AnalysisError("TPCI.resolve signature changed")

    def run(raw, is_group: bool, is_zero: bool):
        am_box = {}

        def call_model(c: ast.Call, env):
            n = method_name(c)
            if isinstance(c.func, ast.Name) and n in classes:
                am = am_box["am"]
                kw = tuple((k.arg, am.ev(k.value, env, {})) for k in c.keywords if k.arg)
                pos = classes[n].methods.get("__init__")
                if c.args and pos is not None:
                    names = [a.arg for a in pos.node.args.args][1:]
                    kw = kw + tuple((nm, am.ev(a, env, {})) for nm, a in zip(names, c.args))
                return [Outcome(None, Obj(n, "", kw))]
            return None

        def name_hook(e, env):
            if isinstance(e, ast.Name):
                v = repo.module_const(M, e.id)
                if v is not NOFOLD:
                    return v
            return UNKNOWN

        am = AbsMachine(cfg, exc, call_model, name_hook)
        am_box["am"] = am
        env = {params[0]: raw, params[1]: is_group, params[2]: is_zero}
        paths = Explorer(cfg, repo, am.step).run(cfg.entry, [], env)
        outs = set()
        for p in paths:
            if p.end == cfg.exit:
                outs.add(("ok", p.env.get("#ret")))
            else:
                outs.add(("raise", p.env.get("#raised")))
        return outs

    return fi, classes, run


def _encode(repo: Repo, cls, obj: Obj):
    m = repo.lookup_method(cls, "to_knx")
    if m is None:
        raise AnalysisError(f"{cls.name}.to_knx vanished")
    cfg = CFG(m.node)

    def name_hook(e, env):
        if isinstance(e, ast.Attribute) and isinstance(e.value, ast.Name) and e.value.id == "self":
            v = obj.get(e.attr)
            if v is not UNKNOWN:
                return v
            c = repo.const(cls, e.attr)
            if c is not NOFOLD:
                return c
        return UNKNOWN

    am = AbsMachine(cfg, ExcTable(repo), lambda c, e: None, name_hook)
    paths = Explorer(cfg, repo, am.step).run(cfg.entry, [], {})
    vals = {p.env.get("#ret") for p in paths if p.end == cfg.exit}
    if len(vals) != 1 or len(paths) != 1:
        raise AnalysisError(f"{cls.name}.to_knx: not a single-path pure expression over class constants")
    return m, vals.pop()


def _init_cuts(repo: Repo, fi, classes) -> None:
    cuts = {0, 1}
    for n in ast.walk(fi.node):
        if isinstance(n, ast.Constant) and isinstance(n.value, int) and not isinstance(n.value, bool) and 0 <= n.value <= 15:
            cuts.add(n.value)
    for c in classes.values():
        v = repo.const(c, "sequence_number")
        if isinstance(v, int) and 0 <= v <= 15:
            cuts.add(v)
    _CUTS[:] = sorted(cuts)


def group_tpci_codes(repo: Repo) -> set | None:
    """the octets `to_knx` gives for every TPCI object TPCI.resolve can return for a group / broadcast destination
    (all cells of the decision table); None when one of them is not a constant."""
    class _Stub:
        def unit(self, *a, **k):
            pass
    fi, classes, resolve = _mk_resolver(_Stub(), repo)  # type: ignore[arg-type]
    _init_cuts(repo, fi, classes)
    out: set = set()
    for control in (0, 1):
        for numbered in (0, 1):
            for sname, seq in _seq_cells():
                for flags in range(4):
                    raw = B.norm([(7, 1, control), (6, 1, numbered), (2, 4, seq), (0, 2, flags)])
                    for g, z in ((True, False), (True, True)):
                        for kind, val in resolve(raw, g, z):
                            if kind != "ok":
                                continue
                            if not isinstance(val, Obj) or val.cls not in classes:
                                return None
                            _, enc = _encode(repo, classes[val.cls], val)
                            if not isinstance(enc, int):
                                return None
                            out.add(enc)
    return out


# ------------------------------------------------------------------ (d) built sequence numbers are 4-bit; (e) decoding goes through resolve
def _nibble(repo: Repo, fi, cfg: CFG, at: int, e: ast.AST, seen: frozenset = frozenset()) -> str | None:
    """why the integer expression e (at CFG node `at` of fi) lies in 0..15, or None.  Inductive over reaching definitions:
    a definition that depends on itself is assumed (the base definitions and the step are what is checked)."""
    if isinstance(e, ast.Constant) and isinstance(e.value, int) and not isinstance(e.value, bool):
        return "constant" if 0 <= e.value <= 15 else None
    if isinstance(e, ast.BinOp) and isinstance(e.op, ast.BitAnd):
        for side in (e.left, e.right):
            try:
                k = repo.fold(side, fi.module, fi.cls)
            except Exception:
                k = NOFOLD
            if isinstance(k, int) and not isinstance(k, bool) and 0 <= k <= 15:
                return f"masked with {k:#x}"
        return None
    if isinstance(e, ast.BinOp) and isinstance(e.op, ast.Mod):
        try:
            k = repo.fold(e.right, fi.module, fi.cls)
        except Exception:
            k = NOFOLD
        return f"modulo {k}" if isinstance(k, int) and 0 < k <= 16 and _nonneg(repo, fi, cfg, at, e.left, seen) else None
    if isinstance(e, ast.Attribute) and e.attr == "sequence_number" and ast.unparse(e.value).split(".")[-1] == "tpci":
        return "sequence number of an existing PDU (4-bit by induction over all construction sites)"
    if isinstance(e, ast.IfExp):
        a, b = _nibble(repo, fi, cfg, at, e.body, seen), _nibble(repo, fi, cfg, at, e.orelse, seen)
        return f"{a} / {b}" if a and b else None
    if isinstance(e, ast.Name):
        ds = cfg.reaching_defs()[at].get(e.id)
        if not ds or -1 in ds:
            return None
        why = []
        for d in sorted(ds):
            if (d, e.id) in seen:
                why.append("(inductive)")
                continue
            st = cfg.nodes[d].ast
            if cfg.nodes[d].kind == "stmt" and isinstance(st, (ast.Assign, ast.AnnAssign)) and st.value is not None:
                ts = st.targets if isinstance(st, ast.Assign) else [st.target]
                if len(ts) == 1 and isinstance(ts[0], ast.Name):
                    w = _nibble(repo, fi, cfg, d, st.value, seen | {(d, e.id)})
                    if w:
                        why.append(w)
                        continue
            return None
        return "; ".join(sorted(set(why)))
    if isinstance(e, ast.Call) and call_name(e) == "next" and len(e.args) == 1:
        # next(<generator attribute>): every writer of the attribute stores a call of a generator function of the class
        # whose every yield is 4-bit
        g = e.args[0]
        if isinstance(g, ast.Attribute) and isinstance(g.value, ast.Name) and g.value.id == "self" and fi.cls is not None:
            from ..astx import attr_writes
            ws = [w for w in attr_writes(repo, g.attr, include_mutators=False) if w.func.cls is not None and w.func.cls.name == fi.cls.name and w.func.module.name == fi.module.name]
            if not ws:
                return None
            for w in ws:
                v = getattr(w.stmt, 'value', None)
                if not (isinstance(v, ast.Call) and isinstance(v.func, ast.Attribute) and isinstance(v.func.value, ast.Name) and v.func.value.id in ("self", "cls", fi.cls.name)):
                    return None
                gen = repo.lookup_method(fi.cls, v.func.attr)
                if gen is None:
                    return None
                gc = CFG(gen.node)
                ys = [(n, y) for n in gc.nodes if n.ast is not None and n.kind in ("stmt", "test") for y in ast.walk(n.ast) if isinstance(y, ast.Yield)]
                if not ys or any(isinstance(y, ast.YieldFrom) for n in gc.nodes if n.ast is not None for y in ast.walk(n.ast)):
                    return None
                for n, y in ys:
                    if y.value is None or not _nibble(repo, gen, gc, n.id, y.value):
                        return None
            return f"next() of a generator whose every yield is 4-bit ({fi.cls.name}.{v.func.attr})"
    return None


def _nonneg(repo, fi, cfg, at, e, seen) -> bool:
    if isinstance(e, ast.Constant):
        return isinstance(e.value, int) and e.value >= 0
    if isinstance(e, ast.BinOp) and isinstance(e.op, (ast.Add, ast.Mult)):
        return _nonneg(repo, fi, cfg, at, e.left, seen) and _nonneg(repo, fi, cfg, at, e.right, seen)
    return _nibble(repo, fi, cfg, at, e, seen) is not None


def built_sequence_numbers(chk: Check, repo: Repo, classes: dict) -> None:
    numbered = {n for n, c in classes.items() if "__init__" in c.methods and any(a.arg == "sequence_number" for a in c.methods["__init__"].node.args.args)}
    chk.floor("numbered_tpci_classes", len(numbered), 3)
    sites = 0
    for fi in repo.all_functions():
        cands = [c for c in ast.walk(fi.node) if isinstance(c, ast.Call) and call_name(c).split(".")[-1] in numbered]
        if not cands:
            continue
        cfg = CFG(fi.node)
        for c in cands:
            holder = [n for n in cfg.nodes if n.ast is not None and n.kind in ("stmt", "test") and any(x is c for x in ast.walk(n.ast))]
            if not holder:
                continue  # nested function: analysed as its own FuncInfo
            arg = next((k.value for k in c.keywords if k.arg == "sequence_number"), c.args[0] if c.args else None)
            if arg is None:
                raise AnalysisError(f"{fi.ref}: {ast.unparse(c)} without a sequence number")
            sites += 1
            why = _nibble(repo, fi, cfg, holder[0].id, arg)
            chk.unit(fi)
            chk.ob("built-sequence-number-is-4-bit", fi.site(c), why is not None, f"{ast.unparse(c)} in {fi.ref}: " + (why or "the sequence number is not provably within 0..15 - to_knx() masks it, so the PDU does not decode back to itself"), key=f"nibble|{fi.ref}|{call_name(c).split('.')[-1]}")
    chk.floor("numbered PDU construction sites", sites, 5)
    # no writer of a PDU's sequence number besides the constructors
    from ..astx import attr_writes
    ws = [w for w in attr_writes(repo, "sequence_number", include_mutators=False) if not (w.func.module.name == M and w.func.qualname.endswith(".__init__")) and w.receiver != "self" or (w.func.module.name == M and not w.func.qualname.endswith(".__init__"))]
    chk.ob("built-sequence-number-is-4-bit", "xknx", not ws, f"writes of <pdu>.sequence_number outside the constructors: {[w.func.ref for w in ws]}", key="nibble|writers")


def decode_goes_through_resolve(chk: Check, repo: Repo, classes: dict) -> None:
    """every TPCI a frame parser hands on is what TPCI.resolve returned for the frame's own octet and destination."""
    fi = repo.func("xknx.cemi.cemi_frame", "CEMILData.from_knx")
    chk.unit(fi)
    cfg = CFG(fi.node)
    found = 0
    for n in cfg.nodes:
        if n.ast is None or n.kind not in ("stmt", "test"):
            continue
        for c in ast.walk(n.ast):
            if isinstance(c, ast.Call):
                kw = next((k.value for k in c.keywords if k.arg == "tpci"), None)
                if kw is None:
                    continue
                found += 1
                v = cfg.symbolic(n.id, kw)
                ok = isinstance(v, ast.Call) and call_name(v) == "TPCI.resolve"
                detail = f"tpci handed to {call_name(c)}: {ast.unparse(v)[:160]}"
                if ok:
                    args = {k.arg: k.value for k in v.keywords}
                    names = [a.arg for a in repo.func(M, "TPCI.resolve").node.args.args[1:]]
                    for i, a in enumerate(v.args):
                        args[names[i]] = a
                    raw = args.get("raw_tpci")
                    ok = isinstance(raw, ast.Subscript) and isinstance(raw.slice, ast.Constant) and raw.slice.value == 0 and not any(isinstance(a, ast.Constant) for a in args.values())
                    detail += "" if ok else " - resolve() does not receive the frame's first TPDU octet and computed destination flags"
                chk.ob("decoding-goes-through-resolve", fi.site(c), ok, detail, key="resolve|cemi")
    if not found:
        raise AnalysisError("CEMILData.from_knx: no tpci= construction found")
    # the mirror on the way out: every frame the library serialises carries the octet its PDU's to_knx() gives - on
    # every path, for every PDU kind (a merge that is skipped for some kinds sends those as another PDU)
    tk = repo.func("xknx.cemi.cemi_frame", "CEMILData.to_knx")
    chk.unit(tk)
    tc = CFG(tk.node)
    def into_frame(a: ast.AST) -> bool:
        # the octet goes into the TPDU (an assignment / |= of it) - handing it to TPCI.resolve for validation does not count
        if not isinstance(a, (ast.Assign, ast.AugAssign, ast.AnnAssign)):
            return False
        inside_resolve = {id(x) for c in ast.walk(a) if isinstance(c, ast.Call) and call_name(c) == "TPCI.resolve" for x in ast.walk(c)}
        return any(isinstance(c, ast.Call) and call_name(c) == "self.tpci.to_knx" and id(c) not in inside_resolve for c in ast.walk(a))
    enc = [n.id for n in tc.nodes if n.ast is not None and n.kind == "stmt" and into_frame(n.ast)]
    chk.ob("encoding-goes-through-to_knx", tk.site(), bool(enc) and tc.all_paths_hit(tc.entry, enc, ends=[tc.exit]), f"CEMILData.to_knx: {len(enc)} statements put self.tpci.to_knx() into the frame; " + ("every path to the return passes one" if enc and tc.all_paths_hit(tc.entry, enc, ends=[tc.exit]) else "some path returns a frame without the PDU's control octet"), key="to_knx|cemi")
    # nobody else constructs a transport PDU while parsing: TPCI classes are instantiated only in resolve, and where the
    # library builds outgoing telegrams (not in any from_knx)
    for f in repo.all_functions():
        if f.node.name != "from_knx" or f.module.name == M:
            continue
        bad = [ast.unparse(c) for c in ast.walk(f.node) if isinstance(c, ast.Call) and call_name(c).split(".")[-1] in classes and call_name(c).split(".")[-1] != "TPCI"]
        if bad:
            chk.ob("decoding-goes-through-resolve", f.site(), False, f"{f.ref} constructs {bad} itself", key=f"resolve|direct|{f.ref}")


def run(chk: Check, repo: Repo) -> None:
    fi, classes, resolve = _mk_resolver(chk, repo)
    chk.floor("tpci_classes", len(classes), 9)
    _init_cuts(repo, fi, classes)
    chk.count("sequence_cut_points", len(_CUTS))
    dst_kinds = [("individual", False, False), ("group", True, False), ("broadcast", True, True)]
    accepted = 0
    cells = 0
    for control in (0, 1):
        for numbered in (0, 1):
            for sname, seq in _seq_cells():
                for flags in range(4):
                    fields = [(7, 1, control), (6, 1, numbered), (2, 4, seq), (0, 2, flags)]
                    raw = B.norm(fields)
                    for dname, g, z in dst_kinds:
                        cells += 1
                        outs = resolve(raw, g, z)
                        cell = f"control={control} numbered={numbered} seq={sname} flags={flags:02b} dst={dname}"
                        if len(outs) != 1:
                            chk.ob("resolve-deterministic", fi.site(), False, f"{cell}: abstract evaluation forked: {sorted(map(str, outs))}", key=f"fork|{cell}")
                            continue
                        kind, val = next(iter(outs))
                        if kind == "raise":
                            chk.ob("reject-with-conversion-error", fi.site(), val == "ConversionError", f"{cell}: rejected with {val}", key=f"reject|{cell}" if val != "ConversionError" else "reject-kind")
                            continue
                        accepted += 1
                        if not isinstance(val, Obj) or val.cls not in classes:
                            chk.ob("returns-tpci", fi.site(), False, f"{cell}: returned {val!r}", key=f"ret|{cell}")
                            continue
                        m, enc = _encode(repo, classes[val.cls], val)
                        chk.unit(m)
                        # transport bits: 7..2 always; 1..0 only for control PDUs
                        mask = 0xFF if control else 0xFC
                        a = B.band(enc, mask)
                        b = B.band(raw, mask)
                        same = a is not None and b is not None and B.eq(a, b) is True
                        chk.ob("reencodes-to-transport-bits", fi.site(), same, f"{cell}: decoded {val.cls}{dict(val.fields) or ''} encodes to {enc!r}; octet {raw!r} (compared under mask {mask:#04x})", key=f"reenc|{cell}" if not same else f"reenc|{val.cls}|{sname}")
    chk.count("resolve_cells", cells)
    chk.count("accepting_cells", accepted)
    # (c) every PDU the library builds resolves back for its destination kind
    kind_of = {"TDataGroup": ("group", True, False), "TDataBroadcast": ("broadcast", True, True), "TDataTagGroup": ("group", True, False)}
    for name, cls in sorted(classes.items()):
        has_seq = "__init__" in cls.methods
        for sname, seq in (_seq_cells() if has_seq else [("-", None)]):
            obj = Obj(name, "", (("sequence_number", seq),) if has_seq else ())
            m, enc = _encode(repo, cls, obj)
            dname, g, z = kind_of.get(name, ("individual", False, False))
            outs = resolve(enc, g, z)
            ok = False
            detail = f"{name}(seq={sname}) encodes to {enc!r}; resolve(dst={dname}) -> {sorted(map(str, outs))}"
            if len(outs) == 1:
                kind, val = next(iter(outs))
                if kind == "ok" and isinstance(val, Obj) and val.cls == name:
                    if has_seq:
                        got = val.get("sequence_number")
                        ok = (got == seq) if isinstance(seq, int) else (isinstance(got, B.SymBits) and got == seq)
                    else:
                        ok = True
            chk.ob("built-pdu-resolves-back", m.site(), ok, detail, key=f"back|{name}|{sname}")
    # equality of PDUs is class + sequence number (so 'same PDU' above is the library's own notion)
    eqm = repo.lookup_method(repo.cls(M, "TPCI"), "__eq__")
    chk.ob("pdu-equality", fi.site(), eqm is not None and "self.__class__" in ast.unparse(eqm.node) and "sequence_number" in ast.unparse(eqm.node), "TPCI.__eq__ compares class and sequence number", key="pdu-eq")
    chk.rule("E7 decision table of TPCI.resolve over bit-field cells (control, numbered, seq in {0,1,other}, flags, destination kind) composed with E2 bit-record evaluation of each class's to_knx")
    built_sequence_numbers(chk, repo, classes)
    decode_goes_through_resolve(chk, repo, classes)
