"""C03 — transport-layer control octets decode only to PDUs that re-encode to them.

The control octet is an abstract bit record [control:1][numbered:1][seq:4][flags:2]; the sequence
field is split into the cells the code distinguishes {0, 1, other (symbolic, != 0,1)}.  TPCI.resolve
is enumerated over control x numbered x seq-cell x flags x destination kind (144 cells) by the
abstract machine (no repository code is run); for every accepting cell the returned class's
MRO-resolved to_knx is evaluated over the same abstract values and compared on the transport bits
(bits 7..2, plus 1..0 for control PDUs).  Conversely every TPCI class, for every seq cell, encodes
to a record that resolves back to the same class and sequence number for its destination kind.
"""

from __future__ import annotations

import ast

from .. import bits as B
from ..absmachine import AbsMachine, Obj, Outcome, UNKNOWN, class_isinstance
from ..astx import call_name, method_name
from ..cfg import CFG
from ..exctable import ExcTable
from ..explore import Explorer
from ..loader import NOFOLD, AnalysisError, Repo
from ..report import Check

M = "xknx.telegram.tpci"


_CUTS: list[int] = [0, 1]


def _seq_cells(name="seq"):
    """Cells of the 4-bit sequence field: every constant the decoder mentions (cut points) + a symbolic 'other'."""
    cells = [(str(c), c) for c in _CUTS]
    if len(_CUTS) < 16:
        cells.append(("other", B.SymBits(name, 4, frozenset(_CUTS))))
    return cells


def _mk_resolver(chk: Check, repo: Repo):
    fi = repo.func(M, "TPCI.resolve")
    chk.unit(fi)
    cfg = CFG(fi.node)
    exc = ExcTable(repo)
    tp = repo.cls(M, "TPCI")
    classes = {c.name: c for c in repo.subclasses(tp, strict=True)}
    params = [a.arg for a in fi.node.args.args]
    if len(params) != 3:
        raise AnalysisError("TPCI.resolve signature changed")

    def run(raw, is_group: bool, is_zero: bool):
        am_box = {}

        def call_model(c: ast.Call, env):
            n = method_name(c)
            if isinstance(c.func, ast.Name) and n in classes:
                am = am_box["am"]
                kw = tuple((k.arg, am.ev(k.value, env, {})) for k in c.keywords if k.arg)
                pos = classes[n].methods.get("__init__")
                if c.args and pos is not None:
                    names = [a.arg for a in pos.node.args.args][1:]
                    kw = kw + tuple((nm, am.ev(a, env, {})) for nm, a in zip(names, c.args))
                return [Outcome(None, Obj(n, "", kw))]
            return None

        def name_hook(e, env):
            if isinstance(e, ast.Name):
                v = repo.module_const(M, e.id)
                if v is not NOFOLD:
                    return v
            return UNKNOWN

        am = AbsMachine(cfg, exc, call_model, name_hook)
        am_box["am"] = am
        env = {params[0]: raw, params[1]: is_group, params[2]: is_zero}
        paths = Explorer(cfg, repo, am.step).run(cfg.entry, [], env)
        outs = set()
        for p in paths:
            if p.end == cfg.exit:
                outs.add(("ok", p.env.get("#ret")))
            else:
                outs.add(("raise", p.env.get("#raised")))
        return outs

    return fi, classes, run


def _encode(repo: Repo, cls, obj: Obj):
    m = repo.lookup_method(cls, "to_knx")
    if m is None:
        raise AnalysisError(f"{cls.name}.to_knx vanished")
    cfg = CFG(m.node)

    def name_hook(e, env):
        if isinstance(e, ast.Attribute) and isinstance(e.value, ast.Name) and e.value.id == "self":
            v = obj.get(e.attr)
            if v is not UNKNOWN:
                return v
            c = repo.const(cls, e.attr)
            if c is not NOFOLD:
                return c
        return UNKNOWN

    am = AbsMachine(cfg, ExcTable(repo), lambda c, e: None, name_hook)
    paths = Explorer(cfg, repo, am.step).run(cfg.entry, [], {})
    vals = {p.env.get("#ret") for p in paths if p.end == cfg.exit}
    if len(vals) != 1 or len(paths) != 1:
        raise AnalysisError(f"{cls.name}.to_knx: not a single-path pure expression over class constants")
    return m, vals.pop()


def _init_cuts(repo: Repo, fi, classes) -> None:
    cuts = {0, 1}
    for n in ast.walk(fi.node):
        if isinstance(n, ast.Constant) and isinstance(n.value, int) and not isinstance(n.value, bool) and 0 <= n.value <= 15:
            cuts.add(n.value)
    for c in classes.values():
        v = repo.const(c, "sequence_number")
        if isinstance(v, int) and 0 <= v <= 15:
            cuts.add(v)
    _CUTS[:] = sorted(cuts)


def group_tpci_codes(repo: Repo) -> set | None:
    """the octets `to_knx` gives for every TPCI object TPCI.resolve can return for a group / broadcast destination
    (all cells of the decision table); None when one of them is not a constant."""
    class _Stub:
        def unit(self, *a, **k):
            pass
    fi, classes, resolve = _mk_resolver(_Stub(), repo)  # type: ignore[arg-type]
    _init_cuts(repo, fi, classes)
    out: set = set()
    for control in (0, 1):
        for numbered in (0, 1):
            for sname, seq in _seq_cells():
                for flags in range(4):
                    raw = B.norm([(7, 1, control), (6, 1, numbered), (2, 4, seq), (0, 2, flags)])
                    for g, z in ((True, False), (True, True)):
                        for kind, val in resolve(raw, g, z):
                            if kind != "ok":
                                continue
                            if not isinstance(val, Obj) or val.cls not in classes:
                                return None
                            _, enc = _encode(repo, classes[val.cls], val)
                            if not isinstance(enc, int):
                                return None
                            out.add(enc)
    return out


def run(chk: Check, repo: Repo) -> None:
    fi, classes, resolve = _mk_resolver(chk, repo)
    chk.floor("tpci_classes", len(classes), 9)
    _init_cuts(repo, fi, classes)
    chk.count("sequence_cut_points", len(_CUTS))
    dst_kinds = [("individual", False, False), ("group", True, False), ("broadcast", True, True)]
    accepted = 0
    cells = 0
    for control in (0, 1):
        for numbered in (0, 1):
            for sname, seq in _seq_cells():
                for flags in range(4):
                    fields = [(7, 1, control), (6, 1, numbered), (2, 4, seq), (0, 2, flags)]
                    raw = B.norm(fields)
                    for dname, g, z in dst_kinds:
                        cells += 1
                        outs = resolve(raw, g, z)
                        cell = f"control={control} numbered={numbered} seq={sname} flags={flags:02b} dst={dname}"
                        if len(outs) != 1:
                            chk.ob("resolve-deterministic", fi.site(), False, f"{cell}: abstract evaluation forked: {sorted(map(str, outs))}", key=f"fork|{cell}")
                            continue
                        kind, val = next(iter(outs))
                        if kind == "raise":
                            chk.ob("reject-with-conversion-error", fi.site(), val == "ConversionError", f"{cell}: rejected with {val}", key=f"reject|{cell}" if val != "ConversionError" else "reject-kind")
                            continue
                        accepted += 1
                        if not isinstance(val, Obj) or val.cls not in classes:
                            chk.ob("returns-tpci", fi.site(), False, f"{cell}: returned {val!r}", key=f"ret|{cell}")
                            continue
                        m, enc = _encode(repo, classes[val.cls], val)
                        chk.unit(m)
                        # transport bits: 7..2 always; 1..0 only for control PDUs
                        mask = 0xFF if control else 0xFC
                        a = B.band(enc, mask)
                        b = B.band(raw, mask)
                        same = a is not None and b is not None and B.eq(a, b) is True
                        chk.ob("reencodes-to-transport-bits", fi.site(), same, f"{cell}: decoded {val.cls}{dict(val.fields) or ''} encodes to {enc!r}; octet {raw!r} (compared under mask {mask:#04x})", key=f"reenc|{cell}" if not same else f"reenc|{val.cls}|{sname}")
    chk.count("resolve_cells", cells)
    chk.count("accepting_cells", accepted)
    # (c) every PDU the library builds resolves back for its destination kind
    kind_of = {"TDataGroup": ("group", True, False), "TDataBroadcast": ("broadcast", True, True), "TDataTagGroup": ("group", True, False)}
    for name, cls in sorted(classes.items()):
        has_seq = "__init__" in cls.methods
        for sname, seq in (_seq_cells() if has_seq else [("-", None)]):
            obj = Obj(name, "", (("sequence_number", seq),) if has_seq else ())
            m, enc = _encode(repo, cls, obj)
            dname, g, z = kind_of.get(name, ("individual", False, False))
            outs = resolve(enc, g, z)
            ok = False
            detail = f"{name}(seq={sname}) encodes to {enc!r}; resolve(dst={dname}) -> {sorted(map(str, outs))}"
            if len(outs) == 1:
                kind, val = next(iter(outs))
                if kind == "ok" and isinstance(val, Obj) and val.cls == name:
                    if has_seq:
                        got = val.get("sequence_number")
                        ok = (got == seq) if isinstance(seq, int) else (isinstance(got, B.SymBits) and got == seq)
                    else:
                        ok = True
            chk.ob("built-pdu-resolves-back", m.site(), ok, detail, key=f"back|{name}|{sname}")
    # equality of PDUs is class + sequence number (so 'same PDU' above is the library's own notion)
    eqm = repo.lookup_method(repo.cls(M, "TPCI"), "__eq__")
    chk.ob("pdu-equality", fi.site(), eqm is not None and "self.__class__" in ast.unparse(eqm.node) and "sequence_number" in ast.unparse(eqm.node), "TPCI.__eq__ compares class and sequence number", key="pdu-eq")
    chk.rule("E7 decision table of TPCI.resolve over bit-field cells (control, numbered, seq in {0,1,other}, flags, destination kind) composed with E2 bit-record evaluation of each class's to_knx")
    chk.assume("sequence numbers passed to TDataConnected/TAck/TNak constructors are 4-bit (to_knx masks with 0xF; resolve produces 4-bit values)")
