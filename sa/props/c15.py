"""C15 — Data Secure frames decrypt to what was sent: sender/receiver build the same CCM inputs.

E10 sibling call-shape agreement between SecureData.init_from_plain_apdu (sender) and
SecureData.get_plain_apdu (receiver), per algorithm, after renaming the two role names
(plaintext, sequence-number octets) that differ by design; plus the callers in DataSecure feed
both with the same frame-derived expressions, and the wire layout of SecureData agrees.
Decides the structural necessary condition only (same MAC/CTR inputs), not the cipher arithmetic.
"""

from __future__ import annotations

import ast

from ..astx import call_name, calls, method_name, walk_local
from ..loader import AnalysisError, Repo
from ..report import Check
from ..shape import bind_call, normalise
from .ds_common import ASDU, MACFN, Side, branch_defs, branch_stmts, find_call, sides

DS = "xknx.secure.data_secure"


def _roles(repo: Repo, s: Side, r: Side) -> tuple[dict[str, str], dict[str, str], list[str]]:
    notes = []
    sb, rb = branch_stmts(s), branch_stmts(r)
    # sequence octets: sender = the value stored as SecureData.sequence_number_bytes in the returned object
    ret = [n for n in walk_local(s.fi.node) if isinstance(n, ast.Return) and isinstance(n.value, ast.Call) and method_name(n.value) == "SecureData"]
    if len(ret) != 1:
        raise AnalysisError("init_from_plain_apdu: expected one `return SecureData(...)`")
    rk = {k.arg: ast.unparse(k.value) for k in ret[0].value.keywords}
    seq_s = rk.get("sequence_number_bytes", "?")
    seq_r = "self.sequence_number_bytes"
    if s.algo == "CCM_ENCRYPTION":
        enc = find_call(sb, "encrypt_data_ctr")
        dec = find_call(rb, "decrypt_ctr")
        if not enc or not dec:
            raise AnalysisError("encrypt_data_ctr / decrypt_ctr call not found in the encryption branches")
        p_s = ast.unparse(bind_call(enc[0], repo.func("xknx.secure.security_primitives", "encrypt_data_ctr"))["payload"])
        tgt = dec[1].targets[0] if isinstance(dec[1], ast.Assign) else None
        if not isinstance(tgt, ast.Tuple):
            raise AnalysisError("receiver: decrypt_ctr result is not tuple-unpacked")
        p_r = ast.unparse(tgt.elts[0])
    else:
        # authentication only: transmitted APDU = bytes(plaintext)
        asg = [st for st in sb if isinstance(st, ast.Assign) and ast.unparse(st.targets[0]) == rk.get("secured_apdu")]
        if len(asg) != 1:
            raise AnalysisError("sender AUTH branch: assignment of the transmitted APDU not found")
        v = asg[0].value
        p_s = ast.unparse(v.args[0]) if isinstance(v, ast.Call) and call_name(v) in ("bytes", "bytearray") else ast.unparse(v)
        p_r = "self.secured_apdu"
    return {seq_s: "SEQ", p_s: "PLAIN"}, {seq_r: "SEQ", p_r: "PLAIN"}, [f"{s.algo}: plaintext sender `{p_s}` <-> receiver `{p_r}`; sequence octets `{seq_s}` <-> `{seq_r}`"]


def run(chk: Check, repo: Repo) -> None:
    from .ds_common import block0_octet_is_the_wire_octet
    block0_octet_is_the_wire_octet(chk, repo)
    snd = sides(repo, "SecureData.init_from_plain_apdu")
    rcv = sides(repo, "SecureData.get_plain_apdu")
    chk.unit(snd["CCM_ENCRYPTION"].fi)
    chk.unit(rcv["CCM_ENCRYPTION"].fi)
    macfn = repo.func("xknx.secure.security_primitives", MACFN)
    b0fn = repo.func(ASDU, "block_0")
    c0fn = repo.func(ASDU, "counter_0")
    chk.unit(b0fn); chk.unit(c0fn)
    for algo in ("CCM_AUTHENTICATION", "CCM_ENCRYPTION"):
        s, r = snd[algo], rcv[algo]
        ren_s, ren_r, notes = _roles(repo, s, r)
        chk.notes.extend(notes)
        ds_ = {k: v for k, v in branch_defs(s).items() if k not in ren_s}
        dr_ = {k: v for k, v in branch_defs(r).items() if k not in ren_r}
        # never inline the MAC result names themselves
        bs = bind_call(s.mac_call, macfn)
        br = bind_call(r.mac_call, macfn)
        for p in sorted(set(bs) | set(br)):
            if p == "block_0":
                continue
            a = normalise(bs[p], ds_, ren_s) if p in bs else "<absent>"
            b = normalise(br[p], dr_, ren_r) if p in br else "<absent>"
            chk.ob("mac-input-agreement", r.fi.site(r.mac_call), a == b, f"{algo}: MAC argument `{p}`: sender `{a}` vs receiver `{b}`", key=f"mac|{algo}|{p}")
        # block_0
        b0s = [c for c in calls(bs.get("block_0", ast.Constant(None))) if call_name(c) == "block_0"] if "block_0" in bs else []
        b0r = [c for c in calls(br.get("block_0", ast.Constant(None))) if call_name(c) == "block_0"] if "block_0" in br else []
        if "block_0" in bs and not b0s:
            e = ast.parse(normalise(bs["block_0"], ds_), mode="eval").body
            b0s = [c for c in calls(e) if call_name(c) == "block_0"]
        if "block_0" in br and not b0r:
            e = ast.parse(normalise(br["block_0"], dr_), mode="eval").body
            b0r = [c for c in calls(e) if call_name(c) == "block_0"]
        if len(b0s) != 1 or len(b0r) != 1:
            raise AnalysisError(f"{algo}: block_0(...) argument of the MAC computation not found on both sides")
        xs, xr = bind_call(b0s[0], b0fn), bind_call(b0r[0], b0fn)
        params = [a.arg for a in b0fn.node.args.args]
        for p in params:
            a = normalise(xs[p], ds_, ren_s) if p in xs else "<absent>"
            b = normalise(xr[p], dr_, ren_r) if p in xr else "<absent>"
            if algo == "CCM_ENCRYPTION":
                # CTR mode preserves length: len(ciphertext) == len(plaintext)
                b = b.replace("len(self.secured_apdu)", "len(PLAIN)")
            chk.ob("block0-agreement", r.fi.site(b0r[0]), a == b and a != "<absent>", f"{algo}: block_0 `{p}`: sender `{a}` vs receiver `{b}`", key=f"block0|{algo}|{p}")
        chk.ob("mac-truncation", r.fi.site(r.mac_call), s.mac_trunc == r.mac_trunc == ":4", f"{algo}: MAC truncated to 4 octets on both sides (sender [{s.mac_trunc}], receiver [{r.mac_trunc}])", key=f"trunc|{algo}")
        if algo == "CCM_ENCRYPTION":
            enc, _ = find_call(branch_stmts(s), "encrypt_data_ctr")  # type: ignore[misc]
            dec, _ = find_call(branch_stmts(r), "decrypt_ctr")  # type: ignore[misc]
            es = bind_call(enc, repo.func("xknx.secure.security_primitives", "encrypt_data_ctr"))
            er = bind_call(dec, repo.func("xknx.secure.security_primitives", "decrypt_ctr"))
            for p in ("key", "counter_0"):
                a = normalise(es[p], ds_, ren_s) if p in es else "<absent>"
                b = normalise(er[p], dr_, ren_r) if p in er else "<absent>"
                chk.ob("ctr-input-agreement", r.fi.site(dec), a == b and a != "<absent>", f"CTR `{p}`: sender `{a}` vs receiver `{b}`", key=f"ctr|{p}")
            chk.ob("ctr-input-agreement", r.fi.site(dec), normalise(er.get("payload", ast.Constant(None))) == "self.secured_apdu" and normalise(er.get("mac", ast.Constant(None))) == "self.message_authentication_code",
                   "receiver decrypts the transmitted APDU and the transmitted MAC", key="ctr|receiver-inputs")
            mac_name = [ast.unparse(t) for t in s.mac_node.ast.targets] if isinstance(s.mac_node.ast, ast.Assign) else []  # type: ignore[attr-defined]
            chk.ob("ctr-input-agreement", s.fi.site(enc), normalise(es.get("mac_cbc", ast.Constant(None))) in mac_name and normalise(es.get("payload", ast.Constant(None)), {}, ren_s) == "PLAIN",
                   "sender encrypts the plaintext and the CBC-MAC it just computed", key="ctr|sender-inputs")
    # counter_0 / block_0 use all their parameters
    from ..shape import param_flows_to_return
    for fn in (b0fn, c0fn):
        for p, ok in param_flows_to_return(fn.node).items():
            chk.ob("param-reaches-output", fn.site(), ok, f"{fn.name}: parameter `{p}` reaches the returned block", key=f"flow|{fn.name}|{p}")
    # wire layout of SecureData
    tk = repo.func(ASDU, "SecureData.to_knx"); fk = repo.func(ASDU, "SecureData.from_knx")
    chk.unit(tk); chk.unit(fk)
    rt = [n for n in walk_local(tk.node) if isinstance(n, ast.Return)]
    order = normalise(rt[0].value) if rt else ""
    chk.ob("asdu-layout", tk.site(), order == "self.sequence_number_bytes + self.secured_apdu + self.message_authentication_code", f"to_knx = {order}", key="asdu-layout|to_knx")
    fr = [c for c in calls(fk.node) if method_name(c) == "SecureData"]
    kw = {k.arg: ast.unparse(k.value) for k in fr[0].keywords} if fr else {}
    rawp = fk.node.args.args[0].arg if fk.node.args.args else "raw"
    chk.ob("asdu-layout", fk.site(), kw == {"sequence_number_bytes": f"{rawp}[:6]", "secured_apdu": f"{rawp}[6:-4]", "message_authentication_code": f"{rawp}[-4:]"}, f"from_knx slices {kw} (6 sequence octets, body, 4 MAC octets)", key="asdu-layout|from_knx")
    ip = snd["CCM_ENCRYPTION"].fi
    tb = [c for c in calls(ip.node) if method_name(c) == "to_bytes"]
    chk.ob("asdu-layout", ip.site(), bool(tb) and all(ast.unparse(c.args[0]) == "6" and ast.unparse(c.args[1]) == "'big'" for c in tb), "sender serialises the sequence number as 6 big-endian octets", key="asdu-layout|seq6")
    # callers feed both sides with the same frame-derived expressions
    sd = repo.func(DS, "DataSecure._secure_data_cemi"); rc = repo.func(DS, "DataSecure._received_secure_cemi")
    chk.unit(sd); chk.unit(rc)
    cs = [c for c in calls(sd.node) if method_name(c) == "init_from_plain_apdu"]
    cr = [c for c in calls(rc.node) if method_name(c) == "get_plain_apdu"]
    if len(cs) != 1 or len(cr) != 1:
        raise AnalysisError("DataSecure: init_from_plain_apdu / get_plain_apdu call sites not unique")
    from ..shape import single_assignments
    ks = bind_call(cs[0], snd["CCM_ENCRYPTION"].fi)
    kr = bind_call(cr[0], rcv["CCM_ENCRYPTION"].fi, skip_self=True)
    dS, dR = single_assignments(sd.node), single_assignments(rc.node)
    cemi_s = sd.node.args.args[-1].arg
    cemi_r = rc.node.args.args[1].arg
    for p in ("address_fields_raw", "address_type", "frame_format", "tpci"):
        a = normalise(ks[p], dS, {cemi_s: "FRAME"}) if p in ks else "<absent>"
        b = normalise(kr[p], dR, {cemi_r: "FRAME"}) if p in kr else "<absent>"
        chk.ob("caller-agreement", rc.site(cr[0]), a == b and a.startswith("FRAME."), f"`{p}`: sender passes `{a}`, receiver passes `{b}`", key=f"caller|{p}")
    # key: both from the group key table by destination
    oc = repo.func(DS, "DataSecure.outgoing_cemi")
    chk.unit(oc)
    def key_names(fn, frame: str) -> set[str]:
        """locals bound (walrus or assignment) to the group key table looked up by the frame's destination"""
        out = set()
        for n in walk_local(fn.node):
            tgt = n.target if isinstance(n, ast.NamedExpr) else (n.targets[0] if isinstance(n, ast.Assign) and len(n.targets) == 1 else None)
            if isinstance(tgt, ast.Name) and normalise(n.value, {}, {frame: "FRAME"}) == "self._group_key_table.get(FRAME.dst_addr)":
                out.add(tgt.id)
        return out

    def passes_key(fn, callee_suffix: str, names: set[str]) -> bool:
        cs = [c for c in calls(fn.node) if call_name(c).endswith(callee_suffix)]
        return bool(cs) and all(any(k.arg == "key" and isinstance(k.value, ast.Name) and k.value.id in names for k in c.keywords) for c in cs)
    ks_names = key_names(oc, oc.node.args.args[1].arg)
    kr_names = key_names(rc, cemi_r)
    sd_key_param_forwarded = any(k.arg == "key" and isinstance(k.value, ast.Name) and k.value.id in {a.arg for a in sd.node.args.args} for c in calls(sd.node) if call_name(c).endswith("init_from_plain_apdu") for k in c.keywords)
    ok = len(ks_names) == 1 and len(kr_names) == 1 and passes_key(oc, "._secure_data_cemi", ks_names) and sd_key_param_forwarded and passes_key(rc, ".get_plain_apdu", kr_names)
    chk.ob("caller-agreement", rc.site(), ok, "both directions take the key from _group_key_table.get(<frame>.dst_addr)", key="caller|key")
    # scf travels in the SecureAPDU
    sa = [c for c in calls(sd.node) if method_name(c) == "SecureAPDU"]
    ok = len(sa) == 1 and {k.arg: ast.unparse(k.value) for k in sa[0].keywords}.get("scf") == ast.unparse(ks["scf"]) and ast.unparse(kr["scf"]).endswith(".scf")
    chk.ob("caller-agreement", sd.site(), ok, "the SCF used for securing is the one transmitted in the SecureAPDU, and the receiver verifies with the received SCF", key="caller|scf")
    # delivered payload is marked secure: is_data_secure(frame) <=> payload is a SecureAPDU (whatever the algorithm)
    from ..absmachine import AbsMachine, Obj, class_isinstance
    from ..cfg import CFG
    from ..exctable import ExcTable
    from ..explore import Explorer
    from ..loader import EnumMember
    ids = repo.func(DS, "is_data_secure")
    chk.unit(ids)
    cfg_i = CFG(ids.node)
    p0 = ids.node.args.args[0].arg
    algos = repo.enum_members(repo.cls(ASDU, "SecurityAlgorithmIdentifier"))
    cases = [(f"SecureAPDU/{a}", Obj("SecureAPDU", a, (("scf", Obj("SecurityControlField", a, (("algorithm", EnumMember(f"{ASDU}:SecurityAlgorithmIdentifier", a)),))),)), True) for a in algos]
    cases += [("GroupValueWrite", Obj("GroupValueWrite", "p"), False), ("no payload", None, False)]
    for label, payload, want in cases:
        def hook(e, env):
            import ast as _a
            if isinstance(e, _a.Attribute):
                v = repo.fold(e, ids.module, None)
                if isinstance(v, EnumMember):
                    return v
            from ..absmachine import UNKNOWN
            return UNKNOWN
        am = AbsMachine(cfg_i, ExcTable(repo), lambda c, e: None, hook)
        am.isinstance_fn = class_isinstance(repo)
        paths = Explorer(cfg_i, repo, am.step).run(cfg_i.entry, [], {f"{p0}.payload": payload})
        rets = {p.env.get("#ret") for p in paths if p.end == cfg_i.exit}
        chk.ob("marked-secure-iff-secure-apdu", ids.site(), rets == {want}, f"is_data_secure(payload={label}) -> {sorted(map(str, rets))}; required {want}", key=f"is_data_secure|{label}")
    chk.rule("E10 sibling call-shape agreement (sender vs receiver arguments of the MAC / block_0 / counter_0 / CTR primitives, per algorithm, under a derived role map)")
    chk.assume("encrypt_data_ctr / decrypt_ctr are inverse for equal key and counter_0; calculate_message_authentication_code_cbc is deterministic (crypto primitives trusted)")
    chk.assume("bytes(x) of a bytes-like x is value-preserving")
