"""C08 — every decoded datapoint value re-encodes to a payload with the same meaning (bit-packed families).

E2 bit-provenance, R∘W∘R = R: for every distinct codec (from_knx body x to_knx/_to_knx body x data type) whose
arithmetic is in the integer / flag / enum fragment, a symbolic payload of the declared type and length is decoded on
every path (validity flags and enum lookups fork), the decoded value is handed to the same type's encoder and the
produced payload is decoded again:
  * the encoder accepts the decoded value (no refusing path);
  * the second decoding yields a structurally equal value (same bit provenance per field, same enum member, same
    None-ness), so the payload keeps its meaning even where reserved / invalid-marked bits are normalised.
Codecs with float arithmetic (scaling, 16/32-bit floats, xyY colour, fade times) and text are outside the fragment:
they are listed in the evidence as not decided (C09 covers the numeric ranges; text replacement is documented).
Truncation lint for those: a decoded-then-encoded scaled value must go through round(), not int(<true division>).
"""

from __future__ import annotations

import ast
from typing import Any

from ..astx import call_name, calls, walk_local
from ..loader import AnalysisError, Repo
from ..report import Check
from ..sereval import BV, SBV, AbstractRaise, Blob, Bytes, EnumV, Lin, ListV, Obj, Run, SerEval, Src, StrV, Unsupported

FLOAT_MARKERS = ("operator Div", "not an integer", "possibly negative integer expression", "comprehension", "round", "float")


def equal(ev: SerEval, run: Run, a: Any, b: Any, path: str, out: list[str]) -> None:
    if isinstance(a, Obj) and isinstance(b, Obj):
        if a.cls != b.cls:
            out.append(f"{path}: {a.cls} vs {b.cls}")
            return
        for k in sorted(set(a.fields) | set(b.fields)):
            equal(ev, run, a.fields.get(k), b.fields.get(k), f"{path}.{k}", out)
        return
    if isinstance(a, EnumV) and isinstance(b, EnumV):
        if a.enum != b.enum or ev.resolve_bits(ev.to_bv(a, run), run) != ev.resolve_bits(ev.to_bv(b, run), run):
            out.append(f"{path}: {a!r} decodes again as {b!r}")
        return
    if isinstance(a, SBV) and isinstance(b, SBV):
        if a.n != b.n or a.bv != b.bv:
            out.append(f"{path}: {a!r} decodes again as {b!r}")
        return
    if isinstance(a, (BV, int, Lin)) and isinstance(b, (BV, int, Lin)) and not isinstance(a, bool) and not isinstance(b, bool):
        try:
            same = ev.resolve_bits(ev.to_bv(a, run), run) == ev.resolve_bits(ev.to_bv(b, run), run)
        except Unsupported:
            same = repr(a) == repr(b)
        if not same:
            out.append(f"{path}: {a!r} decodes again as {b!r}")
        return
    if isinstance(a, Bytes) and isinstance(b, Bytes):
        if repr(ev.norm_bytes(a, run)) != repr(ev.norm_bytes(b, run)):
            out.append(f"{path}: {a!r} decodes again as {b!r}")
        return
    if isinstance(a, bool) or isinstance(b, bool):
        x = BV.const(int(a)) if isinstance(a, bool) else a
        y = BV.const(int(b)) if isinstance(b, bool) else b
        if isinstance(x, BV) and isinstance(y, BV):
            if ev.resolve_bits(x, run) != ev.resolve_bits(y, run):
                out.append(f"{path}: {a!r} decodes again as {b!r}")
            return
    if a is None or b is None or isinstance(a, (str, StrV, float)) or isinstance(b, (str, StrV, float)):
        if a != b:
            out.append(f"{path}: {a!r} decodes again as {b!r}")
        return
    if isinstance(a, (tuple, list)) and isinstance(b, (tuple, list)) and len(a) == len(b):
        for i, (x, y) in enumerate(zip(a, b)):
            equal(ev, run, x, y, f"{path}[{i}]", out)
        return
    if repr(a) != repr(b):
        out.append(f"{path}: {a!r} decodes again as {b!r}")


def text_codecs(chk: Check, repo: Repo) -> None:
    """Text types: the only permitted change of a decoded text on its way back to octets is the codec's own
    errors='replace' (the documented '?'): the text handed to `.encode` is `str(value)` itself (single-assignment
    chain), encoded with the class codec and errors='replace', padded with NUL octets only; the decoder drops only NUL
    octets and decodes with the same codec and errors='replace'."""
    base = repo.cls("xknx.dpt.dpt_16", "DPTString")
    tk, fk = base.methods.get("to_knx"), base.methods.get("from_knx")
    if tk is None or fk is None:
        raise AnalysisError("DPTString codec not found")
    chk.unit(tk); chk.unit(fk)
    over = [c.name for c in repo.subclasses(base, strict=True) if "to_knx" in c.methods or "from_knx" in c.methods]
    chk.ob("text-codec-shared", tk.site(), not over, f"subclasses overriding the text codec: {over}", key="text|overrides")

    def origin(name: str, fn) -> str:
        seen = set()
        while True:
            defs = [n for n in walk_local(fn.node) if isinstance(n, ast.Assign) and len(n.targets) == 1 and isinstance(n.targets[0], ast.Name) and n.targets[0].id == name]
            others = [n for n in walk_local(fn.node) if isinstance(n, (ast.AugAssign, ast.For, ast.NamedExpr)) and any(isinstance(x, ast.Name) and x.id == name and isinstance(x.ctx, ast.Store) for x in ast.walk(n))]
            if len(defs) != 1 or others or name in seen:
                return f"?{name} ({len(defs)} assignments)"
            seen.add(name)
            v = defs[0].value
            if isinstance(v, ast.Name):
                name = v.id
                continue
            return ast.unparse(v)
    enc = [c for c in calls(tk.node) if isinstance(c.func, ast.Attribute) and c.func.attr == "encode"]
    param = tk.node.args.args[1].arg
    ok = len(enc) == 1 and isinstance(enc[0].func.value, ast.Name) and origin(enc[0].func.value.id, tk) == f"str({param})" and ast.unparse(enc[0].args[0]) == "cls._encoding" and any(k.arg == "errors" and ast.unparse(k.value) == "'replace'" for k in enc[0].keywords)
    chk.ob("text-reencoded-unchanged-but-for-codec-replacement", tk.site(), ok, f"DPTString.to_knx encodes `{origin(enc[0].func.value.id, tk) if enc and isinstance(enc[0].func.value, ast.Name) else '?'}` with ({', '.join(ast.unparse(a) for a in enc[0].args) if enc else '?'}, errors=replace): the caller's text, untouched before the codec", key="text|encode")
    pads = [n for n in walk_local(tk.node) if isinstance(n, ast.Assign) and isinstance(n.value, ast.Call) and call_name(n.value) == "bytes" and len(n.value.args) == 1 and not isinstance(n.value.args[0], (ast.List, ast.Tuple, ast.Constant))]
    rets = [n for n in walk_local(tk.node) if isinstance(n, ast.Return)]
    ok = len(pads) == 1 and len(rets) == 1 and isinstance(rets[0].value, ast.Call) and call_name(rets[0].value) == "DPTArray" and isinstance(rets[0].value.args[0], ast.BinOp) and isinstance(rets[0].value.args[0].op, ast.Add) and origin(ast.unparse(rets[0].value.args[0].left), tk).endswith("errors='replace')") and ast.unparse(rets[0].value.args[0].right) == pads[0].targets[0].id
    chk.ob("text-reencoded-unchanged-but-for-codec-replacement", tk.site(), ok, "the payload is the encoded text followed by NUL padding (bytes(n)) and nothing else", key="text|padding")
    dec = [c for c in calls(fk.node) if isinstance(c.func, ast.Attribute) and c.func.attr == "decode"]
    ok = len(dec) == 1 and ast.unparse(dec[0].args[0]) == "cls._encoding" and any(k.arg == "errors" and ast.unparse(k.value) == "'replace'" for k in dec[0].keywords) and isinstance(dec[0].func.value, ast.Call) and call_name(dec[0].func.value) == "bytes" and isinstance(dec[0].func.value.args[0], ast.GeneratorExp) and [ast.unparse(i) for i in dec[0].func.value.args[0].generators[0].ifs] in (["byte != 0"], ["byte"]) and ast.unparse(dec[0].func.value.args[0].elt) == ast.unparse(dec[0].func.value.args[0].generators[0].target)
    chk.ob("text-decoded-dropping-only-nul", fk.site(), ok, "DPTString.from_knx decodes the non-NUL octets with the class codec and errors='replace'", key="text|decode")


def codecs(repo: Repo):
    base = repo.cls("xknx.dpt.dpt", "DPTBase")
    seen: dict[tuple, list] = {}
    for c in repo.subclasses(base, strict=True):
        fk, tk = repo.lookup_method(c, "from_knx"), repo.lookup_method(c, "to_knx")
        if fk is None or tk is None or any("abstractmethod" in d for m in (fk, tk) for d in m.decorators):
            continue
        t2 = repo.lookup_method(c, "_to_knx")
        if t2 is not None and any("abstractmethod" in d for d in t2.decorators):
            continue
        dt = repo.class_attr_expr(c, "data_type")
        pl, pt = repo.const(c, "payload_length"), repo.class_attr_expr(c, "payload_type")
        if not isinstance(pl, int) or pt is None:
            continue
        extra = tuple(repr(repo.const(c, k)) for k in ("value_min", "value_max", "resolution", "_struct_format", "_encoding"))
        key = (fk.qualname, tk.qualname, t2.qualname if t2 else "", ast.unparse(dt[0]) if dt else "", pl, ast.unparse(pt[0])) + extra
        seen.setdefault(key, []).append(c)
    return seen


def run(chk: Check, repo: Repo) -> None:
    ev = SerEval(repo)
    groups = codecs(repo)
    chk.floor("distinct datapoint codecs", len(groups), 60)
    decided = 0
    undecided: dict[str, str] = {}
    n_paths = 0
    for key, members in sorted(groups.items(), key=lambda kv: kv[1][0].name):
        c = members[0]
        fk, tk = repo.lookup_method(c, "from_knx"), repo.lookup_method(c, "to_knx")
        pl, ptn = key[4], key[5]
        label = c.name + (f" (+{len(members) - 1} with the same codec)" if len(members) > 1 else "")

        def fn(run_: Run, c=c, fk=fk, tk=tk, pl=pl, ptn=ptn):
            if ptn == "DPTBinary":
                payload = Obj("DPTBinary", {"value": BV(tuple(Src("in", 0, i) for i in range(pl)))}, ev.cls_of("DPTBinary"))
            else:
                payload = Obj("DPTArray", {"value": Bytes((Blob("in", Lin(0), Lin(pl)),))}, ev.cls_of("DPTArray"))
            v = ev.call_function(fk, [payload], {}, run_, ctx=c)
            run_.__dict__["decoded"] = v
            try:
                out = ev.call_function(tk, [v], {}, run_, ctx=c)
            except AbstractRaise as r:
                return ("refused", v, r.exc + ": " + r.why)
            run_.__dict__["encoded"] = out
            v2 = ev.call_function(fk, [out], {}, run_, ctx=c)
            return ("again", v, out, v2)

        try:
            paths = ev.paths(fn, max_paths=5000)
        except Unsupported as u:
            msg = str(u)
            if any(m in msg for m in FLOAT_MARKERS):
                undecided[c.name] = msg[:80]
                continue
            raise AnalysisError(f"{c.name}: codec outside the analysed fragment: {u}") from u
        decided += 1
        chk.unit(fk); chk.unit(tk)
        ok_paths = 0
        for outcome, val, r in paths:
            if outcome != "return":
                if "decoded" not in r.__dict__:
                    continue  # the decoder rejected the payload: C07's business
                chk.ob("reencoded-payload-decodes", tk.site(), False, f"{label}: the payload produced for the decoded value {r.__dict__['decoded']!r} is rejected by the decoder ({outcome[6:]}: {val})", key=f"redecode|{c.name}|{outcome[6:]}")
                continue
            n_paths += 1
            if val[0] == "refused":
                chk.ob("decoded-value-is-accepted-by-the-encoder", tk.site(), False, f"{label}: decoded value {val[1]!r} is refused by the encoder ({val[2]})", key=f"refused|{c.name}|{val[2][:60]}")
                continue
            _, v, out, v2 = val
            diffs: list[str] = []
            equal(ev, r, v, v2, "value", diffs)
            unchecked = [n for n in r.notes if n.startswith(("UNCHECKED", "LOSSY"))]
            ok_paths += 1 if not diffs and not unchecked else 0
            chk.ob("redecoded-value-equals-decoded", tk.site(), not diffs and not unchecked, f"{label}: decode -> encode -> decode gives the same value" if not diffs and not unchecked else f"{label}: " + "; ".join(diffs + unchecked)[:400], key=f"rwr|{c.name}|{len([n for n in r.notes if n.startswith('branch')])}|{r.decisions}" if not diffs and not unchecked else f"rwr|{c.name}|" + ";".join(sorted({d.split(':')[0] for d in diffs}))[:120])
    chk.count("codecs decided (integer / flag / enum fragment)", decided)
    chk.count("codecs not decided (float / text arithmetic)", len(undecided))
    chk.count("decode paths composed", n_paths)
    chk.floor("codecs decided (integer / flag / enum fragment)", decided, 55)
    chk.extra["not_decided"] = undecided
    # truncation lint on the float families
    base = repo.cls("xknx.dpt.dpt", "DPTBase")
    for c in repo.subclasses(base, strict=True):
        for mname in ("to_knx", "_to_knx"):
            m = c.methods.get(mname)
            if m is None:
                continue
            for call in calls(m.node):
                if call_name(call) == "int" and call.args and any(isinstance(x, ast.BinOp) and isinstance(x.op, ast.Div) for x in ast.walk(call.args[0])):
                    chk.ob("scaled-value-is-rounded-not-truncated", m.site(call), False, f"{c.name}.{mname}: `{ast.unparse(call)}` truncates toward zero; a decoded value such as 0.29 (= 29 x 0.01) re-encodes as 28", key=f"trunc|{c.name}.{mname}")
    text_codecs(chk, repo)
    chk.rule("E2 bit-provenance evaluation decode -> encode -> decode per distinct codec, every path; structural equality of the two decoded values; truncation lint")
    chk.assume("float-valued codecs are not decided here (listed in evidence); DPTArray / DPTBinary payloads are octet tuples / 6-bit values (C11)")
