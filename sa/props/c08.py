"""C08 — every decoded datapoint value re-encodes to a payload with the same meaning (bit-packed families).

E2 bit-provenance, R∘W∘R = R: for every distinct codec (from_knx body x to_knx/_to_knx body x data type) whose
arithmetic is in the integer / flag / enum fragment, a symbolic payload of the declared type and length is decoded on
every path (validity flags and enum lookups fork), the decoded value is handed to the same type's encoder and the
produced payload is decoded again:
  * the encoder accepts the decoded value (no refusing path);
  * the second decoding yields a structurally equal value (same bit provenance per field, same enum member, same
    None-ness), so the payload keeps its meaning even where reserved / invalid-marked bits are normalised.
Codecs with float arithmetic (scaling, 16/32-bit floats, xyY colour, fade times) and text are outside the fragment:
they are listed in the evidence as not decided (C09 covers the numeric ranges; text replacement is documented).
Truncation lint for those: a decoded-then-encoded scaled value must go through round(), not int(<true division>).
"""

from __future__ import annotations

import ast
from typing import Any

from ..astx import call_name, calls, walk_local
from ..loader import AnalysisError, Repo
from ..report import Check
from ..sereval import BV, SBV, AbstractRaise, Blob, Bytes, EnumV, Lin, ListV, Obj, Run, SerEval, Src, StrV, Unsupported

FLOAT_MARKERS = ("operator Div", "not an integer", "possibly negative integer expression", "comprehension", "round", "float")


def equal(ev: SerEval, run: Run, a: Any, b: Any, path: str, out: list[str]) -> None:
    if isinstance(a, Obj) and isinstance(b, Obj):
        if a.cls != b.cls:
            out.append(f"{path}: {a.cls} vs {b.cls}")
            return
        for k in sorted(set(a.fields) | set(b.fields)):
            equal(ev, run, a.fields.get(k), b.fields.get(k), f"{path}.{k}", out)
        return
    if isinstance(a, EnumV) and isinstance(b, EnumV):
        if a.enum != b.enum or ev.resolve_bits(ev.to_bv(a, run), run) != ev.resolve_bits(ev.to_bv(b, run), run):
            out.append(f"{path}: {a!r} decodes again as {b!r}")
        return
    if isinstance(a, SBV) and isinstance(b, SBV):
        if a.n != b.n or a.bv != b.bv:
            out.append(f"{path}: {a!r} decodes again as {b!r}")
        return
    if isinstance(a, (BV, int, Lin)) and isinstance(b, (BV, int, Lin)) and not isinstance(a, bool) and not isinstance(b, bool):
        try:
            same = ev.resolve_bits(ev.to_bv(a, run), run) == ev.resolve_bits(ev.to_bv(b, run), run)
        except Unsupported:
            same = repr(a) == repr(b)
        if not same:
            out.append(f"{path}: {a!r} decodes again as {b!r}")
        return
    if isinstance(a, Bytes) and isinstance(b, Bytes):
        if repr(ev.norm_bytes(a, run)) != repr(ev.norm_bytes(b, run)):
            out.append(f"{path}: {a!r} decodes again as {b!r}")
        return
    if isinstance(a, bool) or isinstance(b, bool):
        x = BV.const(int(a)) if isinstance(a, bool) else a
        y = BV.const(int(b)) if isinstance(b, bool) else b
        if isinstance(x, BV) and isinstance(y, BV):
            if ev.resolve_bits(x, run) != ev.resolve_bits(y, run):
                out.append(f"{path}: {a!r} decodes again as {b!r}")
            return
    if a is None or b is None or isinstance(a, (str, StrV, float)) or isinstance(b, (str, StrV, float)):
        if a != b:
            out.append(f"{path}: {a!r} decodes again as {b!r}")
        return
    if isinstance(a, (tuple, list)) and isinstance(b, (tuple, list)) and len(a) == len(b):
        for i, (x, y) in enumerate(zip(a, b)):
            equal(ev, run, x, y, f"{path}[{i}]", out)
        return
    if repr(a) != repr(b):
        out.append(f"{path}: {a!r} decodes again as {b!r}")


def codecs(repo: Repo):
    base = repo.cls("xknx.dpt.dpt", "DPTBase")
    seen: dict[tuple, list] = {}
    for c in repo.subclasses(base, strict=True):
        fk, tk = repo.lookup_method(c, "from_knx"), repo.lookup_method(c, "to_knx")
        if fk is None or tk is None or any("abstractmethod" in d for m in (fk, tk) for d in m.decorators):
            continue
        t2 = repo.lookup_method(c, "_to_knx")
        if t2 is not None and any("abstractmethod" in d for d in t2.decorators):
            continue
        dt = repo.class_attr_expr(c, "data_type")
        pl, pt = repo.const(c, "payload_length"), repo.class_attr_expr(c, "payload_type")
        if not isinstance(pl, int) or pt is None:
            continue
        extra = tuple(repr(repo.const(c, k)) for k in ("value_min", "value_max", "resolution", "_struct_format", "_encoding"))
        key = (fk.qualname, tk.qualname, t2.qualname if t2 else "", ast.unparse(dt[0]) if dt else "", pl, ast.unparse(pt[0])) + extra
        seen.setdefault(key, []).append(c)
    return seen


def run(chk: Check, repo: Repo) -> None:
    ev = SerEval(repo)
    groups = codecs(repo)
    chk.floor("distinct datapoint codecs", len(groups), 60)
    decided = 0
    undecided: dict[str, str] = {}
    n_paths = 0
    for key, members in sorted(groups.items(), key=lambda kv: kv[1][0].name):
        c = members[0]
        fk, tk = repo.lookup_method(c, "from_knx"), repo.lookup_method(c, "to_knx")
        pl, ptn = key[4], key[5]
        label = c.name + (f" (+{len(members) - 1} with the same codec)" if len(members) > 1 else "")

        def fn(run_: Run, c=c, fk=fk, tk=tk, pl=pl, ptn=ptn):
            if ptn == "DPTBinary":
                payload = Obj("DPTBinary", {"value": BV(tuple(Src("in", 0, i) for i in range(pl)))}, ev.cls_of("DPTBinary"))
            else:
                payload = Obj("DPTArray", {"value": Bytes((Blob("in", Lin(0), Lin(pl)),))}, ev.cls_of("DPTArray"))
            v = ev.call_function(fk, [payload], {}, run_, ctx=c)
            run_.__dict__["decoded"] = v
            try:
                out = ev.call_function(tk, [v], {}, run_, ctx=c)
            except AbstractRaise as r:
                return ("refused", v, r.exc + ": " + r.why)
            run_.__dict__["encoded"] = out
            v2 = ev.call_function(fk, [out], {}, run_, ctx=c)
            return ("again", v, out, v2)

        try:
            paths = ev.paths(fn, max_paths=5000)
        except Unsupported as u:
            msg = str(u)
            if any(m in msg for m in FLOAT_MARKERS):
                undecided[c.name] = msg[:80]
                continue
            raise AnalysisError(f"{c.name}: codec outside the analysed fragment: {u}") from u
        decided += 1
        chk.unit(fk); chk.unit(tk)
        ok_paths = 0
        for outcome, val, r in paths:
            if outcome != "return":
                if "decoded" not in r.__dict__:
                    continue  # the decoder rejected the payload: C07's business
                chk.ob("reencoded-payload-decodes", tk.site(), False, f"{label}: the payload produced for the decoded value {r.__dict__['decoded']!r} is rejected by the decoder ({outcome[6:]}: {val})", key=f"redecode|{c.name}|{outcome[6:]}")
                continue
            n_paths += 1
            if val[0] == "refused":
                chk.ob("decoded-value-is-accepted-by-the-encoder", tk.site(), False, f"{label}: decoded value {val[1]!r} is refused by the encoder ({val[2]})", key=f"refused|{c.name}|{val[2][:60]}")
                continue
            _, v, out, v2 = val
            diffs: list[str] = []
            equal(ev, r, v, v2, "value", diffs)
            unchecked = [n for n in r.notes if n.startswith(("UNCHECKED", "LOSSY"))]
            ok_paths += 1 if not diffs and not unchecked else 0
            chk.ob("redecoded-value-equals-decoded", tk.site(), not diffs and not unchecked, f"{label}: decode -> encode -> decode gives the same value" if not diffs and not unchecked else f"{label}: " + "; ".join(diffs + unchecked)[:400], key=f"rwr|{c.name}|{len([n for n in r.notes if n.startswith('branch')])}|{r.decisions}" if not diffs and not unchecked else f"rwr|{c.name}|" + ";".join(sorted({d.split(':')[0] for d in diffs}))[:120])
    chk.count("codecs decided (integer / flag / enum fragment)", decided)
    chk.count("codecs not decided (float / text arithmetic)", len(undecided))
    chk.count("decode paths composed", n_paths)
    chk.floor("codecs decided (integer / flag / enum fragment)", decided, 55)
    chk.extra["not_decided"] = undecided
    # truncation lint on the float families
    base = repo.cls("xknx.dpt.dpt", "DPTBase")
    for c in repo.subclasses(base, strict=True):
        for mname in ("to_knx", "_to_knx"):
            m = c.methods.get(mname)
            if m is None:
                continue
            for call in calls(m.node):
                if call_name(call) == "int" and call.args and any(isinstance(x, ast.BinOp) and isinstance(x.op, ast.Div) for x in ast.walk(call.args[0])):
                    chk.ob("scaled-value-is-rounded-not-truncated", m.site(call), False, f"{c.name}.{mname}: `{ast.unparse(call)}` truncates toward zero; a decoded value such as 0.29 (= 29 x 0.01) re-encodes as 28", key=f"trunc|{c.name}.{mname}")
    chk.rule("E2 bit-provenance evaluation decode -> encode -> decode per distinct codec, every path; structural equality of the two decoded values; truncation lint")
    chk.assume("float-valued codecs are not decided here (listed in evidence); DPTArray / DPTBinary payloads are octet tuples / 6-bit values (C11)")
