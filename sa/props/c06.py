"""C06 — encoding an application PDU never silently changes a field.

E2 bit-provenance, R∘W: for every service class a *symbolic object* is built from the field annotations (an int field
is an unbounded two's-complement integer f, a bytes field a blob of unknown length, bool one bit, addresses 16 bits,
Optional / union fields one variant each); `to_knx` is evaluated on it — guards (`if not 0 <= self.x <= N: raise`),
`struct.pack` codes, `bytes([..])`, `to_bytes` record the range outside of which the encoder *refuses* — and the
octets it produces are fed to `from_knx`.  Obligations on every non-refusing path:
  * the decoder accepts what the encoder produced;
  * every int field comes back as exactly the bits f[0..w) where w is the width the encoder enforced (and the encoder
    enforced one: non-negative, bounded) — so no bit is truncated, wrapped into a neighbour or masked away;
  * bytes fields come back as the same octet string (no padding / truncation), other fields as the same value.
"""

from __future__ import annotations

import ast
from typing import Any

from ..loader import AnalysisError, EnumMember, Repo
from ..report import Check
from ..sereval import BV, INF, TOP, AbstractRaise, Blob, Bytes, EnumV, Lin, ListV, Obj, Run, SerEval, Src, Unsupported, _FieldRef
from .apci_common import M, class_fields, field_variants, is_stub, service_classes, symbolic_object, encoders_return_fresh_buffers, payload_bits_never_form_another_service_code


def compare_field(ev: SerEval, run: Run, fq: str, orig: Any, got: Any, problems: list[str]) -> None:
    if isinstance(orig, _FieldRef):
        lo, hi = run.field_range.get(orig.name, (-INF, INF))
        z = run.zero_from.get(orig.name, INF)
        nonneg = lo >= 0 or orig.name in run.nonneg
        w = min(int(hi).bit_length() if hi != INF else INF, z)
        if w == INF or not nonneg:
            got_s = repr(got)
            problems.append(f"`{fq}` is not range-checked by the encoder ({'no upper bound' if w == INF else 'negative values not refused'}): a value that does not fit is altered silently (decoder returns {got_s[:80]})")
            return
        want = BV(tuple(Src("f", orig.name, i) for i in range(int(w))))
        g = ev.to_bv(got, run) if isinstance(got, (BV, int, EnumV, Lin)) and not isinstance(got, bool) else got
        if not isinstance(g, BV) or g != want:
            problems.append(f"`{fq}` (accepted range 0..{hi if hi != INF else f'2^{z}-1'}) decodes as {got!r}, not as the same {w}-bit value")
        return
    if isinstance(orig, Obj):
        if not isinstance(got, Obj) or got.cls != orig.cls:
            problems.append(f"`{fq}` decodes as {got!r} instead of a {orig.cls}")
            return
        for k, v in orig.fields.items():
            compare_field(ev, run, f"{fq}.{k}", v, got.fields.get(k), problems)
        return
    if isinstance(orig, Bytes):
        a = ev.norm_bytes(orig, run)
        b = ev.norm_bytes(got, run) if isinstance(got, Bytes) else got
        if not isinstance(b, Bytes) or [repr(p) for p in a.parts] != [repr(p) for p in b.parts]:
            problems.append(f"`{fq}` (octets {a!r}) decodes as {b!r}")
        return
    if isinstance(orig, ListV):
        ok = isinstance(got, ListV) and got.elem.split(".")[-1] == orig.elem.split(".")[-1] and got.stride == orig.stride and repr(ev.norm_bytes(got.blob, run)) == repr(ev.norm_bytes(orig.blob, run))
        if not ok:
            problems.append(f"`{fq}` (list over {orig.blob!r}) decodes as {got!r}")
        return
    if isinstance(orig, EnumV):
        if not isinstance(got, EnumV) or got.enum != orig.enum or got.value != orig.value:
            problems.append(f"`{fq}` decodes as {got!r} instead of {orig!r}")
        return
    if isinstance(orig, BV):
        g = ev.to_bv(got, run) if isinstance(got, (BV, int)) else got
        if g != orig:
            problems.append(f"`{fq}` decodes as {got!r} instead of {orig!r}")
        return
    if orig is None:
        if got is not None:
            problems.append(f"`{fq}` (None) decodes as {got!r}")
        return
    raise Unsupported(f"comparison of {orig!r}")


def run(chk: Check, repo: Repo) -> None:
    ev = SerEval(repo)
    classes = service_classes(repo)
    stale = encoders_return_fresh_buffers(chk, repo, classes)
    payload_bits_never_form_another_service_code(chk, repo)
    chk.floor("APCI service classes", len(classes), 80)
    n_paths = n_cls = n_refuse = 0
    for c in classes:
        if c.name in stale:
            continue  # reported by encoder-returns-a-buffer-of-its-own
        if is_stub(repo, c):
            continue
        fk, tk = c.methods["from_knx"], c.methods["to_knx"]
        chk.unit(tk)
        n_cls += 1
        for variant in field_variants(repo, c, ev):
            vdesc = ", ".join(f"{k}={v}" for k, v in sorted(variant.items())) or "all fields set"

            def fn(run_: Run, c=c, variant=variant):
                o = symbolic_object(ev, repo, run_, c, variant)
                run_.__dict__["orig"] = o
                try:
                    out = ev.call_function(tk, [], {}, run_, self_val=o, ctx=c)
                except AbstractRaise as r:
                    return ("refused", r.exc)
                run_.__dict__["encoded"] = out
                o2 = ev.call_function(fk, [out], {}, run_, ctx=c)
                return ("decoded", o2)

            try:
                paths = ev.paths(fn, max_paths=4000)
            except Unsupported as u:
                raise AnalysisError(f"{c.name}: codec outside the analysed fragment: {u}") from u
            for outcome, val, r in paths:
                n_paths += 1
                lens = {k: v for k, v in r.cons.iv.items() if k.startswith(("len:", "n:"))}
                ldesc = ", ".join(f"{k}={v[0]}..{'' if v[1] == INF else v[1]}" for k, v in sorted(lens.items()))
                desc = f"{c.name} [{vdesc}{'; ' + ldesc if ldesc else ''}]"
                if outcome == "return" and val[0] == "refused":
                    n_refuse += 1
                    continue
                if outcome != "return":
                    enc = r.__dict__.get("encoded")
                    chk.ob("decoder-accepts-what-the-encoder-produced", fk.site(), False, f"{desc}: to_knx produced {enc!r} but from_knx rejects it with {outcome[6:]} ({val})", key=f"reject|{c.name}|{vdesc}|{outcome[6:]}|{ldesc}")
                    continue
                o, o2 = r.__dict__["orig"], val[1]
                problems: list[str] = []
                lossy = [n for n in r.notes if n.startswith("LOSSY")]
                if not isinstance(o2, Obj) or o2.cls != c.name:
                    problems.append(f"decodes as {o2!r}")
                else:
                    for name, ann, _ in class_fields(repo, c):
                        compare_field(ev, r, name, o.fields[name], o2.fields.get(name), problems)
                chk.ob("field-survives-encoding-or-is-refused", tk.site(), not problems and not lossy, f"{desc}: " + ("every field is decoded back unchanged over its whole accepted range" if not problems and not lossy else "; ".join(lossy + problems)), key=f"r∘w|{c.name}|{vdesc}|{ldesc}" + ("" if not problems and not lossy else "|" + ";".join(sorted(p.split('`')[1] if '`' in p else p[:40] for p in lossy + problems))))
    chk.count("service classes analysed", n_cls)
    chk.count("writer paths composed with the reader", n_paths)
    chk.count("refusing writer paths", n_refuse)
    chk.floor("service classes analysed", n_cls, 80)
    chk.rule("E2 bit-provenance evaluation of to_knx on symbolic objects (unbounded ints refined by guards and by the ranges struct/bytes/to_bytes enforce) composed with from_knx; field-by-field comparison of provenance")
    chk.assume("struct.pack raises struct.error for an integer outside its code's range and pads/truncates 's' fields silently; bytes([...]) / int.to_bytes raise for values outside their width (CPython semantics)")
