"""C32 — device management requests get only their own answer.

 (a) _cemi_received table over {parse outcome} x {message code} x {pending future state} x {indication
     callback}: property indications go to the indication callback only (isolated by try/except), every
     other parsed frame completes the pending future iff it is pending; nothing escapes.
 (b) request(): one outstanding request (the send happens only inside `async with _request_lock`, the
     pending slot is written only there and cleared in `finally`); abstract path enumeration over
     {matches None/True/False-then-True} x {answer arrives / timeout / cancelled by _stop / task cancel}:
     only a frame accepted by `matches` is returned, a rejected one installs a fresh future inside the same
     timeout, closing the connection fails the request with CommunicationError.
 (c) read_property / write_property pass a `matches` that tests the response class paired with the request
     code and _same_property (object type, instance, property id).
 (d) _stop() cancels a pending, not-done future; disconnect() clears the channel before the exchange.
 (e) UDP _send_request: at most 1 + DEVICE_CONFIGURATION_REQUEST_REPETITIONS (=3) requests, all with the
     unchanged counter; the counter advances once, by the modular successor, exactly when the request was
     accepted; otherwise the connection is closed and CommunicationError raised.
 (f) acknowledgement correlation of DeviceConfiguration (same rule as C24).
"""

from __future__ import annotations

import ast
from itertools import product

from ..absmachine import AbsMachine, Obj, Outcome, Raise, SymInt, UNKNOWN, class_isinstance
from ..astx import attr_writes, call_name, call_sites, calls, enclosing_with_items, method_name, walk_local
from ..cfg import CFG
from ..exctable import ExcTable
from ..explore import Explorer, const_range_bound
from ..loader import NOFOLD, AnalysisError, EnumMember, Repo
from ..report import Check, canon

M = "xknx.io.device_management_connection"
CODE = "xknx.cemi.const:CEMIMessageCode"


def enum_hook(repo, fi):
    def hook(e, env):
        if isinstance(e, ast.Attribute):
            v = repo.fold(e, fi.module, fi.cls)
            if isinstance(v, EnumMember):
                return v
        if isinstance(e, ast.Name):
            v = repo.module_const(fi.module.name, e.id)
            if v is not NOFOLD and isinstance(v, (int, float)):
                return v
        return UNKNOWN
    return hook


def cemi_received(chk: Check, repo: Repo) -> None:
    """Decision table of the receive callback.  The request's matcher is consulted here (slot `_matches`, written by
    request() next to `_pending`): only a frame it accepts - or any frame when the request has none - completes the
    pending future; a rejected frame leaves the future pending for the answer behind it; a matcher that raises fails the
    request instead of the transport's callback."""
    fi = repo.func(M, "_DeviceManagementConnection._cemi_received")
    chk.unit(fi)
    cfg = CFG(fi.node)
    exc = ExcTable(repo)
    for parse, code, pend, cb, mt in product(("ok", "CouldNotParseCEMI", "UnsupportedCEMIMessage", "ValueError", "IndexError"), ("M_PROP_INFO_IND", "M_PROP_READ_CON", "M_PROP_WRITE_CON"), ("none", "pending", "done"), ("none", "ok", "raises"), ("none", "accepts", "rejects", "raises")):
        if parse != "ok" and (code != "M_PROP_READ_CON" or cb != "none" or mt != "none"):
            continue
        if mt != "none" and (cb != "none" or pend == "none"):
            continue  # the matcher slot is written and cleared together with the pending slot (request scenarios)
        frame = Obj("CEMIFrame", "rx", (("code", EnumMember(CODE, code)),))
        def cm(c: ast.Call, env):
            n = call_name(c)
            if n == "CEMIFrame.from_knx":
                return [Outcome(None, frame)] if parse == "ok" else [Outcome(None, Raise(parse))]
            if n == "self.indication_callback":
                return [Outcome("INDICATION_CB", Raise("ValueError") if cb == "raises" else None)]
            if n == "self._pending.done":
                return [Outcome(None, pend == "done")]
            if n == "self._pending.set_result":
                return [Outcome(f"SET_RESULT({box['am'].ev(c.args[0], env, {})!r})", None)]
            if n == "self._pending.set_exception":
                return [Outcome("SET_EXCEPTION", None)]
            if n == "self._matches":
                arg = box["am"].ev(c.args[0], env, {}) if c.args else None
                if mt == "raises":
                    return [Outcome(f"MATCH({arg!r})", Raise("ValueError"))]
                return [Outcome(f"MATCH({arg!r})", mt == "accepts")]
            if n.startswith("logger.") or n.endswith(".hex"):
                return [Outcome(None, None)]
            return None
        box = {}
        am = AbsMachine(cfg, exc, cm, enum_hook(repo, fi))
        box["am"] = am
        env = {"self._pending": None if pend == "none" else Obj("Future", "f"), "self.indication_callback": None if cb == "none" else Obj("fn", "cb"), "self._matches": None if mt == "none" else Obj("fn", "m")}
        got = {(tuple(t for t in p.env.get("trace", ()) if not t.startswith("raise:") and not t.startswith("MATCH(")), p.end_kind) for p in Explorer(cfg, repo, am.step).run(cfg.entry, [], env)}
        asked = {t for p in Explorer(cfg, repo, am.step).run(cfg.entry, [], env) for t in p.env.get("trace", ()) if t.startswith("MATCH(")}
        if parse != "ok":
            want = {((), "exit")}
        elif code == "M_PROP_INFO_IND":
            want = {((("INDICATION_CB",) if cb != "none" else ()), "exit")}
        elif pend != "pending":
            want = {((), "exit")}
        elif mt in ("none", "accepts"):
            want = {((f"SET_RESULT({frame!r})",), "exit")}
        elif mt == "rejects":
            want = {((), "exit")}
        else:
            want = {(("SET_EXCEPTION",), "exit")}
        ok = got == want and (mt == "none" or code == "M_PROP_INFO_IND" or pend != "pending" or asked == {f"MATCH({frame!r})"})
        chk.ob("received-frame-cell", fi.site(), ok, f"parse={parse} code={code} pending={pend} indication_callback={cb} matcher={mt}: {sorted(map(str, got))} asked {sorted(asked)}; reference {sorted(map(str, want))}", key=f"rx|{parse}|{code}|{pend}|{cb}|{mt}" + ("" if ok else f"|{sorted(map(str, got))}"))


def request(chk: Check, repo: Repo) -> None:
    fi = repo.func(M, "_DeviceManagementConnection.request")
    chk.unit(fi)
    cfg = CFG(fi.node)
    exc = ExcTable(repo)
    # lexical: send inside the lock
    sends = [n for n in cfg.nodes if n.kind == "stmt" and n.ast is not None and any(call_name(c) == "self._send_request" for c in calls(n.ast))]
    chk.ob("send-under-request-lock", fi.site(), len(sends) == 1 and "self._request_lock" in enclosing_with_items(sends[0].withs), "_send_request is awaited inside `async with self._request_lock`", key="send-under-lock")
    callers = sorted({f.qualname for f, c in call_sites(repo, "_send_request") if f.module.name == M})
    chk.ob("send-callers", fi.site(), callers == ["_DeviceManagementConnection.request"], f"_send_request callers: {callers}", key="send-callers")
    for slot in ("_pending", "_matches"):
        ws = [w for w in attr_writes(repo, slot, include_mutators=False) if w.func.module.name == M]
        chk.ob("pending-slot-writers", fi.site(), sorted({w.func.qualname for w in ws}) == ["_DeviceManagementConnection.__init__", "_DeviceManagementConnection.request"], f"{slot} writers: {sorted({w.func.qualname for w in ws})}", key=f"pending-writers|{slot}")
    lock = [w for w in attr_writes(repo, "_request_lock", include_mutators=False) if w.func.module.name == M]
    chk.ob("request-lock-slot", fi.site(), len(lock) == 1 and lock[0].func.name == "__init__" and call_name(lock[0].stmt.value) == "asyncio.Lock", "one asyncio.Lock created in __init__", key="request-lock-slot")
    # request() itself: from the hand-over to the transport until it leaves, the pending future and the request's matcher
    # are both in their slots (so the receive callback can tell the answer from a stale frame also during the UDP
    # acknowledgement wait); it returns what the future was completed with; both slots are empty again on every way out
    scenarios = {
        "no matcher, answer": (None, ["answer"]),
        "matcher, answer": ("fn", ["answer"]),
        "timeout": ("fn", ["timeout"]),
        "matcher raised in the receive callback": ("fn", ["matcher-raised"]),
        "closed by _stop (future cancelled, channel None)": ("fn", ["cancel:closed"]),
        "task cancelled (channel still open)": ("fn", ["cancel:task"]),
        "send fails": ("fn", ["send:fail"]),
        "no connection": ("fn", ["nochannel"]),
    }
    for label, (matcher, script) in scenarios.items():
        def cm(c: ast.Call, env):
            n = call_name(c)
            if n == "self._send_request":
                ev = f"SEND[{env.get('self._pending')!r},{env.get('self._matches')!r}]"
                return [Outcome(ev + ":fail", Raise("CommunicationError"))] if script[0] == "send:fail" else [Outcome(ev, None)]
            if n.endswith("create_future"):
                k = env.get("#futures", 0)
                env["#futures"] = k + 1
                return [Outcome(None, Obj("Future", f"f{k}"))]
            if n == "matches":
                return [Outcome("MATCH-IN-REQUEST", True)]
            if isinstance(c.func, ast.Attribute) and c.func.attr == "cancelled":
                rv = am.ev(c.func.value, env, {})
                if isinstance(rv, Obj) and rv.cls == "Future":
                    # cancelled is the future that was being awaited when _stop() / the task cancellation struck — no other
                    return [Outcome(None, rv == env.get("#cancelled"))]
            if n.startswith("logger.") or n.endswith("get_running_loop"):
                return [Outcome(None, Obj("x", "x"))]
            return None
        am = AbsMachine(cfg, exc, cm, enum_hook(repo, fi))
        base = am.step

        def step(node, env):
            a = node.ast
            aw = a.value if node.kind == "stmt" and isinstance(a, (ast.Assign, ast.Return, ast.Expr)) and isinstance(getattr(a, "value", None), ast.Await) else None
            awaited = am.ev(aw.value, env, {}) if aw is not None else None
            if isinstance(awaited, Obj) and awaited.cls == "Future":  # the wait for the answer, however the code refers to the future
                i = env.get("#answers", 0)
                ev = script[i] if i < len(script) else "timeout"
                e2 = dict(env); e2["#answers"] = i + 1
                tr = tuple(env.get("trace", ()))
                if ev.startswith("answer"):
                    e2["trace"] = tr + (f"AWAIT({awaited!r})[{env.get('self._pending')!r},{env.get('self._matches')!r}]",)
                    ans = Obj("CEMIFrame", f"answer{i}")
                    if isinstance(a, ast.Return):
                        e2["#ret"] = ans
                        return [("return", e2)]
                    if isinstance(a, ast.Assign):
                        e2[ast.unparse(a.targets[0])] = ans
                    return [("next", e2)]
                excn = {"timeout": "TimeoutError", "matcher-raised": "ValueError"}.get(ev, "CancelledError")
                if ev.startswith("cancel"):
                    e2["#cancelled"] = awaited
                    if ev == "cancel:closed":
                        e2["self.communication_channel"] = None  # _stop() clears the channel before it cancels the pending future
                e2["trace"] = tr + (f"AWAIT({awaited!r}):{excn}",)
                e2["#raised"] = excn
                return [(f"goto:{am._exc_target(node, excn)}", e2)]
            return base(node, env)

        mobj = Obj("fn", "m") if matcher else None
        env = {"matches": mobj, "self.communication_channel": None if script[0] == "nochannel" else 5}
        paths = Explorer(cfg, repo, step, max_steps=300).run(cfg.entry, [], env)
        res = set()
        for p in paths:
            tr = tuple(t for t in p.env.get("trace", ()) if not t.startswith("raise:"))
            out = repr(p.env.get("#ret")) if p.end_kind == "exit" else f"raise {p.env.get('#raised')}"
            res.add((tr, out, repr(p.env.get("self._pending")), repr(p.env.get("self._matches"))))
        F0 = repr(Obj("Future", "f0"))
        A0 = repr(Obj("CEMIFrame", "answer0"))
        S = f"SEND[{F0},{mobj!r}]"
        W = f"AWAIT({F0})[{F0},{mobj!r}]"
        want = {
            "no matcher, answer": {((S, W), A0, "None", "None")},
            "matcher, answer": {((S, W), A0, "None", "None")},
            "timeout": {((S, f"AWAIT({F0}):TimeoutError"), "raise CommunicationError", "None", "None")},
            "matcher raised in the receive callback": {((S, f"AWAIT({F0}):ValueError"), "raise ValueError", "None", "None")},
            "closed by _stop (future cancelled, channel None)": {((S, f"AWAIT({F0}):CancelledError"), "raise CommunicationError", "None", "None")},
            "task cancelled (channel still open)": {((S, f"AWAIT({F0}):CancelledError"), "raise CancelledError", "None", "None")},
            "send fails": {((S + ":fail",), "raise CommunicationError", "None", "None")},
            "no connection": {((), "raise CommunicationError", repr(None), repr(None))},
        }[label]
        chk.ob("request-scenario", fi.site(), res == want, f"{label}: (events, outcome, _pending, _matches) = {sorted(map(str, res))}; reference {sorted(map(str, want))}", key=f"req|{label}" + ("" if res == want else f"|{sorted(map(str, res))}"))
    # every future awaited is the one stored in the pending slot
    # the local(s) holding the awaited future: names assigned from create_future()
    fut_names = {(n.ast.targets[0] if isinstance(n.ast, ast.Assign) else n.ast.target).id for n in cfg.nodes if isinstance(n.ast, (ast.Assign, ast.AnnAssign)) and n.ast.value is not None and isinstance(n.ast.targets[0] if isinstance(n.ast, ast.Assign) else n.ast.target, ast.Name) and isinstance(n.ast.value, ast.Call) and call_name(n.ast.value).endswith("create_future")}
    assigns = [n for n in cfg.nodes if isinstance(n.ast, ast.Assign) and ast.unparse(n.ast.targets[0]) == "self._pending" and isinstance(n.ast.value, ast.Name) and n.ast.value.id in fut_names]
    news = [n for n in cfg.nodes if isinstance(n.ast, (ast.Assign, ast.AnnAssign)) and isinstance(n.ast.targets[0] if isinstance(n.ast, ast.Assign) else n.ast.target, ast.Name) and (n.ast.targets[0] if isinstance(n.ast, ast.Assign) else n.ast.target).id in fut_names]
    chk.ob("awaited-future-is-the-slot", fi.site(), len(assigns) == len(news) >= 1 and len(fut_names) == 1, f"every new future is stored into self._pending ({len(news)} creations, {len(assigns)} stores)", key="future-stored")
    tm = [w for n in cfg.nodes if n.kind == "stmt" and isinstance(n.ast, (ast.Assign, ast.Return, ast.Expr)) and isinstance(getattr(n.ast, "value", None), ast.Await) and isinstance(n.ast.value.value, ast.Name) and n.ast.value.value.id in fut_names for w in enclosing_with_items(n.withs)]
    chk.ob("answer-deadline", fi.site(), "asyncio.timeout(DEVICE_CONFIGURATION_REQUEST_TIMEOUT)" in tm, "waiting for the answer is bounded by asyncio.timeout(DEVICE_CONFIGURATION_REQUEST_TIMEOUT)", key="answer-deadline")


def matchers(chk: Check, repo: Repo) -> None:
    pairs = {"read_property": ("M_PROP_READ_REQ", "CEMIMPropReadRequest", "CEMIMPropReadResponse"), "write_property": ("M_PROP_WRITE_REQ", "CEMIMPropWriteRequest", "CEMIMPropWriteResponse")}
    for name, (code, reqcls, respcls) in pairs.items():
        fi = repo.func(M, f"_DeviceManagementConnection.{name}")
        chk.unit(fi)
        rq = [c for c in calls(fi.node) if call_name(c) == "self.request"]
        ok = len(rq) == 1
        detail = "single self.request(...) call expected"
        if ok:
            kw = {k.arg: k.value for k in rq[0].keywords}
            frame = rq[0].args[0] if rq[0].args else kw.get("cemi")
            fkw = {k.arg: ast.unparse(k.value) for k in frame.keywords} if isinstance(frame, ast.Call) else {}
            lam = kw.get("matches")
            body = ast.unparse(lam.body) if isinstance(lam, ast.Lambda) else ""
            arg = lam.args.args[0].arg if isinstance(lam, ast.Lambda) else "frame"
            # the property description the request carries is the very object (same local) the matcher compares with
            data_call = next((k.value for k in frame.keywords if k.arg == "data"), None) if isinstance(frame, ast.Call) else None
            pinfo = next((k.value.id for k in data_call.keywords if k.arg == "property_info" and isinstance(k.value, ast.Name)), None) if isinstance(data_call, ast.Call) and call_name(data_call) == reqcls else None
            want_body = f"isinstance({arg}.data, {respcls}) and _same_property({arg}.data.property_info, {pinfo})"
            ok = fkw.get("code", "").endswith(code) and pinfo is not None and body == want_body
            detail = f"request code {fkw.get('code')}, data {fkw.get('data', '')[:40]}..., matches = `{body}` (required `{want_body}`)"
        chk.ob("matcher-pairs-answer-with-request", fi.site(), ok, detail, key=f"matcher|{name}")
    sp = repo.func(M, "_same_property")
    chk.unit(sp)
    rets = [n for n in walk_local(sp.node) if isinstance(n, ast.Return)]
    a, b = [x.arg for x in sp.node.args.args][:2]
    conj = set()
    if len(rets) == 1 and isinstance(rets[0].value, ast.BoolOp) and isinstance(rets[0].value.op, ast.And):
        for v in rets[0].value.values:
            if isinstance(v, ast.Compare) and len(v.ops) == 1 and isinstance(v.ops[0], (ast.Eq, ast.Is)):
                conj.add(frozenset((ast.unparse(v.left), ast.unparse(v.comparators[0]))))
    need = {frozenset((f"{a}.{f}", f"{b}.{f}")) for f in ("object_type", "object_instance", "property_id")}
    chk.ob("same-property-fields", sp.site(), need <= conj, f"_same_property compares {sorted(sorted(x) for x in conj)}; required object_type, object_instance, property_id", key="same-property")


def stop_and_udp(chk: Check, repo: Repo) -> None:
    exc = ExcTable(repo)
    st = repo.func(M, "_DeviceManagementConnection._stop")
    chk.unit(st)
    cfg = CFG(st.node)
    for pend in ("none", "pending", "done"):
        def cm(c, env):
            n = call_name(c)
            if n == "self._pending.done":
                return [Outcome(None, pend == "done")]
            if n == "self._pending.cancel":
                return [Outcome("CANCEL_PENDING", None)]
            if n in ("self._heartbeat.stop", "self._stop_receiving", "self.transport.unregister_callback"):
                return [Outcome(None, None)]
            return None
        am = AbsMachine(cfg, exc, cm)
        got = {tuple(p.env.get("trace", ())) for p in Explorer(cfg, repo, am.step).run(cfg.entry, [], {"self._pending": None if pend == "none" else Obj("Future", "f"), "self._disconnect_callback": None})}
        want = {("CANCEL_PENDING",)} if pend == "pending" else {()}
        chk.ob("stop-fails-pending-request", st.site(), got == want, f"_stop with pending={pend}: {sorted(got)}; reference {sorted(want)}", key=f"stop|{pend}")
    for qual in ("_DeviceManagementConnection.disconnect", "_DeviceManagementConnection._connection_lost"):
        f = repo.func(M, qual)
        chk.unit(f)
        c2 = CFG(f.node)
        stop = [n for n in c2.nodes if n.kind == "stmt" and n.ast is not None and any(call_name(c) == "self._stop" for c in calls(n.ast))]
        clr = [n for n in c2.nodes if isinstance(n.ast, ast.Assign) and ast.unparse(n.ast.targets[0]) == "self.communication_channel" and ast.unparse(n.ast.value) == "None"]
        aw = [n for n in c2.nodes if n.ast is not None and n.kind == "stmt" and any(isinstance(x, ast.Await) for x in ast.walk(n.ast))]
        ok = len(stop) == 1 and len(clr) == 1 and all(c2.dominates(clr[0].id, a.id) and c2.dominates(stop[0].id, a.id) for a in aw)
        chk.ob("close-clears-channel-before-yielding", f.site(), ok, f"{qual.split('.')[1]}: _stop() and `communication_channel = None` both precede every await (the failed request sees the connection closed)", key=f"close|{qual}")
    # UDP repetition
    f = repo.func(M, "UDPDeviceManagementConnection._send_request")
    chk.unit(f)
    cfgu = CFG(f.node)
    reps = repo.module_const(M, "DEVICE_CONFIGURATION_REQUEST_REPETITIONS")
    chk.ob("repetition-constant", f.site(), reps == 3, f"DEVICE_CONFIGURATION_REQUEST_REPETITIONS folds to {reps!r}", key="repetitions")
    box = {}
    def cmu(c, env):
        n = call_name(c)
        if isinstance(c.func, ast.Attribute) and c.func.attr == "request":
            rv = box["am"].ev(c.func.value, env, {})  # the request object, whatever the local is called
            if isinstance(rv, Obj) and rv.tag == "DeviceConfiguration":
                return [Outcome("REQ:ack", None), Outcome("REQ:noack", Raise("RequestResponseError"))]
        if n == "DeviceConfigurationRequest":
            kw = {k.arg: box["am"].ev(k.value, env, {}) for k in c.keywords}
            return [Outcome(f"BUILD(seq={kw.get('sequence_counter')!r})", Obj("DeviceConfigurationRequest", "r"))]
        if n == "DeviceConfiguration" or n == "cemi.to_knx":
            return [Outcome(None, Obj("x", n))]
        if n == "self.disconnect":
            return [Outcome("DISCONNECT", None)]
        if n == "self._pending.done":
            return [Outcome(None, env.get("#answered", False))]
        if n == "self._pending.cancelled":
            return [Outcome(None, False)]
        if n.startswith("logger."):
            return [Outcome(None, None)]
        return None
    for answered in (False, True):
        am = AbsMachine(cfgu, exc, cmu, enum_hook(repo, f))
        box["am"] = am
        env = {"self.communication_channel": 5, "self.sequence_number": SymInt("s", 0, 256), "self._pending": Obj("Future", "f"), "#answered": answered}
        paths = Explorer(cfgu, repo, am.step, const_range_bound(repo, f.module, f.cls), max_steps=600).run(cfgu.entry, [], env)
        problems = []
        n_paths = 0
        for p in paths:
            n_paths += 1
            tr = tuple(t for t in p.env.get("trace", ()) if not t.startswith("raise:"))
            reqs = [t for t in tr if t.startswith("REQ:")]
            builds = [t for t in tr if t.startswith("BUILD(")]
            seq_after = p.env.get("self.sequence_number")
            S0, S1 = SymInt("s", 0, 256), SymInt("s", 1, 256)
            if any(b != f"BUILD(seq={S0!r})" for b in builds):
                problems.append(f"a repetition carries a different counter: {builds}")
            if len(reqs) > reps + 1:
                problems.append(f"{len(reqs)} requests (> 1 + {reps})")
            accepted = reqs and (reqs[-1] == "REQ:ack" or answered)
            if p.end_kind == "exit":
                if not accepted or seq_after != S1:
                    problems.append(f"returns normally with trace {tr} and counter {seq_after!r}")
                if accepted and answered and reqs[-1] == "REQ:noack" and len(reqs) != 1:
                    pass
            else:
                if p.env.get("#raised") != "CommunicationError" or "DISCONNECT" not in tr or seq_after != S0 or len(reqs) != reps + 1:
                    problems.append(f"failure path: trace {tr}, raised {p.env.get('#raised')}, counter {seq_after!r}")
        chk.ob("udp-repetition", f.site(), not problems and n_paths > 0, f"answer_already_arrived={answered}: {n_paths} paths; " + ("; ".join(sorted(set(problems))[:3]) if problems else "<= 4 requests with the unchanged counter, counter +1 (mod 256) exactly on acceptance, otherwise disconnect + CommunicationError"), key=f"udp|{answered}")


    # the connection is closed (server DisconnectRequest / lost session: channel cleared, pending future cancelled) while
    # the first acknowledgement is awaited: the request fails without a repetition on the closed channel
    def cmu_closed(c, env):
        if isinstance(c.func, ast.Attribute) and c.func.attr == "request":
            rv = box["am"].ev(c.func.value, env, {})
            if isinstance(rv, Obj) and rv.tag == "DeviceConfiguration":
                env["self.communication_channel"] = None
                env["#closed"] = True
                return [Outcome("REQ:noack+closed", Raise("RequestResponseError"))]
        n = call_name(c)
        if n == "self._pending.done" or n == "self._pending.cancelled":
            return [Outcome(None, bool(env.get("#closed")))]
        return cmu(c, env)
    am = AbsMachine(cfgu, exc, cmu_closed, enum_hook(repo, f))
    box["am"] = am
    env = {"self.communication_channel": 5, "self.sequence_number": SymInt("s", 0, 256), "self._pending": Obj("Future", "f"), "#answered": False}
    paths = Explorer(cfgu, repo, am.step, const_range_bound(repo, f.module, f.cls), max_steps=600).run(cfgu.entry, [], env)
    got = {(tuple(t for t in p.env.get("trace", ()) if t.startswith(("REQ:", "DISCONNECT"))), p.end_kind if p.end_kind == "exit" else f"raise {p.env.get('#raised')}", repr(p.env.get("self.sequence_number"))) for p in paths}
    want = {(("REQ:noack+closed",), "raise CommunicationError", repr(SymInt("s", 0, 256)))}
    chk.ob("no-repetition-on-a-closed-connection", f.site(), got == want, f"connection closed during the first acknowledgement wait: {sorted(map(str, got))}; reference {sorted(map(str, want))}", key="udp|closed-during-ack-wait" + ("" if got == want else f"|{sorted(map(str, got))[:2]}"))


def ack_correlation(chk: Check, repo: Repo) -> None:
    from .c24 import _accept_facts
    cls = repo.cls("xknx.io.request_response.device_configuration", "DeviceConfiguration")
    facts, chain, setnode, owner = _accept_facts(repo, cls, chk)
    eqs = []
    for text, val in facts:
        e = ast.parse(text, mode="eval").body
        if isinstance(e, ast.Compare) and len(e.ops) == 1 and ((isinstance(e.ops[0], ast.Eq) and val) or (isinstance(e.ops[0], ast.NotEq) and not val)):
            eqs.append((ast.unparse(e.left), ast.unparse(e.comparators[0])))
    for field in ("communication_channel_id", "sequence_counter"):
        ok = any(a.endswith("." + field) and b.endswith("." + field) and (("self.device_configuration_request" in a) != ("self.device_configuration_request" in b)) for a, b in eqs)
        chk.ob("ack-correlation", owner.site(setnode.ast), ok, f"DeviceConfiguration: accepting an acknowledgement is control-dependent on `<ack>.{field} == self.device_configuration_request.{field}`; equalities on the path: {sorted(eqs)}", key=f"ack-correlation|DeviceConfiguration|{field}")


def close_interrupts_the_ack_wait(chk: Check, repo: Repo) -> None:
    """"closing the connection fails a pending request promptly": over UDP a request first awaits its acknowledgement
    (up to the 10 s timeout) - not the answer future `_stop()` cancels.  The object awaited there has to be reachable
    for the close path: stored in an attribute before the await, aborted by what `_stop()` runs, and abort() has to
    release exactly the event request() waits on."""
    DM = "xknx.io.device_management_connection"
    sr = repo.func(DM, "UDPDeviceManagementConnection._send_request")
    chk.unit(sr)
    cfg = CFG(sr.node)
    waits = [n for n in cfg.nodes if n.kind == "stmt" and n.ast is not None and any(isinstance(x, ast.Await) and isinstance(x.value, ast.Call) and isinstance(x.value.func, ast.Attribute) and x.value.func.attr == "request" and isinstance(x.value.func.value, ast.Name) for x in ast.walk(n.ast))]
    if len(waits) != 1:
        raise AnalysisError("UDP _send_request: expected one awaited <local>.request()")
    w = waits[0]
    local = next(x.value.func.value.id for x in ast.walk(w.ast) if isinstance(x, ast.Await) and isinstance(x.value, ast.Call) and isinstance(x.value.func, ast.Attribute) and x.value.func.attr == "request")
    stores = [n for n in cfg.nodes if n.kind == "stmt" and isinstance(n.ast, ast.Assign) and isinstance(n.ast.value, ast.Name) and n.ast.value.id == local and len(n.ast.targets) == 1 and isinstance(n.ast.targets[0], ast.Attribute) and ast.unparse(n.ast.targets[0].value) == "self" and cfg.dominates(n.id, w.id)]
    attrs = {n.ast.targets[0].attr for n in stores}
    # what _stop() runs on a UDP connection
    ucls = repo.cls(DM, "UDPDeviceManagementConnection")
    stop = repo.lookup_method(ucls, "_stop")
    seen, work, aborted = set(), [stop], set()
    while work:
        f = work.pop()
        if f is None or f.ref in seen:
            continue
        seen.add(f.ref)
        for c in calls(f.node):
            n = call_name(c)
            if n.startswith("self.") and n.endswith(".abort") and n.count(".") == 2:
                aborted.add(n.split(".")[1])
            elif n.startswith("self.") and n.count(".") == 1:
                work.append(repo.lookup_method(ucls, n[5:]))
    ok = bool(attrs & aborted)
    chk.ob("close-interrupts-the-acknowledgement-wait", sr.site(w.ast), ok, f"UDP _send_request awaits `{local}.request()`; stored for the close path in {sorted(attrs) or 'no attribute'}; _stop() (via {sorted(x.split(':')[-1] for x in seen)}) aborts {sorted(aborted) or 'nothing'}" + ("" if ok else " - a request waiting for its acknowledgement outlives the connection for up to the acknowledgement timeout"), key="close|ack-wait")
    ab = repo.func("xknx.io.request_response.request_response", "RequestResponse.abort") if repo.has_func("xknx.io.request_response.request_response", "RequestResponse.abort") else None
    if ok:
        rq = repo.func("xknx.io.request_response.request_response", "RequestResponse.request")
        waited = {ast.unparse(x.value.func.value) for x in ast.walk(rq.node) if isinstance(x, ast.Await) and isinstance(x.value, ast.Call) and isinstance(x.value.func, ast.Attribute) and x.value.func.attr == "wait"}
        sets = {ast.unparse(c.func.value) for c in calls(ab.node) if isinstance(c.func, ast.Attribute) and c.func.attr == "set"} if ab is not None else set()
        chk.ob("close-interrupts-the-acknowledgement-wait", (ab or rq).site(), bool(waited) and waited <= sets, f"RequestResponse.abort() sets {sorted(sets)}; request() waits on {sorted(waited)}", key="close|abort-releases-the-wait")


def design_gaps(chk: Check, repo: Repo) -> None:
    """Two consequences of handing answers over through a one-shot future that is filled before the request's matcher
    is consulted (recorded as known findings; the rules name the constructs, so a different violation still shows)."""
    DM = "xknx.io.device_management_connection"
    cr = repo.func(DM, "_DeviceManagementConnection._cemi_received")
    chk.unit(cr)
    cfg = CFG(cr.node)
    sets = [n for n in cfg.nodes if n.kind == "stmt" and n.ast is not None and any(call_name(c) == "self._pending.set_result" for c in calls(n.ast))]
    keeps = [n for n in cfg.nodes if n.kind == "stmt" and n.ast is not None and any(isinstance(c.func, ast.Attribute) and c.func.attr in ("append", "put_nowait", "appendleft") for c in calls(n.ast))]
    # (a) a frame that arrives while the previous one has not been taken by the request task yet
    # the future is completed only under the request's matcher: where set_result runs, a fact holds whose expression -
    # locals resolved through their reaching definitions - calls the matcher slot with the received frame
    mf = cfg.must_facts()
    def consults_matcher(n) -> bool:
        for t, v in mf[n.id]:
            if not v:
                continue
            try:
                e = cfg.symbolic(n.id, ast.parse(t, mode="eval").body)
            except SyntaxError:
                continue
            if any(isinstance(c, ast.Call) and call_name(c) == "self._matches" for c in ast.walk(e)):
                return True
        return False
    matcher_first = bool(sets) and all(consults_matcher(n) for n in sets)
    chk.ob("answers-arriving-back-to-back-are-all-seen", cr.site(), bool(keeps) or not sets or matcher_first, "_cemi_received hands a frame over by completing the one-shot future `_pending`; " + ("frames arriving before the request task installs the next future are kept" if keeps else "only a frame the request's matcher accepts completes it - a stale frame leaves it pending for the answer behind it" if matcher_first else "a frame arriving before the request task has run again finds the future done and is dropped as unexpected - the matching answer behind a stale one in the same TCP segment is lost"), key="cemi-received|frame-dropped-between-answers")
    # (b) the acknowledgement shortcut trusts that future
    sr = repo.func(DM, "UDPDeviceManagementConnection._send_request")
    uses_done = any(isinstance(n, ast.Assign) and any(isinstance(t, ast.Name) for t in n.targets) and "self._pending.done()" in ast.unparse(n.value) for n in walk_local(sr.node))
    chk.ob("acknowledgement-is-not-inferred-from-an-unmatched-answer", sr.site(), not uses_done or matcher_first, "UDP _send_request takes a completed `_pending` as proof that the server accepted the unacknowledged request" + ("; _cemi_received completes it only with frames the request's matcher accepts" if matcher_first else ", but _cemi_received completes it with any non-indication frame - the late answer to an earlier request stops the repetition of a lost one and advances the counter"), key="udp|ack-inferred-from-unmatched-answer")


def run(chk: Check, repo: Repo) -> None:
    cemi_received(chk, repo)
    request(chk, repo)
    matchers(chk, repo)
    stop_and_udp(chk, repo)
    ack_correlation(chk, repo)
    close_interrupts_the_ack_wait(chk, repo)
    design_gaps(chk, repo)
    chk.rule("E7 tables of _cemi_received and _stop; abstract path enumeration of request() over answer/timeout/cancel scripts and of the UDP repetition loop (symbolic counter); E5 censuses of the pending slot and the request lock; structural matcher pairing")
    chk.assume("asyncio.Lock serialises requests; a retry of the very same request cannot be told from its predecessor (documented in the code)")
