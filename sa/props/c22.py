"""C22 — transports deliver stream frames once, in order, without crashing.

 (a) E1 may-raise analysis, declared = nothing: TCPTransport.data_received_callback, UDPTransport.data_received_callback,
     the asyncio protocol shims that call them, KNXIPTransport.handle_knxipframe, and every function the repository
     registers on a transport (`*.register_callback(f, [service types])`, resolved per concrete class).  `assert
     isinstance(frame.body, K)` in a registered callback is discharged by the registration itself (every service
     type it is registered for dispatches to a subclass of K — C20's dispatch table).
     `transport.send(...)` is followed (it refuses on a closed transport / an uninitialised secure session: what a
     registered callback may raise is exactly what the dispatch loop contains around it); serialising the answer
     (`to_knx`, `encrypt_frame`) and the link-layer callbacks (`cemi_received_callback`, `indication_callback`) are
     not followed here — C21 / C28 (serialisation, wrapping), C18 (CEMIHandler.handle_raw_cemi raises nothing)
     and C32 (_cemi_received) carry those obligations.
 (b) definite assignment (own def-use pass over the CFG incl. exceptional edges): no local of the transport
     callbacks is read on a path that did not assign it.
 (c) no recursion on the receive path; the TCP stream loop makes progress (every iteration returns or continues
     with a strictly shorter suffix).
 (d) TCP stream decision table by abstract path enumeration of one loop iteration over
     {frame parses, incomplete, malformed} x {announced length usable, not} x {announced octets present, not}:
     a parsed frame is handed to handle_knxipframe exactly once and the loop continues with exactly the remainder
     from_knx returned; an incomplete frame is kept whole in the buffer (which the next call prepends, then
     clears); a malformed frame whose announced length is usable and present is skipped by exactly that length
     and parsing continues; nothing else writes the buffer.
 (e) UDP: one datagram gives at most one handle_knxipframe call; the parse error is handled, the echo filter only
     returns.
"""

from __future__ import annotations

import ast

from ..absmachine import AbsMachine, Obj, Outcome, Raise, Sym, UNKNOWN
from ..astx import attr_writes, call_name, calls, cmp_matches, walk_local
from ..cfg import CFG
from ..exctable import ExcTable
from ..explore import Explorer
from ..lbound import NEG, LowerBound
from ..loader import AnalysisError, ClassInfo, EnumMember, FuncInfo, Repo
from ..report import Check, canon
from .e1_common import check_entry, engine, finish

TCP = "xknx.io.transport.tcp_transport"
UDP = "xknx.io.transport.udp_transport"
IPT = "xknx.io.transport.ip_transport"


# ------------------------------------------------------------------ (b) definite assignment
def definite_assignment(chk: Check, fi: FuncInfo) -> int:
    cfg = CFG(fi.node)
    params = {a.arg for a in fi.node.args.args + fi.node.args.kwonlyargs + fi.node.args.posonlyargs}
    if fi.node.args.vararg:
        params.add(fi.node.args.vararg.arg)
    if fi.node.args.kwarg:
        params.add(fi.node.args.kwarg.arg)
    stored: set[str] = set()
    for n in walk_local(fi.node):
        if isinstance(n, ast.Name) and isinstance(n.ctx, ast.Store):
            stored.add(n.id)
        elif isinstance(n, ast.ExceptHandler) and n.name:
            stored.add(n.name)
    locals_ = stored - params

    def roots(n) -> list[ast.AST]:
        a = n.ast
        if a is None:
            return []
        if n.kind == "for":
            return [a.iter]  # type: ignore[attr-defined]
        if n.kind == "with":
            return [i.context_expr for i in a.items]  # type: ignore[attr-defined]
        if n.kind in ("stmt", "test"):
            return [a]
        return []

    def defs(n) -> set[str]:
        a = n.ast
        out: set[str] = set()
        if a is None:
            return out
        if n.kind == "handler":
            if getattr(a, "name", None):
                out.add(a.name)  # type: ignore[attr-defined]
            return out
        if n.kind == "for":
            out |= {x.id for x in ast.walk(a.target) if isinstance(x, ast.Name)}  # type: ignore[attr-defined]
            return out
        if n.kind == "with":
            for it in a.items:  # type: ignore[attr-defined]
                if it.optional_vars is not None:
                    out |= {x.id for x in ast.walk(it.optional_vars) if isinstance(x, ast.Name)}
            return out
        for r in roots(n):
            for x in walk_local(r):
                if isinstance(x, ast.Name) and isinstance(x.ctx, ast.Store):
                    out.add(x.id)
                elif isinstance(x, (ast.Import, ast.ImportFrom)):
                    out |= {(al.asname or al.name).split(".")[0] for al in x.names}
        return out

    ALL = frozenset(locals_)
    IN: dict[int, frozenset | None] = {n.id: None for n in cfg.nodes}
    IN[cfg.entry] = frozenset()
    work = [cfg.entry]
    while work:
        nid = work.pop()
        n = cfg.nodes[nid]
        cur = IN[nid]
        assert cur is not None
        d = frozenset(defs(n) & locals_)
        for t, lab in n.succ:
            # an exceptional edge leaves before the statement's own stores took effect (for/with targets: the
            # iterable / context expression raised)
            out = cur if (lab == "exc" and n.kind != "handler") else (cur | d)
            if n.kind == "for" and lab == "done":
                out = cur
            old = IN[t]
            new = out if old is None else (old & out)
            if old is None or new != old:
                IN[t] = new
                work.append(t)
    n_reads = 0
    for n in cfg.nodes:
        cur = IN.get(n.id)
        if cur is None:
            continue  # unreachable
        for r in roots(n):
            # reads inside the node; a name both read and written by the same statement (x = f(x)) needs the prior def
            for x in walk_local(r):
                if isinstance(x, ast.Name) and isinstance(x.ctx, ast.Load) and x.id in locals_:
                    # comprehension targets are scoped to the comprehension
                    n_reads += 1
                    ok = x.id in cur or _bound_in_comprehension(r, x)
                    if not ok:
                        chk.ob("local-assigned-before-use", fi.site(x), False, f"{fi.qualname}: local `{x.id}` is read in `{canon(n.ast)[:80]}` but not assigned on every path reaching it (UnboundLocalError)", key=f"unbound|{fi.qualname}|{x.id}|{canon(n.ast)[:80]}")
    chk.ob("local-assigned-before-use", fi.site(), True, f"{fi.qualname}: {n_reads} reads of {len(locals_)} locals checked over the CFG incl. exceptional edges", key=f"unbound-summary|{fi.qualname}")
    return n_reads


def _bound_in_comprehension(root: ast.AST, name: ast.Name) -> bool:
    for c in ast.walk(root):
        if isinstance(c, (ast.ListComp, ast.SetComp, ast.GeneratorExp, ast.DictComp)):
            tg = {x.id for g in c.generators for x in ast.walk(g.target) if isinstance(x, ast.Name)}
            if name.id in tg and any(x is name for x in ast.walk(c)):
                return True
        if isinstance(c, ast.Lambda):
            if name.id in {a.arg for a in c.args.args} and any(x is name for x in ast.walk(c)):
                return True
    return False


# ------------------------------------------------------------------ registered callbacks
def registered_callbacks(repo: Repo) -> list[tuple[FuncInfo, ClassInfo, list[EnumMember], FuncInfo]]:
    """(callback method, concrete receiver class, service types, registering function) for every
    `<transport>.register_callback(self.m | partial(self.m, ..), [types])` in xknx.io."""
    out = []
    for f in repo.all_functions():
        if not f.module.name.startswith("xknx.io") or f.cls is None:
            continue
        for c in calls(f.node):
            if not (isinstance(c.func, ast.Attribute) and c.func.attr == "register_callback" and c.args):
                continue
            a = c.args[0]
            if isinstance(a, ast.Call) and call_name(a) == "partial" and a.args:
                a = a.args[0]
            if not (isinstance(a, ast.Attribute) and isinstance(a.value, ast.Name) and a.value.id == "self"):
                raise AnalysisError(f"unsupported transport callback expression `{ast.unparse(a)}` in {f.qualname}")
            st_expr = c.args[1] if len(c.args) > 1 else next((k.value for k in c.keywords if k.arg == "service_types"), None)
            for k in [f.cls] + repo.subclasses(f.cls, strict=True):
                m = repo.lookup_method(k, a.attr)
                if m is None:
                    continue
                sts: list[EnumMember] = []
                if isinstance(st_expr, ast.List):
                    for el in st_expr.elts:
                        v = repo.fold(el, f.module, k)
                        if isinstance(v, EnumMember):
                            sts.append(v)
                        else:
                            # e.g. self.AWAITED_RESPONSE_CLASS.SERVICE_TYPE
                            if isinstance(el, ast.Attribute) and isinstance(el.value, ast.Attribute) and isinstance(el.value.value, ast.Name) and el.value.value.id == "self":
                                hit = repo.class_attr_expr(k, el.value.attr)
                                tgt = repo.resolve_expr(hit[1].module, hit[0]) if hit else None
                                if isinstance(tgt, ClassInfo):
                                    v2 = repo.const(tgt, el.attr)
                                    if isinstance(v2, EnumMember):
                                        sts.append(v2)
                out.append((m, k, sts, f))
    return out


def body_class_of(repo: Repo) -> dict[str, ClassInfo]:
    base = repo.cls("xknx.knxip.body", "KNXIPBody")
    out = {}
    for c in repo.subclasses(base, strict=True):
        v = repo.const(c, "SERVICE_TYPE")
        if isinstance(v, EnumMember) and "SERVICE_TYPE" in c.attrs:
            out[v.name] = c
    return out


# ------------------------------------------------------------------ reviewed-safe sites (each with a structural validator)
def wire_range_ok(repo: Repo, mr, cls: ClassInfo, attr: str, octets: int) -> bool:
    """Every writer of `cls.attr` stores a value that fits `octets` octets when the object is built the way the frame
    parser builds it (default constructor, then from_knx): __init__ stores a parameter whose default fits (or a
    constant), from_knx stores an expression whose interval fits."""
    from ..mayraise import _FuncAnalysis
    fam = {c.ref for c in repo.mro(cls)} | {c.ref for c in repo.subclasses(cls)}
    ws = [w for w in attr_writes(repo, attr, include_mutators=False) if w.func.cls is not None and w.func.cls.ref in fam and w.receiver == "self"]
    foreign = [w for w in attr_writes(repo, attr, include_mutators=False) if w.receiver != "self" and w.func.module.name.startswith("xknx.") and any(c.name == cls.name for c in [cls])
               and any(ci.ref in fam for ci in _FuncAnalysis(mr, w.func, w.func.cls).classes_of_type(_FuncAnalysis(mr, w.func, w.func.cls).typ(w.node.value)))]  # type: ignore[attr-defined]
    if not ws or foreign:
        return False
    def only_on_fresh_objects(meth: FuncInfo) -> bool:
        """every call of `meth` has a receiver that is a local freshly built by `K()` in the calling function (a frame
        under construction for sending), never an object that came from the parser"""
        n_ = 0
        for g in repo.all_functions():
            for c in calls(g.node):
                if isinstance(c.func, ast.Attribute) and c.func.attr == meth.name:
                    recv = c.func.value
                    if not isinstance(recv, ast.Name):
                        return False
                    defs_ = [s_ for s_ in walk_local(g.node) if isinstance(s_, ast.Assign) and isinstance(s_.targets[0], ast.Name) and s_.targets[0].id == recv.id]
                    if not (len(defs_) == 1 and isinstance(defs_[0].value, ast.Call) and call_name(defs_[0].value) == cls.name):
                        return False
                    n_ += 1
        return n_ > 0

    for w in ws:
        st = w.stmt
        if not isinstance(st, (ast.Assign, ast.AnnAssign)) or st.value is None:
            return False
        if w.func.name not in ("__init__", "from_knx"):
            if only_on_fresh_objects(w.func):
                continue
            return False
        an = _FuncAnalysis(mr, w.func, w.func.cls)
        v = st.value
        if w.func.name == "__init__" and isinstance(v, ast.Name) and v.id in an.params:
            a = w.func.node.args
            names = [x.arg for x in a.args]
            d = None
            if v.id in names and len(a.defaults) >= len(names) - names.index(v.id):
                d = a.defaults[names.index(v.id) - (len(names) - len(a.defaults))]
            for x, dv in zip(a.kwonlyargs, a.kw_defaults):
                if x.arg == v.id:
                    d = dv
            dv_ = repo.fold(d, w.func.module, w.func.cls) if d is not None else None
            if not (isinstance(dv_, int) and 0 <= dv_ < 256 ** octets):
                return False
            continue
        r = an.int_range(v, ())
        if r is None or r[0] < 0 or r[1] >= 256 ** octets:
            return False
    return True


def frames_come_from_the_parser(repo: Repo) -> bool:
    """Every `handle_knxipframe(X, ..)` call passes the frame KNXIPFrame.from_knx / decrypt_frame returned or the
    caller's own frame parameter; the parser builds header and bodies with their default constructors."""
    n = 0
    for f in repo.all_functions():
        for c in calls(f.node):
            if not (isinstance(c.func, ast.Attribute) and c.func.attr == "handle_knxipframe" and c.args):
                continue
            n += 1
            a = c.args[0]
            if not isinstance(a, ast.Name):
                return False
            params = {x.arg for x in f.node.args.args}
            srcs = [s for s in walk_local(f.node) if isinstance(s, ast.Assign) and any(isinstance(t, ast.Name) and t.id == a.id for tt in s.targets for t in (tt.elts if isinstance(tt, ast.Tuple) else [tt]))]
            for s_ in srcs:
                if not (isinstance(s_.value, ast.Call) and call_name(s_.value) in ("KNXIPFrame.from_knx", "self.decrypt_frame")):
                    return False
            if not srcs and a.id not in params:
                return False
    fk = repo.func("xknx.knxip.knxip", "KNXIPFrame.from_knx")
    ctor_ok = all(not (isinstance(s.value, ast.Call) and (s.value.args or s.value.keywords)) for s in walk_local(fk.node) if isinstance(s, ast.Assign) and isinstance(s.targets[0], ast.Name) and s.targets[0].id in ("body", "header") and isinstance(s.value, ast.Call))
    return n >= 3 and ctor_ok


def unregister_idiom(repo: Repo) -> bool:
    """`unregister_callback(H)`: H is the handle register_callback returned in the same function, or a slot
    `self.s` that is tested non-empty before and reset to None right after, and only ever holds such handles."""
    n = 0
    for f in repo.all_functions():
        if f.qualname.endswith("unregister_callback"):
            continue
        cfg = None
        for c in calls(f.node):
            if not (isinstance(c.func, ast.Attribute) and c.func.attr == "unregister_callback" and len(c.args) == 1):
                continue
            n += 1
            h = c.args[0]
            if isinstance(h, ast.Name):
                defs = [s for s in walk_local(f.node) if isinstance(s, ast.Assign) and isinstance(s.targets[0], ast.Name) and s.targets[0].id == h.id]
                if not (len(defs) == 1 and isinstance(defs[0].value, ast.Call) and isinstance(defs[0].value.func, ast.Attribute) and defs[0].value.func.attr == "register_callback"):
                    return False
                continue
            slot = ast.unparse(h)
            if not slot.startswith("self."):
                return False
            cfg = cfg or CFG(f.node)
            mf = cfg.must_facts()
            node = next((x for x in cfg.nodes if x.ast is not None and any(y is c for y in ast.walk(x.ast))), None)
            if node is None:
                return False
            facts = mf[node.id]
            guarded = any((a == slot and v) or (a == f"{slot} is not None" and v) or (a == f"{slot} is None" and not v) for a, v in facts)
            reset = any(isinstance(s, ast.Assign) and ast.unparse(s.targets[0]) == slot and isinstance(s.value, ast.Constant) and s.value.value is None for s in walk_local(f.node))
            if not (guarded and reset):
                return False
            for w in attr_writes(repo, slot.split(".", 1)[1], include_mutators=False):
                if w.func.cls is None or f.cls is None or not (repo.is_subclass(w.func.cls, f.cls) or repo.is_subclass(f.cls, w.func.cls)):
                    continue
                v = w.stmt.value if isinstance(w.stmt, (ast.Assign, ast.AnnAssign)) else None
                if not ((isinstance(v, ast.Constant) and v.value is None) or (isinstance(v, ast.Call) and isinstance(v.func, ast.Attribute) and v.func.attr == "register_callback")):
                    return False
    return n >= 4


def decrypt_callers_narrow(repo: Repo) -> bool:
    n = 0
    for f in repo.all_functions():
        cs = [c for c in calls(f.node) if call_name(c) == "self.decrypt_frame"]
        if not cs:
            continue
        cfg = CFG(f.node)
        mf = cfg.must_facts()
        for c in cs:
            n += 1
            node = next((x for x in cfg.nodes if x.ast is not None and any(y is c for y in ast.walk(x.ast))), None)
            arg = ast.unparse(c.args[0]) if c.args else "?"
            if node is None or not any(a == f"isinstance({arg}.body, SecureWrapper)" and v for a, v in mf[node.id]):
                return False
    return n >= 2


def _memo(fn):
    box: dict = {}

    def w():
        if "v" not in box:
            box["v"] = fn()
        return box["v"]
    return w


def transport_reviewed(repo: Repo, mr) -> dict:
    from .c12 import address_reviewed
    out = {k: (r, _memo(v) if v is not None else None) for k, (r, v) in address_reviewed(repo, tuple(m for m in repo.modules if m.startswith("xknx.knxip."))).items()}
    global frames_come_from_the_parser
    _orig = frames_come_from_the_parser
    _cache: dict = {}

    def frames_cached(r):
        if "v" not in _cache:
            _cache["v"] = _orig(r)
        return _cache["v"]
    fcp = frames_cached
    wire = "frames reach the handlers only from KNXIPFrame.from_knx (census of handle_knxipframe callers; header/bodies default-constructed), and every writer of the field on that path stores a value of the wire width"
    hdr = repo.cls("xknx.knxip.header", "KNXIPHeader")
    sw = repo.cls("xknx.knxip.secure_wrapper", "SecureWrapper")
    tn = repo.cls("xknx.knxip.timer_notify", "TimerNotify")
    out["OverflowError|KNXIPHeader.to_knx|self.total_length.to_bytes(2, 'big')"] = (wire, _memo(lambda: fcp(repo) and wire_range_ok(repo, mr, hdr, "total_length", 2)))
    out["OverflowError|_IPSecureTransportLayer.decrypt_frame|encrypted_frame.body.secure_session_id.to_bytes(2, 'big')"] = (wire, _memo(lambda: fcp(repo) and wire_range_ok(repo, mr, sw, "secure_session_id", 2)))
    out["OverflowError|SecureSequenceTimer.verify_timer_notify_mac|timer_notify.timer_value.to_bytes(6, 'big')"] = (wire, _memo(lambda: fcp(repo) and wire_range_ok(repo, mr, tn, "timer_value", 6)))
    out["OverflowError|_IPSecureTransportLayer.decrypt_frame|len($0).to_bytes(2, 'big')"] = ("dec_frame has the length of the wrapper's encrypted_data, a slice of a received frame whose total length is a 16-bit field", _memo(lambda: fcp(repo)))
    out["OverflowError|calculate_message_authentication_code_cbc|len(additional_data).to_bytes(2, 'big')"] = ("every caller passes a concatenation of fixed-size header fields and identifiers (well below 65536 octets)", None)
    out["AssertionError|_IPSecureTransportLayer.decrypt_frame|assert isinstance(encrypted_frame.body, SecureWrapper)"] = ("every call of decrypt_frame is dominated by isinstance(frame.body, SecureWrapper)", _memo(lambda: decrypt_callers_narrow(repo)))
    out["ValueError|KNXIPTransport.unregister_callback|self.callbacks.remove(callb)"] = ("every unregister passes a handle that is registered: the one register_callback just returned, or a slot tested non-empty before and reset to None right after that only holds such handles", _memo(lambda: unregister_idiom(repo)))
    for exc in ("ValueError", "OverflowError"):
        out[f"{exc}|SecureSequenceTimer._monotonic_ms|int(self._loop.time() * 1000.0)"] = ("asyncio's loop.time() is a finite monotonic clock reading", None)
    return out


# ------------------------------------------------------------------ (d) TCP stream table
def tcp_stream_table(chk: Check, repo: Repo, lbd: LowerBound) -> None:
    fi = repo.func(TCP, "TCPTransport.data_received_callback")
    cfg = CFG(fi.node)
    exc = ExcTable(repo)
    loops = [n for n in cfg.nodes if n.kind == "test" and isinstance(n.ast, ast.expr) and any(isinstance(w, ast.While) and w.test is n.ast for w in walk_local(fi.node))]
    if len(loops) != 1:
        chk.ob("tcp-stream-loop", fi.site(), False, f"TCPTransport.data_received_callback has {len(loops)} loops over the received octets: a chunk may carry several frames, which needs exactly one iteration per frame (recursion per frame is unbounded stack depth)", key="tcp|stream-loop")
        return
    chk.ob("tcp-stream-loop", fi.site(), True, "one loop over the unparsed octets, one frame per iteration", key="tcp|stream-loop")
    head = loops[0]
    wl = next(w for w in walk_local(fi.node) if isinstance(w, ast.While) and w.test is head.ast)
    tnames = sorted({x.id for x in ast.walk(wl.test) if isinstance(x, ast.Name) and x.id not in ("len", "KNXIPHeader", "self")})
    if len(tnames) != 1:
        raise AnalysisError(f"unsupported stream-loop condition `{ast.unparse(wl.test)}`")
    cur = tnames[0]  # the cursor: unparsed octets; a condition that can be false on non-empty octets shows up as a path that leaves the loop without buffering them
    frame = Obj("KNXIPFrame", "frame")
    rest = Sym("obj:remainder-returned-by-from_knx")

    def run(parse: str, hdr: str, start: int, env0: dict) -> list:
        def cm(c: ast.Call, env):
            n = call_name(c)
            if n == "KNXIPFrame.from_knx":
                if parse == "ok":
                    return [Outcome(None, (frame, rest))]
                return [Outcome(None, Raise(parse))]
            if n.endswith(".handle_knxipframe"):
                ev_ = f"HANDLE({box['am'].ev(c.args[0], env, {})!r})"
                return [Outcome(ev_, None), Outcome(ev_, Raise("CouldNotParseKNXIP"))]
            if n == "KNXIPHeader":
                return [Outcome(None, Obj("KNXIPHeader", "h"))]
            if n.endswith(".from_knx"):
                return [Outcome(None, Raise("CouldNotParseKNXIP"))] if hdr == "raises" else [Outcome(None, 6)]
            if n == "self.data_received_callback":
                return [Outcome("RECURSE", None)]
            if n.endswith(".debug") or n.endswith(".hex") or n.endswith(".warning") or n.endswith(".info"):
                return [Outcome(None, None)]
            return None

        def sh(node, env):
            a = node.ast
            if node.kind == "stmt" and isinstance(a, ast.Assign) and len(a.targets) == 1:
                t = ast.unparse(a.targets[0])
                if t in (cur, "self._buffer"):
                    v = a.value
                    if isinstance(v, ast.BinOp) and isinstance(v.op, ast.Add):
                        txt = f"{box['am'].ev(v.left, env, {})!r}+{box['am'].ev(v.right, env, {})!r}"
                    elif isinstance(v, ast.Subscript) and isinstance(v.slice, ast.Slice) and v.slice.upper is None and v.slice.lower is not None:
                        txt = f"{box['am'].ev(v.value, env, {})!r}[{ast.unparse(v.slice.lower)}:]"
                    else:
                        txt = repr(box["am"].ev(v, env, {}))
                    env["trace"] = tuple(env.get("trace", ())) + (f"{'CUR' if t == cur else 'BUF'}:={txt}",)

        box: dict = {}
        am = AbsMachine(cfg, exc, cm, None, sh)
        box["am"] = am
        return Explorer(cfg, repo, am.step).run(start, [head.id], env0)

    def conds(path) -> dict[str, bool]:
        """branch decisions on the two skip guards along the path: U = announced length unusable, S = octets missing."""
        out: dict[str, bool] = {}
        for a, b in zip(path.nodes, path.nodes[1:]):
            n = cfg.nodes[a]
            if n.kind != "test" or n.ast is None:
                continue
            lab = next((l for t, l in n.succ if t == b and l in ("true", "false")), None)
            if lab is None:
                continue
            tv = lab == "true"
            if cmp_matches(n.ast, tv, lambda s: s.endswith(".total_length"), "<", lambda s: s.endswith("HEADERLENGTH")):
                out["U"] = True
            elif cmp_matches(n.ast, tv, lambda s: s.endswith(".total_length"), ">=", lambda s: s.endswith("HEADERLENGTH")):
                out["U"] = False
            elif cmp_matches(n.ast, tv, lambda s: s.startswith("len("), "<", lambda s: s.endswith(".total_length")):
                out["S"] = True
            elif cmp_matches(n.ast, tv, lambda s: s.startswith("len("), ">=", lambda s: s.endswith(".total_length")):
                out["S"] = False
            elif cmp_matches(n.ast, tv, lambda s: s.startswith("len("), "<", lambda s: s.endswith("HEADERLENGTH")):
                out["H"] = True  # fewer octets than a header
            elif cmp_matches(n.ast, tv, lambda s: s.startswith("len("), ">=", lambda s: s.endswith("HEADERLENGTH")):
                out["H"] = False
            elif cmp_matches(n.ast, tv, lambda s: s.endswith("[0]"), "==", lambda s: s.endswith("HEADERLENGTH")):
                out["F"] = True  # the first octet is the header length octet
            elif cmp_matches(n.ast, tv, lambda s: s.endswith("[0]"), "!=", lambda s: s.endswith("HEADERLENGTH")):
                out["F"] = False
        return out

    stream = Sym("obj:unparsed-stream")
    env0 = {cur: stream, "self._buffer": b""}
    # premise read off the header parser: can it reject (not: report incomplete) fewer than six octets?
    hp = repo.func("xknx.knxip.header", "KNXIPHeader.from_knx")
    hcfg = CFG(hp.node)
    hmf = hcfg.must_facts()
    hdata = hp.node.args.args[1].arg
    short_reject = any(n.kind == "stmt" and isinstance(n.ast, ast.Raise) and n.ast.exc is not None and "CouldNotParseKNXIP" in ast.unparse(n.ast.exc)
                       and any(val and atom.startswith(f"len({hdata}) < ") and atom.endswith("HEADERLENGTH") for atom, val in hmf[n.id]) for n in hcfg.nodes)
    chk.count("header parser rejects some inputs shorter than a header", int(short_reject))

    def outcome(p) -> tuple:
        tr = tuple(t for t in p.env.get("trace", ()) if not t.startswith("raise:"))
        end = "next-iteration" if p.end == head.id else ("return" if p.end == cfg.exit else f"raise {p.env.get('#raised')}")
        return tr, end

    # 1. frame parses
    got = {outcome(p) for p in run("ok", "ok", head.id, dict(env0))}
    want = {((f"HANDLE({frame!r})", f"CUR:={rest!r}"), "next-iteration")}
    chk.ob("tcp-stream-cell", fi.site(wl), got == want, f"frame parses: {sorted(map(str, got))}; required: handed over exactly once, then continue with exactly the remainder from_knx returned {sorted(map(str, want))}", key="tcp|parsed" + ("" if got == want else f"|{sorted(map(str, got))}"))
    # 2. incomplete
    got = {outcome(p) for p in run("IncompleteKNXIPFrame", "ok", head.id, dict(env0))}
    want = {((f"BUF:={stream!r}",), "return")}
    chk.ob("tcp-stream-cell", fi.site(wl), got == want, f"incomplete frame: {sorted(map(str, got))}; required: the whole unparsed remainder is buffered and nothing is handed over {sorted(map(str, want))}", key="tcp|incomplete" + ("" if got == want else f"|{sorted(map(str, got))}"))
    # 3. malformed
    for hdr in ("ok", "raises"):
        paths = run("CouldNotParseKNXIP", hdr, head.id, dict(env0))
        cells: dict[tuple, set] = {}
        for p in paths:
            c = conds(p)
            for u in (True, False):
                for s in (True, False):
                    if c.get("U", u) == u and c.get("S", s) == s:
                        cells.setdefault((u, s), set()).add(outcome(p))
        if short_reject and hdr == "raises":
            # the header parser rejects some inputs of fewer than six octets (not 'incomplete': no continuation makes them
            # a frame).  The announced length has not arrived then.  If the first octet is the header-length octet the
            # length is still to come and the frame can be skipped by it - wait; otherwise nothing tells where the next
            # frame starts.
            sub: dict[tuple, set] = {}
            for p in paths:
                c = conds(p)
                if c.get("U", True) is not True:
                    continue
                for h in (True, False):
                    for f_ in (True, False):
                        if c.get("H", h) == h and c.get("F", f_) == f_:
                            sub.setdefault((h, f_), set()).add(outcome(p))
            for (h, f_), outs in sorted(sub.items()):
                if h and f_:
                    ok = outs == {((f"BUF:={stream!r}",), "return")}
                    req = "the announced length is still to come: buffer everything and wait, so that the frame can be skipped and those behind it are not lost"
                else:
                    ok = all(end == "return" and not any(t.startswith("HANDLE") for t in tr) for tr, end in outs) or all(end == "next-iteration" and any(t.startswith(f"CUR:={stream!r}[") for t in tr) for tr, end in outs)
                    req = "no usable length: stop (or resynchronise with progress); never hand over, never loop in place"
                chk.ob("tcp-stream-cell", fi.site(wl), ok, f"rejected header, announced length unread, {'fewer than six octets' if h else 'six or more octets'}, first octet {'is' if f_ else 'is not'} the header-length octet: {sorted(map(str, outs))}; required: {req}", key=f"tcp|short|{h}|{f_}" + ("" if ok else f"|{sorted(map(str, outs))}"))
            chk.floor("rejected-short-header cells", len(sub), 2)
        for (u, s), outs in sorted(cells.items()):
            if u and s:
                continue  # infeasible: the announced length is unusable, so nothing can be "missing" by it
            if u and short_reject and hdr == "raises":
                continue  # decided by the rejected-short-header cells above
            if not u and not s:
                ok = len(outs) == 1 and all(end == "next-iteration" and len(tr) == 1 and tr[0].startswith(f"CUR:={stream!r}[") and tr[0].endswith(".total_length:]") for tr, end in outs)
                req = "skip exactly the announced length and keep parsing (no hand-over, nothing buffered)"
            elif not u and s:
                ok = outs == {((f"BUF:={stream!r}",), "return")}
                req = "wait for the rest of the malformed frame: buffer everything, hand nothing over"
            else:
                ok = all(end == "return" and not any(t.startswith("HANDLE") for t in tr) for tr, end in outs) or all(end == "next-iteration" and any(t.startswith(f"CUR:={stream!r}[") for t in tr) for tr, end in outs)
                req = "no usable length: stop (or resynchronise with progress); never hand over, never loop in place"
            chk.ob("tcp-stream-cell", fi.site(wl), ok, f"malformed frame, header re-parse {hdr}, announced length {'unusable' if u else 'usable'}, announced octets {'missing' if s else 'present'}: {sorted(map(str, outs))}; required: {req}", key=f"tcp|malformed|{hdr}|U={u}|S={s}" + ("" if ok else f"|{sorted(map(str, outs))}"))
        chk.floor(f"malformed-frame cells (header re-parse {hdr})", len(cells), 3)
    # 4. prologue: buffered octets are prepended, then the buffer is cleared
    buf = Sym("obj:buffered")
    new = Sym("obj:new-chunk")
    for label, b0, want in (("empty buffer", b"", {((), "loop")}), ("buffered octets", buf, {((f"CUR:={buf!r}+{new!r}", "BUF:=b''"), "loop")})):
        paths = run("ok", "ok", cfg.entry, {cur: new, "self._buffer": b0})
        got = {(tuple(t for t in p.env.get("trace", ())), "loop" if p.end == head.id else "other") for p in paths}
        chk.ob("tcp-buffer-prepended", fi.site(), got == want, f"prologue with {label}: {sorted(map(str, got))}; required {sorted(map(str, want))}", key=f"tcp|prologue|{label}" + ("" if got == want else f"|{sorted(map(str, got))}"))
    # 5. progress of the loop (termination)
    an = lbd.analysis(fi, fi.cls)
    frame_from = repo.func("xknx.knxip.knxip", "KNXIPFrame.from_knx")
    fan = lbd.analysis(frame_from, frame_from.cls)
    rets = [n for n in walk_local(frame_from.node) if isinstance(n, ast.Return) and isinstance(n.value, ast.Tuple) and len(n.value.elts) == 2]
    rem_lb = NEG
    if len(rets) == 1 and isinstance(rets[0].value.elts[1], ast.Subscript) and isinstance(rets[0].value.elts[1].slice, ast.Slice) and rets[0].value.elts[1].slice.lower is not None:
        lo = rets[0].value.elts[1].slice.lower
        hdr_f = repo.func("xknx.knxip.header", "KNXIPHeader.from_knx")
        rem_lb = max(lbd.facts_lb(fan, ast.unparse(lo), rets[0]), lbd.post_attr(hdr_f, "self.total_length", hdr_f.cls) if ast.unparse(lo).endswith(".total_length") else NEG)
    for n in walk_local(wl):
        if isinstance(n, ast.Assign) and len(n.targets) == 1 and ast.unparse(n.targets[0]) == cur:
            v = n.value
            if isinstance(v, ast.Subscript) and isinstance(v.slice, ast.Slice) and v.slice.upper is None and v.slice.lower is not None and ast.unparse(v.value) == cur:
                lb = lbd.expr(an, v.slice.lower, n)
                chk.ob("tcp-loop-progress", fi.site(n), lb >= 1, f"`{ast.unparse(n)}` drops >= {lb if lb > NEG else 'unknown'} octets", key=f"tcp|progress|{canon(n)}")
            elif isinstance(v, ast.Name):
                # the remainder returned by from_knx
                src = [s for s in walk_local(wl) if isinstance(s, ast.Assign) and isinstance(s.targets[0], ast.Tuple) and any(isinstance(e, ast.Name) and e.id == v.id for e in s.targets[0].elts) and isinstance(s.value, ast.Call) and call_name(s.value) == "KNXIPFrame.from_knx"]
                ok = len(src) == 1 and isinstance(src[0].targets[0].elts[1], ast.Name) and src[0].targets[0].elts[1].id == v.id and src[0].value.args and ast.unparse(src[0].value.args[0]) == cur and rem_lb >= 1
                chk.ob("tcp-loop-progress", fi.site(n), ok, f"`{ast.unparse(n)}`: `{v.id}` is the remainder KNXIPFrame.from_knx({cur}) returned, which drops >= {rem_lb if rem_lb > NEG else 'unknown'} octets (announced length >= header length, C20)", key=f"tcp|progress|{canon(n)}")
            else:
                chk.ob("tcp-loop-progress", fi.site(n), False, f"`{ast.unparse(n)}`: cannot show the stream cursor shrinks", key=f"tcp|progress|{canon(n)}")
    # 6. buffer ownership
    ws = [w for w in attr_writes(repo, "_buffer") if w.func.module.name.startswith("xknx.io.transport")]
    owners = sorted({w.func.qualname for w in ws})
    resets = [w for w in ws if w.func.qualname in ("TCPTransport.connect", "TCPTransport.stop", "TCPTransport._connection_lost") and isinstance(w.stmt, ast.Assign) and isinstance(w.stmt.value, ast.Constant) and w.stmt.value.value == b""]
    other = [w for w in ws if w not in resets]
    chk.ob("tcp-buffer-owner", fi.site(), {w.func.qualname for w in other} <= {"TCPTransport.__init__", "TCPTransport.data_received_callback"} and "TCPTransport.data_received_callback" in owners, f"writers of `_buffer`: {owners} (besides the stream loop only empty resets in __init__ / connect / stop)", key="tcp|buffer-owners")
    # the remainder kept for the next chunk belongs to ONE connection: the transport object is reused by reconnects, so
    # connect() empties the buffer before the new connection can deliver anything
    con = repo.func("xknx.io.transport.tcp_transport", "TCPTransport.connect")
    chk.unit(con)
    ccfg = CFG(con.node)
    rs = [n.id for n in ccfg.nodes if n.kind == "stmt" and isinstance(n.ast, ast.Assign) and ast.unparse(n.ast.targets[0]) == "self._buffer" and isinstance(n.ast.value, ast.Constant) and n.ast.value.value == b""]
    opens = [n.id for n in ccfg.nodes if n.ast is not None and n.kind == "stmt" and any(isinstance(x, ast.Call) and call_name(x).endswith("create_connection") for x in ast.walk(n.ast))]
    ok = len(opens) == 1 and any(ccfg.dominates(r, opens[0]) for r in rs)
    chk.ob("tcp-stream-starts-empty-on-every-connection", con.site(), ok, "TCPTransport.connect() empties the stream buffer before it opens the connection" if ok else "TCPTransport.connect() keeps what the previous connection left in the stream buffer (the transport object is reused by reconnects): the cut-off frame of a lost connection is glued onto the first octets of the new stream — a frame the server never sent is delivered and the frames that follow are lost or shifted", key="tcp|buffer-reset-on-connect")


def header_length_readable(chk: Check, repo: Repo) -> None:
    """The TCP skip relies on KNXIPHeader.from_knx having stored the announced length before it rejects a header
    for any reason other than the header-length octet itself."""
    fi = repo.func("xknx.knxip.header", "KNXIPHeader.from_knx")
    chk.unit(fi)
    cfg = CFG(fi.node)
    mf = cfg.must_facts()
    sets = [n for n in cfg.nodes if n.kind == "stmt" and isinstance(n.ast, (ast.Assign, ast.AnnAssign)) and any(isinstance(t, ast.Attribute) and t.attr == "total_length" and isinstance(t.ctx, ast.Store) for t in ast.walk(n.ast))]
    if len(sets) != 1:
        raise AnalysisError(f"KNXIPHeader.from_knx: expected one assignment of total_length, found {len(sets)}")
    a = sets[0]
    v = a.ast.value
    data = fi.node.args.args[1].arg
    ok_v = ast.unparse(v).replace(" ", "") in (f"{data}[4]*256+{data}[5]", f"{data}[4]<<8|{data}[5]", f"({data}[4]<<8)|{data}[5]", f"({data}[4]<<8)+{data}[5]", f"int.from_bytes({data}[4:6],'big')")
    chk.ob("announced-length-read-from-octets-4-5", fi.site(a.ast), ok_v, f"`{ast.unparse(a.ast)}`", key="hdr|total-length-expr")
    n_r = 0
    for n in cfg.nodes:
        if n.kind != "stmt" or not isinstance(n.ast, ast.Raise) or n.ast.exc is None:
            continue
        txt = ast.unparse(n.ast.exc)
        if "IncompleteKNXIPFrame" in txt or "CouldNotParseKNXIP" not in txt:
            continue
        n_r += 1
        len_octet = any(val and f"{data}[0]" in atom for atom, val in mf[n.id])
        # fewer than six octets: the announced length (octets 4-5) has not arrived - nothing to skip by
        short = any(val and atom.startswith(f"len({data}) < ") and atom.endswith("HEADERLENGTH") for atom, val in mf[n.id])
        if short:
            chk.ob("announced-length-stored-before-rejecting", fi.site(n.ast), True, f"`raise {txt[:60]}` rejects fewer than HEADERLENGTH octets (no announced length to store)", key=f"hdr|raise|short|{canon(n.ast)[:80]}")
            continue
        ok = cfg.dominates(a.id, n.id) or len_octet
        chk.ob("announced-length-stored-before-rejecting", fi.site(n.ast), ok, f"`raise {txt[:60]}` is {'preceded by the total_length assignment' if cfg.dominates(a.id, n.id) else ('the header-length-octet rejection (no readable length)' if len_octet else 'reached WITHOUT total_length having been stored: the TCP transport cannot skip such a frame and drops the stream')}", key=f"hdr|raise|{canon(n.ast)[:80]}")
    chk.floor("header rejections", n_r, 3)


def udp_table(chk: Check, repo: Repo) -> None:
    fi = repo.func(UDP, "UDPTransport.data_received_callback")
    cfg = CFG(fi.node)
    exc = ExcTable(repo)
    frame = Obj("KNXIPFrame", "frame")
    for parse in ("ok", "CouldNotParseKNXIP", "IncompleteKNXIPFrame"):
        for echo in (True, False):
            def cm(c: ast.Call, env):
                n = call_name(c)
                if n == "KNXIPFrame.from_knx":
                    return [Outcome(None, (frame, Sym("obj:rest")))] if parse == "ok" else [Outcome(None, Raise(parse))]
                if n.endswith(".handle_knxipframe"):
                    return [Outcome(f"HANDLE({box['am'].ev(c.args[0], env, {})!r})", None)]
                if n == "HPAI" or n.endswith(".debug") or n.endswith(".hex"):
                    return [Outcome(None, None)]
                return None
            box: dict = {}
            am = AbsMachine(cfg, exc, cm)
            box["am"] = am
            env = {"raw": Sym("obj:datagram"), "self.multicast": echo, "source": Sym("obj:src"), "self.local_addr_assigned": Sym("obj:src") if echo else Sym("obj:own")}
            got = {(tuple(p.env.get("trace", ())), "return" if p.end == cfg.exit else f"raise {p.env.get('#raised')}") for p in Explorer(cfg, repo, am.step).run(cfg.entry, [], env)}
            want = {((f"HANDLE({frame!r})",) if (parse == "ok" and not echo) else (), "return")}
            chk.ob("udp-datagram-cell", fi.site(), got == want, f"datagram parse={parse} own-multicast-echo={echo}: {sorted(map(str, got))}; required {sorted(map(str, want))}", key=f"udp|{parse}|{echo}" + ("" if got == want else f"|{sorted(map(str, got))}"))


def _is_dispatch_call(c: ast.Call) -> bool:
    """`<loop variable>.callback(frame, source, transport)` - the call of a registered callback (whatever the local is called)"""
    return isinstance(c.func, ast.Attribute) and c.func.attr == "callback" and isinstance(c.func.value, ast.Name) and len(c.args) == 3


def run(chk: Check, repo: Repo) -> None:
    from .common_rules import dispatch_iterates_a_snapshot
    dispatch_iterates_a_snapshot(chk, repo, repo.func("xknx.io.transport.ip_transport", "KNXIPTransport.handle_knxipframe"), "callbacks", "the registered frame callbacks", "snapshot|transport-callbacks")
    def safe(fi: FuncInfo) -> bool:
        # serialising / wrapping the frame that is sent is C21's and C28's obligation; `send` itself is followed: it
        # refuses with CommunicationError / IPSecureError when the transport is closed or the session not initialised -
        # which is the case for an answer to a frame that follows, in the same TCP chunk, the one that closed it
        return fi.cls is not None and ((fi.name in ("to_knx", "init_from_body", "calculated_length") and fi.module.name.startswith("xknx.knxip")) or fi.name == "encrypt_frame")

    def cb_targets(fi: FuncInfo, c: ast.Call):
        n = call_name(c)
        if fi.qualname == "KNXIPTransport.handle_knxipframe" and _is_dispatch_call(c):
            return []  # the registered callbacks are separate entries below
        if n in ("self.cemi_received_callback", "self.indication_callback", "self.data_received_callback", "self.connection_lost_callback", "self._connection_lost_cb"):
            return [] if n in ("self.cemi_received_callback", "self.indication_callback") else None
        return None

    mr = engine(repo, assume_safe=safe, callback_targets=cb_targets)
    lbd = LowerBound(mr)
    tcp = repo.func(TCP, "TCPTransport.data_received_callback")
    udp = repo.func(UDP, "UDPTransport.data_received_callback")
    entries = [tcp, udp, repo.func(IPT, "KNXIPTransport.handle_knxipframe")]
    for q in ("TCPTransport.TCPTransportFactory.data_received",):
        if repo.has_func(TCP, q):
            entries.append(repo.func(TCP, q))
    for q in ("UDPTransport.UDPTransportFactory.datagram_received",):
        if repo.has_func(UDP, q):
            entries.append(repo.func(UDP, q))
    # what a transport schedules on the loop itself (`call_later`) is called by the loop like a datagram callback
    timer_cb = repo.func("xknx.io.ip_secure", "SecureSequenceTimer._notify_timer_expired")
    scheduled = [c for f_ in repo.all_functions() if f_.module.name == "xknx.io.ip_secure" for c in calls(f_.node) if call_name(c).endswith("call_later") and any(ast.unparse(a_) == "self._notify_timer_expired" for a_ in c.args)]
    chk.ob("loop-callbacks-are-entries", timer_cb.site(), bool(scheduled), f"SecureSequenceTimer._notify_timer_expired is handed to call_later at {len(scheduled)} site(s) and analysed as an entry", key="entries|notify-timer")
    entries.append(timer_cb)
    chk.floor("transport receive entries", len(entries), 4)
    base_reviewed = transport_reviewed(repo, mr)
    for e in entries:
        check_entry(chk, mr, e, (), label=e.qualname, reviewed=base_reviewed)
        definite_assignment(chk, e)
    # registered callbacks: what leaves one is what the dispatch loop contains around the call (nothing else)
    hk = repo.func(IPT, "KNXIPTransport.handle_knxipframe")
    contained: tuple[str, ...] = ()
    for t in walk_local(hk.node):
        if isinstance(t, ast.Try) and any(isinstance(c, ast.Call) and _is_dispatch_call(c) for s_ in t.body for c in ast.walk(s_)):
            for h in t.handlers:
                if h.type is not None:
                    contained += tuple(ast.unparse(x).split(".")[-1] for x in (h.type.elts if isinstance(h.type, ast.Tuple) else [h.type]))
    chk.ob("dispatch-contains-what-callbacks-raise", hk.site(), True, f"KNXIPTransport.handle_knxipframe contains {list(contained) or 'nothing'} around each callback; the registered callbacks may raise exactly that", key="dispatch|contained")
    regs = registered_callbacks(repo)
    bodies = body_class_of(repo)
    chk.floor("registered transport callbacks (method x concrete class)", len(regs), 20)
    seen = set()
    for m, k, sts, reg in regs:
        if (m.ref, k.ref) in seen:
            continue
        seen.add((m.ref, k.ref))
        reviewed = dict(base_reviewed)
        for a in walk_local(m.node):
            if isinstance(a, ast.Assert) and isinstance(a.test, ast.Call) and call_name(a.test) == "isinstance" and len(a.test.args) == 2 and ast.unparse(a.test.args[0]).endswith(".body"):
                want = repo.resolve_expr(m.module, a.test.args[1])
                def validator(want=want, sts=sts) -> bool:
                    return isinstance(want, ClassInfo) and bool(sts) and all(s.name in bodies and repo.is_subclass(bodies[s.name], want) for s in sts)
                reviewed[f"AssertionError|{m.qualname}|{canon(a)[:160]}"] = (f"registered only for {[s.name for s in sts]}, whose frames carry a {ast.unparse(a.test.args[1])} body (dispatch table, C20)", validator)
        if m.qualname == "GatewayScanner._response_rec_callback":
            def qv() -> bool:
                # every queue handed to the scanner callback is created unbounded
                ok, n = True, 0
                for f in repo.all_functions():
                    if f.module.name != m.module.name:
                        continue
                    for c in calls(f.node):
                        if call_name(c) in ("asyncio.Queue", "Queue"):
                            n += 1
                            ok = ok and not c.args and not any(kw.arg == "maxsize" for kw in c.keywords)
                return ok and n > 0
            reviewed[f"QueueFull|{m.qualname}|queue.put_nowait(…"] = ("the scanner creates its queues unbounded (asyncio.Queue() without maxsize)", qv)
        check_entry(chk, mr, m, contained, ctx=k, label=f"{m.qualname}@{k.name}", reviewed=reviewed)
        definite_assignment(chk, m)
    chk.ob("no-recursion", tcp.site(), not (mr.recursive & {tcp.ref, udp.ref}) and not any(call_name(c) == "self.data_received_callback" for c in calls(tcp.node)) and not any(call_name(c) == "self.data_received_callback" for c in calls(udp.node)),
           f"the transport callbacks do not call themselves (recursive functions met below the entries: {sorted(mr.recursive)})", key="no-recursion")
    # one protocol object per TCP connection, all reporting their loss to the same transport object: the report of an
    # earlier connection may arrive after the next one is up (asyncio defers connection_lost while the write buffer
    # drains) - it must not close the current connection
    tcn = repo.func(TCP, "TCPTransport.connect")
    chk.unit(tcn)
    kwv = [k.value for c in calls(tcn.node) if call_name(c).endswith("TCPTransportFactory") for k in c.keywords if k.arg == "connection_lost_callback"]
    ok_cl, why_cl = False, "the protocol is given self._connection_lost itself: the late loss report of an earlier connection stops the current one and its frames never reach the callbacks"
    if len(kwv) == 1 and isinstance(kwv[0], ast.Name):
        nested = [n for n in ast.walk(tcn.node) if isinstance(n, (ast.FunctionDef, ast.Lambda)) and getattr(n, "name", None) == kwv[0].id]
        if len(nested) == 1:
            ncfg = CFG(nested[0])
            nmf = ncfg.must_facts()
            cl = [n for n in ncfg.nodes if n.ast is not None and n.kind == "stmt" and any(call_name(c) == "self._connection_lost" for c in calls(n.ast))]
            ok_cl = bool(cl) and all(any(v and " is self.transport" in a and ".transport" in a.split(" is ")[0] for a, v in nmf[n.id]) or any(v and a.startswith("self.transport is ") and a.endswith(".transport") for a, v in nmf[n.id]) for n in cl)
            why_cl = "the protocol's loss callback calls self._connection_lost only while its own transport is the current one" if ok_cl else "the loss callback does not test that its connection is the current one"
    chk.ob("only-the-current-connection-reports-its-loss", tcn.site(), ok_cl, f"TCPTransport.connect: {why_cl}", key="tcp|stale-connection-lost")
    tcp_stream_table(chk, repo, lbd)
    header_length_readable(chk, repo)
    udp_table(chk, repo)
    chk.rule("E1 may-raise analysis of the transport callbacks and every registered transport callback; definite-assignment dataflow over the CFG with exceptional edges; decision tables of the TCP stream loop / UDP datagram handler by abstract path enumeration; loop progress by lower bounds; ownership census of the stream buffer")
    chk.assume("serialising / wrapping the frame a callback sends, and the link-layer callbacks (cemi_received_callback / indication_callback) are outside this check: C21, C28, C18 and C32 carry them")
    finish(chk, mr)
