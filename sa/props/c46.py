"""C46 — automatic connection never downgrades a secured gateway.

 (a) _start_automatic: per-gateway decision enumerated over all cells of
     {supports_tunnelling_tcp, supports_tunnelling, supports_routing} x
     {tunnelling_requires_secure, routing_requires_secure in None/True/False}; the start method
     invoked is classified by the interface class it constructs; an unsecured tunnel implies the
     gateway does not require secure tunnelling, unsecured routing implies it does not require
     secure routing.
 (b) GatewayScanFilter.match: extracted truth table == oracle formula over all 32 x 72 cells.
 (c) parse_dibs: *_requires_secure come only from the secured-service-families DIB (right family),
     supports_* only from the supported-service-families DIB.
"""

from __future__ import annotations

import ast
from itertools import product

from ..absmachine import AbsMachine, Obj, Outcome, Raise, UNKNOWN, class_isinstance
from ..astx import attr_writes, call_name, calls, method_name, walk_local
from ..cfg import CFG
from ..exctable import ExcTable
from ..explore import Explorer
from ..loader import AnalysisError, EnumMember, Repo
from ..report import Check, canon

KI = "xknx.io.knxip_interface"
GS = "xknx.io.gateway_scanner"

SECURE_IFACES = {"SecureTunnel", "SecureRouting"}
TUNNEL_IFACES = {"TCPTunnel", "UDPTunnel", "SecureTunnel"}
ROUTING_IFACES = {"Routing", "SecureRouting"}


def start_methods(chk: Check, repo: Repo) -> dict[str, str]:
    """_start_* method -> interface class it assigns to self._interface."""
    cls = repo.cls(KI, "KNXIPInterface")
    out = {}
    for name, m in cls.methods.items():
        if not name.startswith("_start_"):
            continue
        ctors = set()
        for w in attr_writes(repo, "_interface", [m], include_mutators=False):
            v = getattr(w.stmt, "value", None)
            if isinstance(v, ast.Call):
                ctors.add(method_name(v))
        if len(ctors) == 1:
            out[name] = ctors.pop()
            chk.unit(m)
    return out


def check_automatic(chk: Check, repo: Repo) -> None:
    fi = repo.func(KI, "KNXIPInterface._start_automatic")
    chk.unit(fi)
    starts = start_methods(chk, repo)
    chk.floor("start_methods_with_one_interface_class", len(starts), 5)
    known = TUNNEL_IFACES | ROUTING_IFACES
    for m, c in starts.items():
        chk.ob("start-method-classified", fi.site(), c in known, f"{m} constructs {c}", key=f"start|{m}|{c}")
    cfg = CFG(fi.node)
    exc = ExcTable(repo)

    def call_model(c: ast.Call, env):
        n = call_name(c)
        if n.startswith("self.") and method_name(c) in starts:
            return [Outcome(f"START:{starts[method_name(c)]}", None), Outcome(f"FAIL:{starts[method_name(c)]}", Raise("CommunicationError"))]
        if n == "set" and not c.args:
            return [Outcome(None, ())]
        return None

    loop_var = None
    for n in ast.walk(fi.node):
        if isinstance(n, ast.AsyncFor):
            loop_var = ast.unparse(n.target)
    if loop_var is None:
        raise AnalysisError("_start_automatic: gateway loop not found")
    cells = 0
    for tcp, udp, rt in product((False, True), repeat=3):
        for treq, rreq in product((None, False, True), repeat=2):
            cells += 1
            env = {
                "keyring": None,
                f"{loop_var}.supports_tunnelling_tcp": tcp,
                f"{loop_var}.supports_tunnelling": udp,
                f"{loop_var}.supports_routing": rt,
                f"{loop_var}.tunnelling_requires_secure": treq,
                f"{loop_var}.routing_requires_secure": rreq,
            }
            am = AbsMachine(cfg, exc, call_model)
            paths = Explorer(cfg, repo, am.step).run(cfg.entry, [], env)
            started = set()
            for p in paths:
                for ev in p.env.get("trace", ()):
                    if ev.startswith(("START:", "FAIL:")):
                        started.add(ev.split(":")[1])
            bad = []
            for c in started:
                if c in TUNNEL_IFACES and c not in SECURE_IFACES and treq is True:
                    bad.append(f"unsecured tunnel {c} although tunnelling requires secure")
                if c in ROUTING_IFACES and c not in SECURE_IFACES and rreq is True:
                    bad.append(f"unsecured routing {c} although routing requires secure")
                if c in ("TCPTunnel", "SecureTunnel") and not tcp:
                    bad.append(f"{c} although TCP tunnelling is not supported")
                if c == "UDPTunnel" and not udp:
                    bad.append("UDPTunnel although tunnelling is not supported")
                if c in ROUTING_IFACES and not rt:
                    bad.append(f"{c} although routing is not supported")
            cell = f"tcp={tcp} udp={udp} routing={rt} tunnelling_requires_secure={treq} routing_requires_secure={rreq}"
            chk.ob("no-downgrade-cell", fi.site(), not bad, f"{cell}: attempts {sorted(started)}" + (": " + "; ".join(bad) if bad else ""), key=f"auto|{cell}|{sorted(started)}" if bad else f"auto|{tcp}|{udp}|{rt}|{treq}|{rreq}")
    chk.count("start_automatic_cells", cells)
    chk.rule("E7 decision table of the per-gateway branch of _start_automatic (abstract path enumeration), start methods classified by the interface class they construct")


def check_filter(chk: Check, repo: Repo) -> None:
    fi = repo.func(GS, "GatewayScanFilter.match")
    chk.unit(fi)
    cfg = CFG(fi.node)
    exc = ExcTable(repo)
    gw = [a.arg for a in fi.node.args.args][1]
    flags = ["tunnelling", "tunnelling_tcp", "routing", "secure_tunnelling", "secure_routing"]
    cells = 0
    mism = 0
    first_bad = None
    for fvals in product((False, True), repeat=5):
        for tcp, udp, rt in product((False, True), repeat=3):
            for treq, rreq in product((None, False, True), repeat=2):
                cells += 1
                env = {"self.name": None, f"{gw}.supports_tunnelling_tcp": tcp, f"{gw}.supports_tunnelling": udp, f"{gw}.supports_routing": rt,
                       f"{gw}.tunnelling_requires_secure": treq, f"{gw}.routing_requires_secure": rreq}
                for f, v in zip(flags, fvals):
                    env[f"self.{f}"] = v
                am = AbsMachine(cfg, exc, lambda c, e: None)
                paths = Explorer(cfg, repo, am.step).run(cfg.entry, [], env)
                rets = {p.env.get("#ret") for p in paths if p.end == cfg.exit}
                en = dict(zip(flags, fvals))
                want = bool(
                    (en["tunnelling"] and udp and not treq)
                    or (en["tunnelling_tcp"] and tcp and not treq)
                    or (en["routing"] and rt and not rreq)
                    or (en["secure_tunnelling"] and tcp and bool(treq))
                    or (en["secure_routing"] and rt and bool(rreq))
                )
                ok = len(paths) == 1 and rets == {want}
                if not ok:
                    mism += 1
                    if first_bad is None or mism <= 5:
                        first_bad = f"filter={en} gateway(tcp={tcp}, udp={udp}, routing={rt}, treq={treq}, rreq={rreq}): code {sorted(map(str, rets))}, oracle {want}"
                        chk.ob("filter-cell", fi.site(), False, first_bad, key=f"filter|{fvals}|{tcp}|{udp}|{rt}|{treq}|{rreq}")
    chk.count("scan_filter_cells", cells)
    chk.ob("filter-table-equals-oracle", fi.site(), mism == 0, f"{cells} cells evaluated, {mism} differ from OR_m enabled(m) and supported(m) and (secure(m) <=> requires_secure(service(m)))", key="filter-table")
    # name filter
    for nm, gname, want in ((("obj", "A"), ("obj", "A"), None), (("obj", "A"), ("obj", "B"), False)):
        env = {"self.name": Obj("str", nm[1]), f"{gw}.name": Obj("str", gname[1])}
        for f in flags:
            env[f"self.{f}"] = True
        for k in ("supports_tunnelling_tcp", "supports_tunnelling", "supports_routing"):
            env[f"{gw}.{k}"] = True
        env[f"{gw}.tunnelling_requires_secure"] = None
        env[f"{gw}.routing_requires_secure"] = None
        am = AbsMachine(cfg, exc, lambda c, e: None)
        paths = Explorer(cfg, repo, am.step).run(cfg.entry, [], env)
        rets = {p.env.get("#ret") for p in paths if p.end == cfg.exit}
        ok = rets == ({False} if want is False else {True})
        chk.ob("filter-name", fi.site(), ok, f"name filter {nm[1]!r} vs gateway name {gname[1]!r}: returns {sorted(map(str, rets))}", key=f"filter-name|{nm[1]}|{gname[1]}")
    chk.rule("E7 truth-table extraction of GatewayScanFilter.match vs the oracle formula over all cells")


def check_scanner(chk: Check, repo: Repo) -> None:
    """A plain SearchResponse cannot carry the secured-service-families DIB, so a descriptor built from it always says
    "secure not required".  For a device that announces Core v2 (which answers the extended search with the full
    description) the plain response therefore never becomes a descriptor — whatever else is known at that moment,
    e.g. whether its extended response has already arrived."""
    fi = repo.func(GS, "GatewayScanner._response_rec_callback")
    chk.unit(fi)
    cfg = CFG(fi.node)
    exc = ExcTable(repo)
    st = "xknx.knxip.knxip_enum:KNXIPServiceType"
    p0 = fi.node.args.args[1].arg
    n_cells = 0
    for svc, has_dib, core2 in product(("SEARCH_RESPONSE", "SEARCH_RESPONSE_EXTENDED"), (False, True), (False, True)):
        if not has_dib and core2:
            continue
        n_cells += 1
        dib = Obj("DIBSuppSVCFamilies", "d")
        box: dict = {}

        def cm(c, env, has_dib=has_dib, core2=core2):
            n = call_name(c)
            if n == "next":
                return [Outcome(None, dib if has_dib else None)]
            if isinstance(c.func, ast.Attribute) and c.func.attr == "supports" and box["am"].ev(c.func.value, env, {}) == dib:
                return [Outcome(None, core2)]
            if n == "GatewayDescriptor":
                return [Outcome("DESCRIPTOR", Obj("GatewayDescriptor", "g"))]
            if n.endswith(".parse_dibs") or n.startswith("logger.") or n == "repr" or n.endswith("put_nowait") or n.endswith("_response_received_event.set"):
                return [Outcome(None, None)]
            if n.endswith("scan_filter.match"):
                return [Outcome(None, True)]
            if n == "len":
                return [Outcome(None, 1)]
            return None

        def hook(e, env):
            if isinstance(e, ast.Attribute):
                v = repo.fold(e, fi.module, fi.cls)
                if isinstance(v, EnumMember):
                    return v
            return UNKNOWN
        am = AbsMachine(cfg, exc, cm, hook)
        am.isinstance_fn = class_isinstance(repo)
        box["am"] = am
        env = {f"{p0}.body": Obj("SearchResponse" if svc == "SEARCH_RESPONSE" else "SearchResponseExtended", "b"), f"{p0}.header.service_type_ident": EnumMember(st, svc), "self.stop_on_found": None, "queue": None}
        paths = Explorer(cfg, repo, am.step).run(cfg.entry, [], env)
        got = {"DESCRIPTOR" in p.env.get("trace", ()) for p in paths}
        want = {not (svc == "SEARCH_RESPONSE" and core2)}
        chk.ob("plain-search-response-of-a-core-v2-device-is-never-used", fi.site(), got == want, f"{svc}, supported-families DIB {'present' if has_dib else 'absent'}, core v2 {core2}: descriptor built on {sorted(got)} of the paths; reference {sorted(want)}", key=f"scanner|{svc}|{has_dib}|{core2}")
    chk.count("scanner response cells", n_cells)
    # a device that announces core v1 (or no core family) in its plain response but answers the extended search with
    # secured service families: its plain response is an independent, "not secured" descriptor unless the scanner
    # remembers which control endpoints answered extended.  Structural form: a membership test on a per-scanner
    # collection that the extended path fills, deciding whether the plain response is used.
    tests = [n for n in walk_local(fi.node) if isinstance(n, ast.Compare) and len(n.ops) == 1 and isinstance(n.ops[0], (ast.In, ast.NotIn)) and isinstance(n.comparators[0], ast.Attribute) and isinstance(n.comparators[0].value, ast.Name) and n.comparators[0].value.id == "self"]
    filled = {ast.unparse(c.func.value) for c in calls(fi.node) if isinstance(c.func, ast.Attribute) and c.func.attr in ("add", "append") and isinstance(c.func.value, ast.Attribute)}
    reconciled = any(ast.unparse(t.comparators[0]) in filled for t in tests)
    chk.ob("plain-and-extended-answers-of-one-endpoint-are-reconciled", fi.site(), reconciled, "GatewayScanner._response_rec_callback " + ("remembers the endpoints that answered the extended search and drops their plain responses" if reconciled else "decides from the plain SearchResponse alone (its own core version): every datagram becomes an independent descriptor, the plain one with tunnelling/routing 'not secured'"), key="scanner|plain-after-extended")


def check_parse_dibs(chk: Check, repo: Repo) -> None:
    fi = repo.func(GS, "GatewayDescriptor.parse_dibs")
    chk.unit(fi)
    cfg = CFG(fi.node)
    mf = cfg.must_facts()
    want = {
        "tunnelling_requires_secure": ("DIBSecuredServiceFamilies", "TUNNELING"),
        "routing_requires_secure": ("DIBSecuredServiceFamilies", "ROUTING"),
        "supports_routing": ("DIBSuppSVCFamilies", "ROUTING"),
        "supports_tunnelling": ("DIBSuppSVCFamilies", "TUNNELING"),
        "supports_tunnelling_tcp": ("DIBSuppSVCFamilies", "TUNNELING"),
    }
    for attr, (dibcls, fam) in want.items():
        ws = [w for w in attr_writes(repo, attr, include_mutators=False) if w.func.cls is not None and w.func.cls.name == "GatewayDescriptor"]
        inparse = [w for w in ws if w.func.name == "parse_dibs"]
        others = [w for w in ws if w.func.name not in ("parse_dibs", "__init__")]
        ok = bool(inparse) and not others
        detail = []
        for w in inparse:
            nodes = [n for n in cfg.nodes if n.ast is w.stmt]
            facts = set()
            for n in nodes:
                facts |= set(mf[n.id])
            under = any(t.startswith("isinstance(") and dibcls in t and v for t, v in facts)
            # the value must derive from the right service family
            src = ast.unparse(w.stmt.value)
            fam_ok = True
            if attr.endswith("requires_secure") or attr == "supports_routing":
                # exactly what that DIB says about the family: no other descriptor state (which would make the
                # flag depend on the order the DIBs arrive in) enters the value
                reads_self = sorted({ast.unparse(x) for x in ast.walk(w.stmt.value) if isinstance(x, ast.Attribute) and isinstance(x.value, ast.Name) and x.value.id == "self"})
                v_ = w.stmt.value
                plain = isinstance(v_, ast.Call) and isinstance(v_.func, ast.Attribute) and v_.func.attr == "supports" and [ast.unparse(a) for a in v_.args] == [f"DIBServiceFamily.{fam}"] and not v_.keywords
                if attr.endswith("requires_secure"):
                    # an announcement accumulates over the blocks of that type: the DIB's own word `or` the flag's
                    # previous value (and nothing else) - a plain assignment lets a second block erase the first
                    def own(x: ast.AST) -> bool:
                        if isinstance(x, ast.Call) and call_name(x) == "bool" and len(x.args) == 1:
                            x = x.args[0]
                        if isinstance(x, ast.Compare) and len(x.ops) == 1 and isinstance(x.ops[0], ast.Is) and isinstance(x.comparators[0], ast.Constant) and x.comparators[0].value is True:
                            x = x.left
                        return ast.unparse(x) == f"self.{attr}"
                    def says(x: ast.AST) -> bool:
                        return isinstance(x, ast.Call) and isinstance(x.func, ast.Attribute) and x.func.attr == "supports" and [ast.unparse(a) for a in x.args] == [f"DIBServiceFamily.{fam}"] and not x.keywords
                    sticky = isinstance(v_, ast.BoolOp) and isinstance(v_.op, ast.Or) and sum(1 for o in v_.values if says(o)) == 1 and all(says(o) or own(o) for o in v_.values) and any(own(o) for o in v_.values)
                    fam_ok = sticky
                    if plain:
                        detail.append("a plain assignment: the last DIBSecuredServiceFamilies block of a response wins and resets what an earlier block announced as secured")
                else:
                    fam_ok = f"DIBServiceFamily.{fam}" in src and not reads_self and plain
            elif attr == "supports_tunnelling":
                fam_ok = any(f"DIBServiceFamily.{fam}" in t and v for t, v in facts)
            elif attr == "supports_tunnelling_tcp":
                fam_ok = any(f"DIBServiceFamily.{fam}" in t and v for t, v in facts) and ">= 2" in src
            ok = ok and under and fam_ok
            detail.append(f"`{canon(w.stmt)}` under isinstance({dibcls})={under}, family {fam}={fam_ok}")
        chk.ob("capability-source", fi.site(), ok, f"{attr}: {'; '.join(detail)}; foreign writers: {[w.func.qualname for w in others]}", key=f"dib|{attr}")
    # writers anywhere else in the package (e.g. scanner code patching the descriptor)
    for attr in want:
        for w in attr_writes(repo, attr, include_mutators=False):
            if w.func.cls is None or w.func.cls.name != "GatewayDescriptor":
                chk.ob("capability-source", w.func.site(w.stmt), False, f"foreign write of {attr}: `{canon(w.stmt)}` in {w.func.qualname}", key=f"dib-foreign|{attr}|{w.func.qualname}")
    chk.rule("E5 writer census + E4 must-facts: capability flags are assigned only under the isinstance test of their DIB class with the right service family")


def run(chk: Check, repo: Repo) -> None:
    check_automatic(chk, repo)
    check_filter(chk, repo)
    check_parse_dibs(chk, repo)
    check_scanner(chk, repo)
    chk.assume("tri-state None of *_requires_secure means 'not announced as secured' (treated as falsy, as the code does)")
    chk.assume("manual connection types (explicit user configuration) are outside C46")
