"""C41 — exposed values respect the cooldown and always end up on the bus (structural part).

The timing clauses (telegrams "at least the cooldown apart", "within one cooldown after the last update") are
event-loop quantities and are NOT decided.  What is decided are the control-structure conditions those clauses rest on -
each a necessary condition: breaking it breaks the behaviour for some history.

 (a) the pending value: `set()` stores the encoded value in the pending slot on every path that neither raises nor is the
     skip-unchanged exit - in particular before the "cooldown is running" exit.  So the most recently set value is what
     the cooldown task, the periodic sender and a read request see.
 (b) set() sends directly only when no cooldown runs (no cooldown task, or the task is done), and starts the cooldown
     before that send - the next update finds it running.  While the cooldown runs, set() sends nothing.
 (c) the cooldown task: created with wait_before_start = the cooldown parameter and repeat_after = 0 (every iteration
     waits the cooldown again), target `_cooldown_send`; `_cooldown_send` sends the pending value exactly when it
     differs from the last payload on the bus and otherwise ends the loop (cancels the task) without sending.
 (d) skip-unchanged compares with the value last *set* (the pending slot), not with the value last on the bus: a value
     that differs from the last one set is never suppressed.
 (e) a read request is answered with the pending (most recently set) value when there is one, as a response, and
     restarts the cooldown; only without a pending value the remote value answers with its own state.
 (f) the periodic sender sends the pending value and restarts the cooldown.
 (g) who writes the pending slot: __init__ (None), set(), initialize_value() (the payload of the value it installs).
"""

from __future__ import annotations

import ast

from ..astx import attr_writes, call_name, calls, walk_local
from ..cfg import CFG
from ..loader import AnalysisError, FuncInfo, Repo
from ..report import Check, canon

M = "xknx.devices.expose_sensor"
SLOT = "self._payload_after_cooldown"


def _stmts(cfg: CFG, pred) -> list:
    return [n for n in cfg.nodes if n.kind == "stmt" and n.ast is not None and pred(n.ast)]


RAW_SEND = "self.sensor_value.send_raw"
SENDS: set[str] = {RAW_SEND}


def find_send_wrappers(repo: Repo) -> dict[str, FuncInfo]:
    """methods of ExposeSensor that are a send: every normal path calls `self.sensor_value.send_raw` with the method's
    first parameter as the payload (and hands a `response` parameter through).  Calls to them count as sends."""
    out: dict[str, FuncInfo] = {}
    ci = repo.cls(M, "ExposeSensor")
    for name, m in ci.methods.items():
        ps = [a.arg for a in m.node.args.args if a.arg != "self"]
        if not ps:
            continue
        cfg = CFG(m.node)
        hits = [n.id for n in cfg.nodes if n.kind == "stmt" and n.ast is not None and any(call_name(c) == RAW_SEND and c.args and isinstance(c.args[0], ast.Name) and c.args[0].id == ps[0] and all(
            (k.arg != "response" or (isinstance(k.value, ast.Name) and k.value.id in ps)) for k in c.keywords) and all(isinstance(x, ast.Name) and x.id in ps for x in c.args[1:]) for c in calls(n.ast))]
        if hits and cfg.all_paths_hit(cfg.entry, hits, ends=[cfg.exit], edge_ok=lambda a_, b_, lab: lab != "exc"):
            out[f"self.{name}"] = m
    SENDS.clear()
    SENDS.update({RAW_SEND, *out})
    return out


def _send_call(a: ast.AST) -> ast.Call | None:
    return next((c for c in calls(a) if call_name(c) in SENDS), None)


def _is_send(a: ast.AST) -> bool:
    return _send_call(a) is not None


def _facts(cfg: CFG):
    return cfg.must_facts()


def set_rules(chk: Check, repo: Repo) -> None:
    f = repo.func(M, "ExposeSensor.set")
    chk.unit(f)
    cfg = CFG(f.node)
    mf = _facts(cfg)
    stores = _stmts(cfg, lambda a: isinstance(a, ast.Assign) and any(ast.unparse(t) == SLOT for t in a.targets))
    sends = _stmts(cfg, _is_send)
    starts = _stmts(cfg, lambda a: any(call_name(c) == "self.xknx.task_registry.start_task" and c.args and ast.unparse(c.args[0]) == "self._cooldown_task" for c in calls(a)))
    rets = _stmts(cfg, lambda a: isinstance(a, ast.Return))
    if len(stores) != 1 or not sends:
        raise AnalysisError("ExposeSensor.set: pending-slot store / send not found")
    st = stores[0]
    # (a) what is stored is the encoding of the argument
    val = cfg.symbolic(st.id, st.ast.value)
    vparam = f.node.args.args[1].arg
    enc_ok = isinstance(val, ast.Call) and call_name(val) == "self.sensor_value.to_knx" and len(val.args) == 1 and isinstance(val.args[0], ast.Name) and val.args[0].id == vparam
    chk.ob("pending-value-is-the-value-set", f.site(st.ast), enc_ok, f"set() stores `{ast.unparse(val)}` in the pending slot (required: the encoding of `{vparam}`)", key="set|stored-value")
    # every normal exit is dominated by the store, except returns taken under the skip test (slot already equal)
    for r in rets + [n for n in cfg.nodes if n.id == cfg.exit]:
        if r.id == cfg.exit:
            preds = [p for p, _ in cfg.nodes[cfg.exit].pred if not isinstance(cfg.nodes[p].ast, ast.Return)]
            ok = all(cfg.dominates(st.id, p) for p in preds)
            if preds:
                chk.ob("pending-value-is-stored-before-every-exit", f.site(), ok, "falling off the end of set() happens after the pending slot was written", key="set|store|fall-off")
            continue
        skip_exit = any(v and a.replace(" ", "") in (f"{SLOT}==payload".replace(" ", ""),) or (v and a.startswith(SLOT + " == ")) or (v and a.endswith(" == " + SLOT)) for a, v in mf[r.id])
        ok = cfg.dominates(st.id, r.id) or skip_exit
        chk.ob("pending-value-is-stored-before-every-exit", f.site(r.ast), ok, f"`return` at line {r.lineno}: " + ("after the pending slot was written" if cfg.dominates(st.id, r.id) else ("the skip-unchanged exit (slot already holds this payload)" if skip_exit else "set() returns without remembering the value - while the cooldown runs it is lost")), key=f"set|store|{'skip' if skip_exit else 'ret'}|{len([x for x in rets if x.lineno <= r.lineno])}")
    # (d) the skip test compares the new payload with the pending slot
    skips = [n for n in cfg.nodes if n.kind == "test" and isinstance(n.ast, ast.Compare) and len(n.ast.ops) == 1 and isinstance(n.ast.ops[0], ast.Eq)]
    cmp_ok = False
    for n in skips:
        sides = {ast.unparse(cfg.symbolic(n.id, n.ast.left)), ast.unparse(cfg.symbolic(n.id, n.ast.comparators[0]))}
        if SLOT in sides and any(s.startswith("self.sensor_value.to_knx(") for s in sides):
            cmp_ok = True
        elif any("last_payload" in s or "sensor_value.value" in s for s in sides):
            cmp_ok = False
            break
    chk.ob("skip-unchanged-compares-with-the-value-last-set", f.site(), cmp_ok and any(isinstance(x, ast.Name) and x.id == "skip_unchanged" for x in ast.walk(f.node)), "the skip-unchanged test compares the new payload with the pending slot (the value last set), not with the value last on the bus", key="set|skip-compare")
    # (b) direct send only when no cooldown runs, cooldown started first; nothing sent while it runs
    for s_ in sends:
        via_task_done = [n for n in cfg.nodes if n.kind == "test" and n.ast is not None and "self._cooldown_task.done()" in ast.unparse(n.ast)]
        ok_start = True
        if via_task_done:
            # on the path through the done() test the start precedes the send
            t = via_task_done[0]
            ok_start = bool(starts) and cfg.all_paths_hit(t.id, [x.id for x in starts], ends=[s_.id], edge_ok=lambda a_, b_, lab: lab != "exc")
        chk.ob("direct-send-only-when-no-cooldown-runs", f.site(s_.ast), ok_start and bool(via_task_done), "set() reaches its own send_raw only past `self._cooldown_task.done()` being true (or without a cooldown task), and with a cooldown task starts it before sending", key="set|send-gate")
    running_exit = [r for r in rets if any((a == "self._cooldown_task.done()" and v is False) or (a == "not self._cooldown_task.done()" and v) for a, v in mf[r.id])]
    chk.ob("nothing-is-sent-while-the-cooldown-runs", f.site(), len(running_exit) == 1 and not any(cfg.dominates(s_.id, running_exit[0].id) for s_ in sends), "while the cooldown task is running set() returns without sending (the value waits in the pending slot)", key="set|running-exit")


def cooldown_task_rules(chk: Check, repo: Repo) -> None:
    ini = repo.func(M, "ExposeSensor.__init__")
    chk.unit(ini)
    tasks = [c for c in calls(ini.node) if call_name(c) == "Task"]
    cd = [c for c in tasks if any(k.arg == "target" and ast.unparse(k.value) == "self._cooldown_send" for k in c.keywords)]
    if len(cd) != 1:
        raise AnalysisError("ExposeSensor.__init__: cooldown Task not found")
    kw = {k.arg: k.value for k in cd[0].keywords}
    cparam = next((a.arg for a in ini.node.args.args + ini.node.args.kwonlyargs if a.arg == "cooldown"), None)
    ok = cparam is not None and isinstance(kw.get("wait_before_start"), ast.Name) and kw["wait_before_start"].id == cparam and isinstance(kw.get("repeat_after"), ast.Constant) and kw["repeat_after"].value == 0
    chk.ob("cooldown-task-waits-the-cooldown-every-round", ini.site(cd[0]), ok, f"cooldown Task(wait_before_start={ast.unparse(kw.get('wait_before_start', ast.Constant(None)))}, repeat_after={ast.unparse(kw.get('repeat_after', ast.Constant(None)))}): each iteration waits the configured cooldown before `_cooldown_send` (repeat_after=0: loops until cancelled)", key="task|cooldown")
    per = [c for c in tasks if any(k.arg == "target" and ast.unparse(k.value) == "self._periodic_send_impl" for k in c.keywords)]
    if len(per) == 1:
        kwp = {k.arg: k.value for k in per[0].keywords}
        okp = isinstance(kwp.get("wait_before_start"), ast.Name) and kwp["wait_before_start"].id == "periodic_send" and isinstance(kwp.get("repeat_after"), ast.Constant) and kwp["repeat_after"].value == 0
        chk.ob("periodic-task-waits-its-period-every-round", ini.site(per[0]), okp, "periodic Task waits `periodic_send` before every `_periodic_send_impl`", key="task|periodic")
    cs = repo.func(M, "ExposeSensor._cooldown_send")
    chk.unit(cs)
    cfg = CFG(cs.node)
    mf = _facts(cfg)
    sends = _stmts(cfg, _is_send)
    cancels = _stmts(cfg, lambda a: any(call_name(c) == "self._cooldown_task.cancel" for c in calls(a)))
    # the value the pending one is compared with at the end of a cooldown ("the value last on the bus")
    refs = sorted({ast.unparse(o) for n in cfg.nodes if n.kind == "test" and isinstance(n.ast, ast.Compare) and len(n.ast.ops) == 1 and isinstance(n.ast.ops[0], (ast.Eq, ast.NotEq))
                   for me, o in ((n.ast.left, n.ast.comparators[0]), (n.ast.comparators[0], n.ast.left)) if ast.unparse(me) == SLOT})
    if len(refs) > 1:
        raise AnalysisError(f"_cooldown_send: several comparisons of the pending value ({refs})")
    if not refs:
        chk.ob("cooldown-end-sends-the-pending-value-iff-it-differs", cs.site(), False, "_cooldown_send does not compare the pending value with the value sent last: it sends at every expiry (the loop never ends, the same value goes out once per cooldown)", key="cooldown-send")
        return
    ref = refs[0]
    eq_atoms = (f"{ref} == {SLOT}", f"{SLOT} == {ref}")
    # ... has to be what the sensor itself handed to the outgoing queue last: `sensor_value.last_payload` is written when
    # the queue has *processed* the telegram (rate limiter, confirmation wait) - while an own telegram is still queued it is
    # the value before, the same payload is queued again at every expiry, or a newer value is taken for sent and dropped
    cls = repo.cls(M, "ExposeSensor")
    own = ref.startswith("self.") and ref.count(".") == 1
    paired = False
    detail = f"`{ref}` is not an attribute of the sensor itself"
    if own:
        attr = ref[5:]
        raw_sites = [(m, n_) for m in cls.methods.values() for n_ in walk_local(m.node) if isinstance(n_, ast.Call) and call_name(n_) == RAW_SEND]
        bad = []
        for m, c in raw_sites:
            mc = CFG(m.node)
            sn = next((x for x in mc.nodes if x.kind == "stmt" and x.ast is not None and any(y is c for y in ast.walk(x.ast))), None)
            pay = ast.unparse(c.args[0]) if c.args else "?"
            st = [x for x in mc.nodes if x.kind == "stmt" and isinstance(x.ast, ast.Assign) and any(ast.unparse(t) == ref for t in x.ast.targets) and ast.unparse(x.ast.value) == pay]
            if sn is None or not any(mc.dominates(x.id, sn.id) or mc.all_paths_hit(sn.id, [x.id], ends=[mc.exit], edge_ok=lambda a_, b_, lab: lab != "exc") for x in st):
                bad.append(f"{m.name}: send_raw({pay})")
        paired = bool(raw_sites) and not bad
        detail = f"`{ref}` is written with the payload at every one of the {len(raw_sites)} send_raw site(s)" if paired else f"`{ref}` is not written at {bad}"
        _ = attr
    chk.ob("cooldown-end-compares-with-what-was-queued-last", cs.site(), own and paired, "_cooldown_send compares the pending value with " + (detail if own and paired else detail + " - while an own telegram waits in the outgoing queue the comparison sees an older value: one update is sent again at every expiry, or the newest value is dropped"), key="cooldown-send|reference")
    s_ok = len(sends) == 1 and any(a in eq_atoms and v is False for a, v in mf[sends[0].id]) and any(call_name(c) in SENDS and c.args and ast.unparse(cfg.symbolic(sends[0].id, c.args[0])) == SLOT for c in calls(sends[0].ast))
    c_ok = len(cancels) == 1 and any(a in eq_atoms and v for a, v in mf[cancels[0].id]) and not any(cfg.dominates(cancels[0].id, s_.id) for s_ in sends)
    chk.ob("cooldown-end-sends-the-pending-value-iff-it-differs", cs.site(), s_ok and c_ok, "_cooldown_send: pending value != last payload on the bus -> send the pending value; equal -> cancel the task, send nothing", key="cooldown-send")


def _idle_by_paths(cfg: CFG, target: int) -> bool:
    """every path to `target` leaves a `cooldown task is not None` test on its false edge or a `.done()` test on its true
    edge (the short-circuit form `task is not None and not task.done()` has no single must-fact)"""
    t_none = [n.id for n in cfg.nodes if n.kind == "test" and n.ast is not None and ast.unparse(n.ast) in ("self._cooldown_task is not None",)]
    t_none_pos = [n.id for n in cfg.nodes if n.kind == "test" and n.ast is not None and ast.unparse(n.ast) in ("self._cooldown_task is None",)]
    t_done = [n.id for n in cfg.nodes if n.kind == "test" and n.ast is not None and ast.unparse(n.ast) == "self._cooldown_task.done()"]
    if not t_done:
        return False

    def running(s_: int, t_: int, lab: str) -> bool:
        if lab == "exc":
            return False
        if s_ in t_none and lab == "false":
            return False
        if s_ in t_none_pos and lab == "true":
            return False
        if s_ in t_done and lab == "true":
            return False
        return True
    return target not in cfg.reachable([cfg.entry], edge_ok=running)


def read_and_periodic(chk: Check, repo: Repo) -> None:
    rd = repo.func(M, "ExposeSensor.process_group_read")
    chk.unit(rd)
    cfg = CFG(rd.node)
    mf = _facts(cfg)
    sends = _stmts(cfg, _is_send)
    resp = _stmts(cfg, lambda a: any(call_name(c) == "self.sensor_value.respond" for c in calls(a)))
    ok = len(sends) == 1 and len(resp) == 1
    if ok:
        c = next(c for c in calls(sends[0].ast) if call_name(c) in SENDS)
        as_response = any(k.arg == "response" and isinstance(k.value, ast.Constant) and k.value.value is True for k in c.keywords)
        pending = any((a == SLOT + " is not None" and v) or (a == SLOT + " is None" and v is False) for a, v in mf[sends[0].id])
        none_ = any((a == SLOT + " is not None" and v is False) or (a == SLOT + " is None" and v) for a, v in mf[resp[0].id])
        restarts = any(call_name(c2) == "self._restart_cooldown" for n in cfg.nodes if n.kind == "stmt" and n.ast is not None and cfg.dominates(sends[0].id, n.id) for c2 in calls(n.ast))
        ok = as_response and pending and none_ and c.args and ast.unparse(c.args[0]) == SLOT and restarts
    gate = any((a == "self.respond_to_read" and v) or (a == "not self.respond_to_read" and v is False) for n in sends + resp for a, v in mf[n.id])
    chk.ob("read-is-answered-with-the-most-recent-value", rd.site(), ok and gate, "process_group_read (respond_to_read): a pending value is sent as a response and the cooldown restarted; without one the remote value answers with its state", key="read")
    ps = repo.func(M, "ExposeSensor._periodic_send_impl")
    chk.unit(ps)
    cfg2 = CFG(ps.node)
    sends2 = _stmts(cfg2, _is_send)
    ok2 = len(sends2) == 1 and any(call_name(c) in SENDS and c.args and ast.unparse(c.args[0]) == SLOT for c in calls(sends2[0].ast)) and any(call_name(c2) == "self._restart_cooldown" for n in cfg2.nodes if n.kind == "stmt" and n.ast is not None and cfg2.dominates(sends2[0].id, n.id) for c2 in calls(n.ast))
    chk.ob("periodic-send-uses-the-pending-value", ps.site(), ok2, "_periodic_send_impl sends the pending value and restarts the cooldown", key="periodic")
    # ... but not while a cooldown runs: that would put a value telegram on the bus less than one cooldown after the last
    mf2 = cfg2.must_facts()
    idle = bool(sends2) and all(any((a == "self._cooldown_task is None" and v) or (a == "self._cooldown_task is not None" and v is False) or (a == "self._cooldown_task.done()" and v) or (a == "not self._cooldown_task.done()" and v is False) for a, v in mf2[n.id]) or _idle_by_paths(cfg2, n.id) for n in sends2)
    chk.ob("periodic-send-respects-a-running-cooldown", ps.site(), idle, "_periodic_send_impl sends " + ("only when no cooldown task is running" if idle else "also while the cooldown runs - the held-back value leaves early (or twice)"), key="periodic|cooldown")
    rc = repo.func(M, "ExposeSensor._restart_cooldown")
    chk.unit(rc)
    ok3 = any(call_name(c) == "self.xknx.task_registry.start_task" and c.args and ast.unparse(c.args[0]) == "self._cooldown_task" for c in calls(rc.node))
    chk.ob("restart-cooldown-starts-the-task", rc.site(), ok3, "_restart_cooldown (re)starts the cooldown task through the registry (C36: replaces a running instance)", key="restart")


def slot_writers(chk: Check, repo: Repo) -> None:
    ws = [w for w in attr_writes(repo, "_payload_after_cooldown", include_mutators=False) if w.func.module.name == M]
    owners = sorted({w.func.name for w in ws})
    chk.ob("pending-slot-owners", "xknx/devices/expose_sensor.py", set(owners) == {"__init__", "set", "initialize_value"}, f"writers of the pending slot: {owners}", key="slot|owners")
    # the two Task objects are the only place the cooldown and the period are kept: nobody but the constructor writes
    # them (dropping them on removal turns a re-added / restarted sensor into one without cooldown and periodic send)
    for attr in ("_cooldown_task", "_periodic_send_task"):
        tw = sorted({w.func.name for w in attr_writes(repo, attr, include_mutators=False) if w.func.module.name == M})
        chk.ob("task-configuration-survives-removal", "xknx/devices/expose_sensor.py", tw == ["__init__"], f"writers of {attr}: {tw}", key=f"task-owner|{attr}")
    iv = repo.func(M, "ExposeSensor.initialize_value")
    chk.unit(iv)
    w = [x for x in ws if x.func.name == "initialize_value"]
    ok = len(w) == 1 and ast.unparse(getattr(w[0].stmt, "value", ast.Constant(None))) == "self.sensor_value.last_payload"
    # the value is installed first (its setter encodes it and sets last_payload)
    cfg = CFG(iv.node)
    setv = _stmts(cfg, lambda a: isinstance(a, ast.Assign) and any(ast.unparse(t) == "self.sensor_value.value" for t in a.targets))
    slot = _stmts(cfg, lambda a: isinstance(a, ast.Assign) and any(ast.unparse(t) == SLOT for t in a.targets))
    ok = ok and len(setv) == 1 and len(slot) == 1 and cfg.dominates(setv[0].id, slot[0].id)
    # ... on every path: an exit between installing the value and aligning the slot leaves the old pending value to
    # answer reads and to be re-sent when the cooldown ends
    ok = ok and cfg.all_paths_hit(cfg.entry, [slot[0].id], ends=[cfg.exit], edge_ok=lambda a_, b_, lab: lab != "exc")
    # ... and the value the cooldown compares with follows (where that is an attribute of its own): otherwise the end of a
    # running cooldown takes the initialised value for a pending one and sends it
    cs = repo.func(M, "ExposeSensor._cooldown_send")
    refs = sorted({ast.unparse(o) for n in ast.walk(cs.node) if isinstance(n, ast.Compare) and len(n.ops) == 1 and isinstance(n.ops[0], (ast.Eq, ast.NotEq))
                   for me, o in ((n.left, n.comparators[0]), (n.comparators[0], n.left)) if ast.unparse(me) == SLOT})
    if len(refs) == 1 and refs[0] != "self.sensor_value.last_payload":
        rst = _stmts(cfg, lambda a: isinstance(a, ast.Assign) and any(ast.unparse(t) == refs[0] for t in a.targets) and ast.unparse(a.value) in ("self.sensor_value.last_payload", SLOT))
        ok = ok and len(rst) == 1 and cfg.dominates(setv[0].id, rst[0].id) and cfg.all_paths_hit(cfg.entry, [rst[0].id], ends=[cfg.exit], edge_ok=lambda a_, b_, lab: lab != "exc")
    chk.ob("initialize-value-leaves-nothing-pending", iv.site(), ok, "initialize_value installs the value, then makes the pending slot equal to the payload last 'on the bus' (nothing to send)", key="slot|initialize")


def task_loop(chk: Check, repo: Repo) -> None:
    """what the cooldown relies on in Task._start_internal: the wait comes first in every round, and the loop ends only
    for `repeat_after is None` - the cooldown task is created with repeat_after=0 and has to keep looping (a truthiness
    test would end it after the first deferred send: no cooldown follows that telegram)."""
    f = repo.func("xknx.core.task_registry", "Task._start_internal")
    chk.unit(f)
    cfg = CFG(f.node)
    mf = cfg.must_facts()
    brk = [n for n in cfg.nodes if n.kind == "stmt" and isinstance(n.ast, ast.Break)]
    ok_b = bool(brk) and all(any((a == "self.repeat_after is None" and v) or (a == "self.repeat_after is not None" and v is False) for a, v in mf[n.id]) for n in brk)
    rets_in_loop = [n for n in cfg.nodes if n.kind == "stmt" and isinstance(n.ast, ast.Return) and n.loops and not any("connected" in a for a, v in mf[n.id])]
    chk.ob("task-loop-ends-only-without-repeat", f.site(), ok_b and not rets_in_loop, "Task._start_internal leaves its loop only under `self.repeat_after is None` (repeat_after=0 keeps looping)" if ok_b and not rets_in_loop else f"Task._start_internal leaves its loop under {[sorted(mf[n.id]) for n in brk]} - repeat_after=0 must not end it", key="task|loop-exit")
    waits = [n for n in cfg.nodes if n.kind == "stmt" and n.ast is not None and any(call_name(c) == "asyncio.sleep" and c.args and ast.unparse(c.args[0]) == "self.wait_before_start" for c in calls(n.ast))]
    runs = [n for n in cfg.nodes if n.kind == "stmt" and n.ast is not None and any(call_name(c) == "self.target" for c in calls(n.ast))]
    ok_w = len(waits) == 1 and bool(waits[0].loops) and bool(runs) and all(n.loops for n in runs)
    if ok_w:
        # on every path from the loop head to the target call the wait is passed whenever wait_before_start is set
        guard = any((a == "self.wait_before_start" and v) for a, v in mf[waits[0].id])
        ok_w = guard and all(cfg.all_paths_hit(cfg.entry, [waits[0].id] + [t.id for t in cfg.nodes if t.kind == "test" and t.ast is not None and ast.unparse(t.ast) == "self.wait_before_start"], ends=[r.id]) for r in runs)
    chk.ob("task-waits-before-every-round", f.site(), ok_w, "Task._start_internal sleeps wait_before_start inside the loop, before the target of every round", key="task|wait-first")


def run(chk: Check, repo: Repo) -> None:
    wr = find_send_wrappers(repo)
    for m in wr.values():
        chk.unit(m)
    set_rules(chk, repo)
    task_loop(chk, repo)
    cooldown_task_rules(chk, repo)
    read_and_periodic(chk, repo)
    slot_writers(chk, repo)
    chk.rule("E4 path rules on the CFGs of ExposeSensor.set / _cooldown_send / process_group_read (dominance, must-facts of the guards, must-pass-through), value flow by reaching definitions, construction-site rule for the two Tasks, E5 ownership census of the pending slot")
    chk.assume("Task semantics (wait_before_start before every iteration, start_task replaces a running instance, cancel ends the loop) are C36's; time between telegrams itself is an event-loop quantity and is not decided")
